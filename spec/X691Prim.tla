------------------------------ MODULE X691Prim ------------------------------
(***************************************************************************)
(* C10.  ITU-T X.691 (unaligned PER) clause 11 and the length/fragmenting  *)
(* parts of clauses 16, 17, 20 - written from the standard, not from the   *)
(* code.  Every encoder returns [ok, bits]; ok = FALSE means "the encoder  *)
(* must refuse" (inadmissible arguments / value outside the constraint).   *)
(*                                                                         *)
(* W7 and W14 are 7 and 14 in X.691 (11.9.3.6 / 11.9.3.7).  Design-level   *)
(* instances shrink them so that every fragment-count class is crossed in  *)
(* a state space TLC can exhaust; replay/trace instances use 7 and 14.     *)
(***************************************************************************)
EXTENDS Bits, Big

CONSTANTS W7, W14

K127 == Pow2(W7) - 1        \* largest length of the single-octet form
K16  == Pow2(W14)           \* fragment unit ("16K")
K64  == 4 * K16             \* constrained lengths exist only below this ("64K")

Ok(b) == [ok |-> TRUE, bits |-> b]
Err   == [ok |-> FALSE, bits |-> <<>>]
Cat(a, b) == IF a.ok /\ b.ok THEN Ok(a.bits \o b.bits) ELSE Err

(* 11.5 constrained whole number: (v - lb) in the minimum number of bits   *)
(* that can hold (ub - lb); no bits at all if lb = ub                      *)
ConstrainedB(lb, ub, v) ==
  IF BLess(ub, lb) \/ BLess(v, lb) \/ BLess(ub, v) THEN Err
  ELSE Ok(MagBits(BSub(v, lb).m, MagBitLen(BSub(ub, lb).m)))

\* the same on TLC integers (lengths, indices)
Constrained(lb, ub, v) ==
  IF ub < lb \/ v < lb \/ v > ub THEN Err ELSE Ok(NatBits(v - lb, BitLen(ub - lb)))

(* 11.9.3.6 / 11.9.3.7: length < 16K in one or two octets                  *)
LenSmall(n) == IF n <= K127 THEN <<0>> \o NatBits(n, W7) ELSE <<1, 0>> \o NatBits(n, W14)
(* 11.9.3.8: m fragments of 16K follow, 1 <= m <= 4                        *)
FragHdr(m) == <<1, 1>> \o NatBits(m, 6)

(* the unconstrained length determinant for n: header bits and how many    *)
(* items that header covers (n itself below 16K)                           *)
LenGeneral(n) ==
  IF n < K16 THEN [bits |-> LenSmall(n), covers |-> n]
  ELSE LET m == Min(n \div K16, 4) IN [bits |-> FragHdr(m), covers |-> m * K16]

(* 11.7 semi-constrained whole number: (v - lb) in the minimum number of   *)
(* octets, preceded by that number as an unconstrained length              *)
SemiConstrainedB(lb, v) ==
  IF BLess(v, lb) THEN Err
  ELSE LET d == BSub(v, lb)  k == OctetsUnsigned(d) IN Ok(LenSmall(k) \o MagBits(d.m, 8 * k))

(* 11.8 unconstrained whole number: minimal two's complement octets        *)
UnconstrainedB(v) == LET k == Octets2s(v) IN Ok(LenSmall(k) \o TwosBits(v, 8 * k))

(* 11.6 normally small non-negative whole number                           *)
NormallySmallB(n) ==
  IF n.neg THEN Err
  ELSE IF BLess(n, BOfInt(64)) THEN Ok(<<0>> \o MagBits(n.m, 6))
  ELSE Cat(Ok(<<1>>), SemiConstrainedB(BZero, n))
NormallySmall(n) == NormallySmallB(BOfInt(n))

(* 11.9.4: length determinant with optional bounds.  covers = number of    *)
(* items the emitted header announces                                      *)
LenDet(hasLb, lb, hasUb, ub, n) ==
  LET lo == IF hasLb THEN lb ELSE 0
  IN IF n < lo \/ (hasUb /\ n > ub) \/ (hasUb /\ ub < lo) THEN [ok |-> FALSE, bits |-> <<>>, covers |-> 0]
     ELSE IF hasUb /\ ub < K64
          THEN [ok |-> TRUE, bits |-> Constrained(lo, ub, n).bits, covers |-> n]     \* 11.9.4.1 -> 11.5
          ELSE LET g == LenGeneral(n) IN [ok |-> TRUE, bits |-> g.bits, covers |-> g.covers]

(* 14 / 23: index of an enumeration item or choice alternative             *)
Index(nRoot, ext, i) ==
  IF nRoot < 0 \/ i < 0 THEN Err
  ELSE IF i < nRoot THEN Cat(Ok(IF ext THEN <<0>> ELSE <<>>), Constrained(0, nRoot - 1, i))
  ELSE IF ext THEN Cat(Ok(<<1>>), NormallySmall(i - nRoot))
  ELSE Err

(***************************************************************************)
(* Sized collections (clauses 16, 17, 20, 30): the plan of an encoding of  *)
(* n items is a prefix (extension bit) and a sequence of segments          *)
(* [hdr, from, to]: header bits followed by the items from+1 .. to.        *)
(***************************************************************************)
RECURSIVE FragPlanR(_, _)
FragPlanR(n, done) ==
  LET r == n - done
  IN IF r < K16 THEN << [hdr |-> LenSmall(r), from |-> done, to |-> n] >>      \* always ends with a part < 16K, maybe empty
     ELSE LET m == Min(r \div K16, 4)
          IN << [hdr |-> FragHdr(m), from |-> done, to |-> done + m * K16] >> \o FragPlanR(n, done + m * K16)
FragPlan(n) == FragPlanR(n, 0)

SizedPlan(hasLb, lb, hasUb, ub, ext, n) ==
  LET lo == IF hasLb THEN lb ELSE 0
      inRoot == n >= lo /\ (~hasUb \/ n <= ub)
      root == IF hasUb /\ ub < K64
              THEN << [hdr |-> (IF lo = ub THEN <<>> ELSE Constrained(lo, ub, n).bits), from |-> 0, to |-> n] >>
              ELSE FragPlan(n)                                                  \* 11.9.4.2: ub >= 64K or unbounded
  IN IF hasUb /\ ub < lo THEN [ok |-> FALSE, pre |-> <<>>, segs |-> <<>>]
     ELSE IF ext THEN IF inRoot THEN [ok |-> TRUE, pre |-> <<0>>, segs |-> root]
                      ELSE [ok |-> TRUE, pre |-> <<1>>, segs |-> FragPlan(n)]
     ELSE IF inRoot THEN [ok |-> TRUE, pre |-> <<>>, segs |-> root]
     ELSE [ok |-> FALSE, pre |-> <<>>, segs |-> <<>>]

(* Decoding an unconstrained length determinant at bit position p of b:    *)
(* [ok, n, pos, frag]; frag = TRUE means "n items follow, then another      *)
(* length determinant" (11.9.3.8)                                          *)
DecFail == [ok |-> FALSE, n |-> 0, pos |-> 0, frag |-> FALSE]
DecLenGeneral(b, p) ==
  IF p + 1 > Len(b) THEN DecFail
  ELSE IF b[p + 1] = 0
       THEN IF p + 1 + W7 > Len(b) THEN DecFail
            ELSE [ok |-> TRUE, n |-> BitsNat(SubSeq(b, p + 2, p + 1 + W7)), pos |-> p + 1 + W7, frag |-> FALSE]
  ELSE IF p + 2 > Len(b) THEN DecFail
  ELSE IF b[p + 2] = 0
       THEN IF p + 2 + W14 > Len(b) THEN DecFail
            ELSE [ok |-> TRUE, n |-> BitsNat(SubSeq(b, p + 3, p + 2 + W14)), pos |-> p + 2 + W14, frag |-> FALSE]
  ELSE IF p + 8 > Len(b) THEN DecFail
  ELSE LET m == BitsNat(SubSeq(b, p + 3, p + 8))
       IN IF m < 1 \/ m > 4 THEN DecFail
          ELSE [ok |-> TRUE, n |-> m * K16, pos |-> p + 8, frag |-> TRUE]

\* the bits of a plan applied to concrete items (each item a bit sequence)
PlanBits(p, items) ==
  p.pre \o Concat([j \in 1..Len(p.segs) |->
                     p.segs[j].hdr \o Concat(SubSeq(items, p.segs[j].from + 1, p.segs[j].to))])
=============================================================================
