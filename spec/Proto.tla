--------------------------------- MODULE Proto ---------------------------------
(***************************************************************************)
(* C17 / C18.  The proto3 wire format, written from the protobuf encoding  *)
(* specification, and the mapping of ASN.1 types to protobuf schemas.      *)
(*                                                                         *)
(* Wire level: a message is a sequence of fields, each a key (varint of    *)
(* field number * 8 + wire type) followed by a varint (type 0), 8 octets   *)
(* (type 1), a length-delimited payload (type 2) or 4 octets (type 5).     *)
(* Schema level: a schema is a sequence of field declarations              *)
(*   [num, label: "one" | "rep", kind, sub]                                *)
(* kind in uint32 uint64 sint32 sint64 bool enum string bytes msg; sub is  *)
(* the schema of a nested message (<<>> otherwise).  A decoded message is  *)
(* the sequence, per declared field, of the occurrences found (numbers as  *)
(* Big, strings / bytes as octet sequences, messages recursively).         *)
(* proto3 default equivalence: a singular scalar that does not occur is    *)
(* its default value (0, false, empty).                                    *)
(***************************************************************************)
EXTENDS Bits, Big

\* ---- wire level ----------------------------------------------------------
\* varint at position p (0-based offset) of octets b: [ok, v (Big, low 64 bits), pos]
RECURSIVE VarintR(_, _, _, _)
VarintR(b, p, shift, acc) ==
  IF p + 1 > Len(b) \/ shift >= 70 THEN [ok |-> FALSE, v |-> BZero, pos |-> p]
  ELSE LET o == b[p + 1]
           low == o % 128
           \* low * 2^shift, only bits below 64 are kept (shift is a multiple of 7)
           term == IF shift >= 64 THEN BZero
                   ELSE LET raw == Mk(FALSE, [i \in 1..NL |->
                                       LET limb == (shift \div 16) + 1  sh == shift % 16
                                       IN IF i = limb THEN (low * P2s(sh)) % B
                                          ELSE IF i = limb + 1 THEN (low * P2s(sh)) \div B ELSE 0])
                        IN raw
           acc2 == BAdd(acc, term)
       IN IF o < 128 THEN [ok |-> TRUE, v |-> acc2, pos |-> p + 1] ELSE VarintR(b, p + 1, shift + 7, acc2)
Varint(b, p) == VarintR(b, p, 0, BZero)

Low64(x) == Mk(FALSE, [i \in 1..NL |-> IF i <= 4 THEN x.m[i] ELSE 0])
Low32(x) == Mk(FALSE, [i \in 1..NL |-> IF i <= 2 THEN x.m[i] ELSE 0])

\* all fields of a message: sequence of [num, wt, v, payload], or <<[num |-> 0 - 1, ..]>> on malformed input
Bad == <<[num |-> 0 - 1, wt |-> 0, v |-> BZero, payload |-> <<>>]>>
RECURSIVE ParseR(_, _, _)
ParseR(b, p, acc) ==
  IF p >= Len(b) THEN acc
  ELSE LET k == Varint(b, p)
       IN IF ~k.ok \/ ~BIsSmall(k.v) THEN Bad
          ELSE LET key == BToInt(k.v)  num == key \div 8  wt == key % 8
               IN IF num = 0 THEN Bad
                  ELSE IF wt = 0 THEN LET x == Varint(b, k.pos)
                                      IN IF ~x.ok THEN Bad
                                         ELSE ParseR(b, x.pos, Append(acc, [num |-> num, wt |-> 0, v |-> Low64(x.v), payload |-> <<>>]))
                  ELSE IF wt = 2 THEN LET n == Varint(b, k.pos)
                                      IN IF ~n.ok \/ ~BIsSmall(n.v) \/ n.pos + BToInt(n.v) > Len(b) THEN Bad
                                         ELSE ParseR(b, n.pos + BToInt(n.v),
                                                     Append(acc, [num |-> num, wt |-> 2, v |-> BZero, payload |-> SubSeq(b, n.pos + 1, n.pos + BToInt(n.v))]))
                  ELSE IF wt = 1 /\ k.pos + 8 <= Len(b) THEN ParseR(b, k.pos + 8, Append(acc, [num |-> num, wt |-> 1, v |-> BZero, payload |-> SubSeq(b, k.pos + 1, k.pos + 8)]))
                  ELSE IF wt = 5 /\ k.pos + 4 <= Len(b) THEN ParseR(b, k.pos + 4, Append(acc, [num |-> num, wt |-> 5, v |-> BZero, payload |-> SubSeq(b, k.pos + 1, k.pos + 4)]))
                  ELSE Bad
Parse(b) == ParseR(b, 0, <<>>)
WellFormed(fs) == \A i \in 1..Len(fs) : fs[i].num > 0

\* ---- schema level --------------------------------------------------------
WireTypeOf(kind) == IF kind \in {"string", "bytes", "msg"} THEN 2 ELSE 0

\* zig-zag decoding (sint32: of the low 32 bits, sint64: of the low 64 bits)
UnZig(u) == LET half == Mk(FALSE, [i \in 1..NL |-> (u.m[i] \div 2) + (IF i < NL THEN (u.m[i + 1] % 2) * 32768 ELSE 0)])
            IN IF u.m[1] % 2 = 0 THEN half ELSE BNeg(BAdd(half, BOfInt(1)))

Scalar(kind, f) ==
  CASE kind = "uint32" -> Low32(f.v)
    [] kind = "uint64" -> f.v
    [] kind = "sint32" -> UnZig(Low32(f.v))
    [] kind = "sint64" -> UnZig(f.v)
    [] kind = "bool"   -> IF f.v = BZero THEN BZero ELSE BOfInt(1)
    [] kind = "enum"   -> Low32(f.v)
    [] OTHER -> f.payload                                   \* string, bytes: the octets

RECURSIVE DecMsg(_, _)
\* [ok, v]: v = per declared field the sequence of decoded occurrences
DecMsg(schema, b) ==
  LET fs == Parse(b)
  IN IF ~WellFormed(fs) THEN [ok |-> FALSE, v |-> <<>>]
     \* every field on the wire must be declared, with the declared wire type (a packed repeated scalar is not produced by the writer)
     ELSE IF \E i \in 1..Len(fs) : ~\E j \in 1..Len(schema) : schema[j].num = fs[i].num /\ WireTypeOf(schema[j].kind) = fs[i].wt
          THEN [ok |-> FALSE, v |-> <<>>]
     ELSE LET occ(j) == SelectSeq(fs, LAMBDA f : f.num = schema[j].num)
              dec(j) == [i \in 1..Len(occ(j)) |->
                           IF schema[j].kind = "msg" THEN DecMsg(schema[j].sub, occ(j)[i].payload)
                           ELSE [ok |-> TRUE, v |-> Scalar(schema[j].kind, occ(j)[i])]]
          IN IF \E j \in 1..Len(schema) : \E i \in 1..Len(dec(j)) : ~dec(j)[i].ok THEN [ok |-> FALSE, v |-> <<>>]
             \* a singular field occurs at most once in what the writer produces
             ELSE IF \E j \in 1..Len(schema) : schema[j].label = "one" /\ Len(dec(j)) > 1 THEN [ok |-> FALSE, v |-> <<>>]
             ELSE [ok |-> TRUE, v |-> [j \in 1..Len(schema) |-> [i \in 1..Len(dec(j)) |-> dec(j)[i].v]]]

\* proto3 default equivalence on a decoded / expected message
DefaultOf(kind) == IF kind \in {"string", "bytes"} THEN <<>> ELSE BZero
RECURSIVE Norm(_, _)
Norm(schema, m) ==
  [j \in 1..Len(schema) |->
     IF schema[j].kind = "msg" THEN [i \in 1..Len(m[j]) |-> Norm(schema[j].sub, m[j][i])]
     ELSE IF schema[j].label = "one" /\ ~schema[j].oneof /\ m[j] = <<>> THEN <<DefaultOf(schema[j].kind)>>
     ELSE m[j]]
=============================================================================
