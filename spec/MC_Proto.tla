--------------------------------- MODULE MC_Proto ---------------------------------
(***************************************************************************)
(* R for C17 / C18: every message type of the protobuf zoo x its value     *)
(* family (all presence patterns, representative and zero-ish values).     *)
(***************************************************************************)
EXTENDS ProtoZoo, TLC, Json

CONSTANT Dev
VARIABLES st, c
PVals(i) == LET t == PZoo[i] IN Values(t) \o <<ZeroOf(t)>> \o Sweep(t, Values(t)[1]) \o PExtra(i)
Init == st = "type" /\ c \in {[ti |-> i] : i \in 1..Len(PZoo)}
Next == st = "type" /\ st' = "case" /\ LET vs == PVals(c.ti) IN \E j \in 1..Len(vs) :
           c' = [ti |-> c.ti, v |-> vs[j], dev |-> PDevOf(c.ti, Dev)]
Spec == Init /\ [][Next]_<<st, c>>

\* M: the expected decoded form is consistent with the schema (one occurrence list per declared field;
\* singular fields occur at most once; only the chosen alternative of a oneof occurs)
RECURSIVE Consistent(_, _)
Consistent(schema, m) ==
  /\ Len(m) = Len(schema)
  /\ \A j \in 1..Len(schema) :
       /\ (schema[j].label = "one" => Len(m[j]) <= 1)
       /\ (schema[j].kind = "msg" => \A i \in 1..Len(m[j]) : Consistent(schema[j].sub, m[j][i]))
  /\ ((\E j \in 1..Len(schema) : schema[j].oneof) => Cardinality({j \in 1..Len(schema) : m[j] # <<>>}) <= 1)
RefOk == st = "case" /\ c.dev = "" => Consistent(SchemaOf(PZoo[c.ti]), ToProto(PZoo[c.ti], c.v))

Emit ==
  /\ (st = "type" => PrintT(<<"ZOO", ToJson([ti |-> c.ti, t |-> PZoo[c.ti]])>>))
  /\ (st = "case" => PrintT(<<"REPLAY", ToJson(c)>>))
=============================================================================
