---------------------------- MODULE MC_BitBuffer ----------------------------
(***************************************************************************)
(* M: exhaustive exploration of operation sequences on a small growable    *)
(* BitBuffer.  `hist` is the naive history oracle: the sequence of bits    *)
(* appended so far (with patches applied); the buffer must always show     *)
(* exactly that, be exactly ceil(bit_len/8) bytes long, and padded with 0. *)
(***************************************************************************)
EXTENDS BitBuffer, TLC

CONSTANTS MaxBits,      \* bound on the write cursor
          SrcSet        \* set of source bit strings offered to writes

VARIABLES hist, last    \* appended bits; outcome of the last operation

MCSrcSet == {Ones(12), <<0,1,0,0,1,1,0,1,0,0,0,1>>}

vars == <<mem, wpos, rpos, hist, last>>

Init == BBInit /\ hist = <<>> /\ last = "init"

DoWrite ==
  \E src \in SrcSet, so \in 0..4, n \in 0..9, r \in {"ok", "err"} :
     /\ wpos + n <= MaxBits
     /\ so <= Len(src)
     /\ BBWrite(src, so, n, r)
     /\ last' = r
     /\ hist' = IF r = "ok" THEN hist \o SubSeq(src, so + 1, so + n) ELSE hist

DoPatch ==
  \E p \in 0..MaxBits, b \in Bit :
     /\ BBPatch(p, b) /\ last' = "ok" /\ hist' = Overlay(hist, p, <<b>>)

DoReadBit ==
  \E r \in {"ok", "err"}, b \in Bit :
     /\ BBReadBit(r, b) /\ last' = r /\ UNCHANGED hist
     /\ (r = "ok" => b = hist[rpos + 1])          \* FIFO: what was appended is what is read

DoRead ==
  \E n \in 0..9, dp \in 0..2, r \in {"ok", "err"} :
     LET dst == Ones(10) IN
     \E out \in {ReadOutcome(mem, wpos, rpos, dst, dp, n).mem} :
       /\ BBRead(dst, dp, n, r, out) /\ last' = r /\ UNCHANGED hist
       /\ (r = "ok" => SubSeq(out, dp + 1, dp + n) = SubSeq(hist, rpos + 1, rpos + n))
       /\ (r = "ok" => \A i \in 1..10 : (i <= dp \/ i > dp + n) => out[i] = 1)   \* frame

DoReset == BBResetRead /\ last' = "ok" /\ UNCHANGED hist
DoClear == BBClear /\ last' = "ok" /\ hist' = <<>>

Next == DoWrite \/ DoPatch \/ DoReadBit \/ DoRead \/ DoReset \/ DoClear

Spec == Init /\ [][Next]_vars

\* ---- properties -------------------------------------------------------
Content       == Take(mem, wpos) = hist
CursorSane    == rpos <= wpos \/ "ReadsIgnoreVisibleLength" \in Dev
ErrFrame      == [][last' = "err" => UNCHANGED <<mem, wpos, rpos>>]_vars
\* an operation that moves the write cursor forward (append) never touches an already written bit
WriteFrame    == [][wpos' > wpos => \A i \in 1..wpos : mem'[i] = mem[i]]_vars
Inv == GrowableExact /\ PaddingZero /\ Content /\ CursorSane
=============================================================================
