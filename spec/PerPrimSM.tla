------------------------------ MODULE PerPrimSM ------------------------------
(***************************************************************************)
(* C10 (M).  The fragmentation loops of write_octetstring and              *)
(* read_octetstring (per/unaligned/mod.rs) as state machines, one action   *)
(* per loop iteration.  With the thresholds shrunk (W14 = 3, i.e. "16K" = 8*)
(* items) TLC exhausts every fragment-count class and checks that          *)
(*   - the writer loop produces exactly X691Prim!FragPlan(n),              *)
(*   - the reader loop, fed the writer's bits, returns the n items and     *)
(*     stops exactly at the end,                                           *)
(*   - both loops terminate (no state constraint).                         *)
(***************************************************************************)
EXTENDS X691Prim, TLC

CONSTANT NMax

VARIABLES n,        \* number of items to transfer
          wphase,   \* "start" | "loop" | "done"
          written,  \* items handed to the stream so far
          segs,     \* the plan the writer loop has produced
          rphase,   \* "wait" | "hdr" | "done" | "fail"
          rpos,     \* reader cursor in the bit stream
          got       \* items the reader has collected

vars == <<n, wphase, written, segs, rphase, rpos, got>>

Item(i) == <<i % 2>>                       \* one bit per item is enough to see order and count
Items == [i \in 1..n |-> Item(i)]
Stream == PlanBits([pre |-> <<>>, segs |-> segs], Items)

Init == /\ n \in 0..NMax /\ wphase = "start" /\ written = 0 /\ segs = <<>>
        /\ rphase = "wait" /\ rpos = 0 /\ got = <<>>

\* first length determinant + first part (write_length_determinant returns the fragment size)
WStart ==
  /\ wphase = "start"
  /\ LET g == LenGeneral(n)
     IN /\ segs' = <<[hdr |-> g.bits, from |-> 0, to |-> g.covers]>>
        /\ written' = g.covers
        /\ wphase' = IF n < K16 THEN "done" ELSE "loop"      \* fragment_size = None: no loop
  /\ UNCHANGED <<n, rphase, rpos, got>>

\* one iteration of `loop { .. }`
WLoop ==
  /\ wphase = "loop"
  /\ LET g == LenGeneral(n - written)
     IN /\ segs' = Append(segs, [hdr |-> g.bits, from |-> written, to |-> written + g.covers])
        /\ written' = written + g.covers
        /\ wphase' = IF g.covers < K16 THEN "done" ELSE "loop"
  /\ UNCHANGED <<n, rphase, rpos, got>>

RStart == wphase = "done" /\ rphase = "wait" /\ rphase' = "hdr" /\ UNCHANGED <<n, wphase, written, segs, rpos, got>>

\* read one length determinant and the items it announces
RHdr ==
  /\ rphase = "hdr"
  /\ LET d == DecLenGeneral(Stream, rpos)
     IN IF ~d.ok \/ d.pos + d.n > Len(Stream)
        THEN rphase' = "fail" /\ UNCHANGED <<rpos, got>>
        ELSE /\ got' = got \o [j \in 1..d.n |-> <<Stream[d.pos + j]>>]
             /\ rpos' = d.pos + d.n
             /\ rphase' = IF d.frag THEN "hdr" ELSE "done"
  /\ UNCHANGED <<n, wphase, written, segs>>

Next == WStart \/ WLoop \/ RStart \/ RHdr
Spec == Init /\ [][Next]_vars /\ WF_vars(Next)

WriterRefines == wphase = "done" => segs = FragPlan(n)
ReaderInverse == rphase = "done" => got = Items /\ rpos = Len(Stream)
NeverFails    == rphase # "fail"
Terminates    == <>(rphase = "done")
=============================================================================
