---------------------------- MODULE MC_TokenFaults ----------------------------
(***************************************************************************)
(* R for C14: the input space "every string" of the front end, generated   *)
(* as fault descriptors over the lexical items and characters of seed      *)
(* modules (the harness applies each descriptor to every seed module) and  *)
(* as token soups over the ASN.1 vocabulary:                               *)
(*   del i / swap i / trunc i        token-level deletion, swap, truncation*)
(*   ins i x                         insertion of vocabulary item x after i*)
(*   cdel p / cins p y               character-level deletion / insertion  *)
(*   soup <<x1..xk>>                 every sequence of k <= K vocabulary   *)
(*                                   items                                 *)
(* One state per descriptor.  Multi-fault sequences (1..4 faults) are      *)
(* behaviours of the fault machine drawn by TLC's simulation mode.         *)
(***************************************************************************)
EXTENDS Integers, Sequences, TLC, Json

CONSTANTS MaxTok,   \* largest number of lexical items of a seed module
          MaxChar,  \* largest number of characters of a seed module
          V,        \* size of the vocabulary
          VC,       \* number of characters offered for insertion
          K,        \* soup length
          MaxFaults \* length of simulated fault sequences (0 = exhaustive single faults and soups)

VARIABLES st, c
Single ==
  [op : {"del", "swap", "trunc"}, i : 1..MaxTok, x : {0}]
  \cup [op : {"ins"}, i : 0..MaxTok, x : 1..V]
  \cup [op : {"cdel"}, i : 1..MaxChar, x : {0}]
  \cup [op : {"cins"}, i : 0..MaxChar, x : 1..VC]

RECURSIVE Soups(_)
Soups(k) == IF k = 0 THEN {<<>>} ELSE {Append(s, x) : s \in Soups(k - 1), x \in 1..V}

\* exhaustive mode: seeds by operation so that all workers share the enumeration
Init == IF MaxFaults = 0
        THEN st = "seed" /\ c \in ([op : {"del", "swap", "trunc", "ins", "cdel", "cins"}] \cup [op : {"soup"}, first : 1..V])
        ELSE st = "sim" /\ c = <<>>
Next ==
  \/ /\ st = "seed" /\ st' = "case"
     /\ \/ c.op # "soup" /\ \E f \in {g \in Single : g.op = c.op} : c' = [faults |-> <<f>>, soup |-> <<>>]
        \/ c.op = "soup" /\ \E k \in 0..(K - 1) : \E s \in Soups(k) : c' = [faults |-> <<>>, soup |-> <<c.first>> \o s]
  \/ /\ st = "sim" /\ Len(c) < MaxFaults /\ st' = "sim"
     /\ \E f \in Single : c' = Append(c, f)
Spec == Init /\ [][Next]_<<st, c>>

Emit ==
  /\ (st = "case" => PrintT(<<"REPLAY", ToJson(c)>>))
  /\ (st = "sim" /\ Len(c) >= 1 => PrintT(<<"REPLAY", ToJson([faults |-> c, soup |-> <<>>])>>))
=============================================================================
