----------------------------- MODULE BitOps -------------------------------
(***************************************************************************)
(* C11.  The naive bit-vector model of asn1rs' bit level storage:          *)
(*   BitBuffer (growable, write cursor, read cursor),                      *)
(*   (&mut [u8], &mut usize)  (fixed slice + write cursor),                *)
(*   (&[u8], &mut usize)      (fixed slice + read cursor),                 *)
(*   Bits                     (slice + declared bit length + read cursor). *)
(* A memory is a sequence of bits (8 per byte, MSB first).  Every public   *)
(* write_* / read_* call of the code is one copy operation               *)
(*     src[so+1 .. so+n]  ->  dst[dp+1 .. dp+n]                            *)
(* with exactly two outcomes: "ok" (exactly those n destination bits take  *)
(* the source bits, cursor += n) or "err" (nothing changes).               *)
(*                                                                         *)
(* Dev is the set of named deviations of the *implementation as it is*     *)
(* from this ideal (open known findings); Dev = {} is the property.        *)
(***************************************************************************)
EXTENDS Bits

CONSTANT Dev

\* a growable buffer always occupies whole bytes
GrowTo(mem, nbits) ==
  IF 8 * CeilDiv8(nbits) > Len(mem) THEN mem \o Pad(8 * CeilDiv8(nbits) - Len(mem)) ELSE mem

(* write n bits src[so+1..so+n] at the write cursor wpos of mem           *)
WriteOutcomeD(D, growable, src, so, mem, wpos, n) ==
  LET ok == n >= 0 /\ so + n <= Len(src) /\ (growable \/ wpos + n <= Len(mem))
  IN IF ok
     THEN [res |-> "ok",
           mem |-> Overlay(IF growable THEN GrowTo(mem, wpos + n) ELSE mem, wpos, SubSeq(src, so + 1, so + n)),
           pos |-> wpos + n]
     ELSE [res |-> "err",
           \* BitBuffer::write_* grows the vector before the copy is attempted
           mem |-> IF growable /\ n >= 0 /\ "GrowOnFailedWrite" \in D THEN GrowTo(mem, wpos + n) ELSE mem,
           pos |-> wpos]

(* read n bits from src (all bits of the underlying bytes) at cursor rpos; *)
(* only the first vis bits are declared readable; store at dst[dp+1..]     *)
ReadOutcomeD(D, src, vis, rpos, dst, dp, n) ==
  LET avail == IF "ReadsIgnoreVisibleLength" \in D THEN Len(src) ELSE vis
      ok == n >= 0 /\ rpos + n <= avail /\ dp + n <= Len(dst)
  IN IF ok
     THEN [res |-> "ok", mem |-> Overlay(dst, dp, SubSeq(src, rpos + 1, rpos + n)), pos |-> rpos + n]
     ELSE [res |-> "err", mem |-> dst, pos |-> rpos]

WriteOutcome(growable, src, so, mem, wpos, n) == WriteOutcomeD(Dev, growable, src, so, mem, wpos, n)
ReadOutcome(src, vis, rpos, dst, dp, n) == ReadOutcomeD(Dev, src, vis, rpos, dst, dp, n)

(* read_bit: every back end checks the declared length here               *)
ReadBitOutcome(src, vis, rpos) ==
  IF rpos < vis /\ rpos < Len(src)
  THEN [res |-> "ok", bit |-> src[rpos + 1], pos |-> rpos + 1]
  ELSE [res |-> "err", bit |-> 0, pos |-> rpos]

=============================================================================
