----------------------------- MODULE MC_Versions -----------------------------
(***************************************************************************)
(* R (spec -> impl) for C05: families of schema versions; every ordered    *)
(* pair (writer version, reader version) of a family, every value of the   *)
(* writer version (all presence patterns x addition payload sizes chosen   *)
(* so that the first open-type length octet takes every bit pattern that   *)
(* matters).  Expected: Versions!Conv, then a sentinel INTEGER(0..7) = 5   *)
(* written behind the message in the same stream must be read back, with   *)
(* nothing remaining.                                                      *)
(***************************************************************************)
EXTENDS Versions, Tags, TLC, Json, SequencesExt, Functions

CONSTANTS Dev, AMax, PayloadSizes

VARIABLES st, c
vars == <<st, c>>

I07 == TInt(Rng(0, 7, FALSE))
Oct == TOct(NoSz)

\* the j-th extension addition of the flat families
AddComp(j) == IF j % 3 = 1 THEN Comp(Oct, "man", <<>>)
              ELSE IF j % 3 = 2 THEN Comp(I07, "opt", <<>>)
              ELSE Comp(I07, "def", <<3>>)
Roots(r) == IF r = 1 THEN <<Comp(I07, "man", <<>>)>> ELSE <<Comp(I07, "man", <<>>), Comp(TBool, "opt", <<>>)>>
Flat(r, a) == TSeq(Roots(r) \o [j \in 1..a |-> AddComp(j)], r, TRUE)
ChoiceV(e) == TChoice(<<I07, TBool>> \o [j \in 1..e |-> IF j % 3 = 1 THEN Oct ELSE IF j % 3 = 2 THEN I07 ELSE TNull], 2, TRUE)
EnumV(e) == TEnum(2, e, TRUE)
\* the versioned SEQUENCE inside an open type (extension addition of an outer SEQUENCE), followed by another addition
NestedAdd(a) == TSeq(<<Comp(I07, "man", <<>>), Comp(Flat(1, a), "man", <<>>), Comp(I07, "man", <<>>)>>, 1, TRUE)
\* ... inside a CHOICE extension alternative
NestedAlt(a) == TSeq(<<Comp(TChoice(<<I07, Flat(1, a)>>, 1, TRUE), "man", <<>>), Comp(I07, "man", <<>>)>>, 2, FALSE)
\* ... as a root component followed by another root component
NestedRoot(a) == TSeq(<<Comp(Flat(1, a), "man", <<>>), Comp(I07, "man", <<>>)>>, 2, FALSE)
\* ... as element of a list
ListOf(a) == TSeqOf(Flat(1, a), NoSz)

\* both mechanisms at once: a versioned CHOICE as mandatory root component of a SEQUENCE whose additions grow with it
\* (an extension alternative is read inside the scope of the enclosing extensible SEQUENCE)
Both(a) == TSeq(<<Comp(ChoiceV(a), "man", <<>>), Comp(I07, "man", <<>>)>> \o [j \in 1..a |-> AddComp(j)], 2, TRUE)

\* the versioned SEQUENCE inside a KNOWN extension addition with more data behind it in the same open type field:
\* as elements of a list that is the addition, and as first component of a SEQUENCE that is the addition
NestedAddList(a) == TSeq(<<Comp(I07, "man", <<>>), Comp(TSeqOf(Flat(1, a), NoSz), "man", <<>>)>>, 1, TRUE)
NestedAddSeq(a) == TSeq(<<Comp(I07, "man", <<>>),
                          Comp(TSeq(<<Comp(Flat(1, a), "man", <<>>), Comp(I07, "man", <<>>)>>, 2, FALSE), "man", <<>>)>>, 1, TRUE)

\* a SET (no automatic tagging) whose untagged component is the versioned CHOICE with explicitly tagged alternatives; the
\* appended alternatives carry SMALLER tags than every root alternative and than the other component.  The tag a CHOICE is
\* ordered by is the smallest tag of its ROOT alternatives (X.680 8.6 / Tags!TypeTag): the wire order of the SET is the same
\* in every version
SetChoice(a) ==
  LET ch == TChoiceT(ChoiceV(a).alts, << <<2, 20>>, <<2, 21>> >> \o [j \in 1..a |-> <<2, j>>], 2, TRUE)
  IN TSetT(<<CompT(I07, "man", <<>>, <<2, 10>>), CompT(ch, "man", <<>>, <<>>)>>, 2, FALSE)

\* family f, version a (0..AMax)
\* wide families: version a has WBase + a additions, so that the versions lie on both sides of addition index 64 / of 64
\* additions (the normally small number of 11.6 changes its form there)
WBase == 62
Fams == <<"flat1", "flat2", "choice", "enum", "nadd", "nalt", "nroot", "list", "both", "naddlist", "naddseq",
          "enumwide", "choicewide", "flatwide", "setchoice">>
Ver(f, a) ==
  CASE f = "flat1" -> Flat(1, a) [] f = "flat2" -> Flat(2, a) [] f = "choice" -> ChoiceV(a) [] f = "enum" -> EnumV(a)
    [] f = "nadd" -> NestedAdd(a) [] f = "nalt" -> NestedAlt(a) [] f = "nroot" -> NestedRoot(a) [] f = "list" -> ListOf(a)
    [] f = "both" -> Both(a) [] f = "naddlist" -> NestedAddList(a) [] f = "naddseq" -> NestedAddSeq(a)
    [] f = "setchoice" -> SetChoice(a)
    [] f = "enumwide" -> EnumV(WBase + a) [] f = "choicewide" -> ChoiceV(WBase + a) [] f = "flatwide" -> Flat(1, WBase + a)

\* zoo: index 1 is the sentinel type, then (family, version) in order
NV == AMax + 1
Zoo == <<I07>> \o [q \in 1..(Len(Fams) * NV) |-> Ver(Fams[((q - 1) \div NV) + 1], (q - 1) % NV)]
Ti(fi, a) == 1 + (fi - 1) * NV + a + 1

\* ---- values -------------------------------------------------------------
Payload(n) == [j \in 1..n |-> (41 * j + n) % 256]
\* values of Flat(r, a): all presence patterns of the optional root and the additions; OCTET STRING additions take each payload size
RECURSIVE AddVals(_, _, _)
AddVals(a, j, sizes) ==    \* set of sequences of component values for additions j..a
  IF j > a THEN {<<>>}
  ELSE LET rest == AddVals(a, j + 1, sizes)
           mine == IF j % 3 = 1 THEN {<<>>} \cup {<<Payload(n)>> : n \in sizes}
                   ELSE IF j % 3 = 2 THEN {<<>>, <<6>>}
                   ELSE {<<3>>, <<4>>}
       IN {<<m>> \o r : m \in mine, r \in rest}
FlatValsS(r, a, sizes) ==
  LET roots == IF r = 1 THEN {<< <<1>> >>} ELSE {<< <<1>>, <<>> >>, << <<2>>, <<TRUE>> >>}
  IN {x \o y : x \in roots, y \in AddVals(a, 1, sizes)}
FlatVals(r, a) == FlatValsS(r, a, PayloadSizes)
\* nested families use a reduced inner family (two payload sizes are enough to move the cursor)
InnerVals(a) == FlatValsS(1, a, {1, 130})

ChoiceVals(a) == <<[i |-> 0, v |-> 5], [i |-> 1, v |-> TRUE]>>
                 \o [j \in 1..a |-> [i |-> j + 1, v |-> IF j % 3 = 1 THEN Payload(2) ELSE IF j % 3 = 2 THEN 6 ELSE 0]]
ValSeq(f, a) ==
  CASE f = "flat1" -> SetToSeq(FlatVals(1, a))
    [] f = "both" -> LET ys == SetToSeq(AddVals(a, 1, {1, 130}))
                         cs == ChoiceVals(a)
                     IN [q \in 1..(Len(ys) * Len(cs)) |->
                           << <<cs[((q - 1) % Len(cs)) + 1]>>, <<5>> >> \o ys[((q - 1) \div Len(cs)) + 1]]
    [] f = "flat2" -> SetToSeq(FlatVals(2, a))
    [] f = "choice" -> <<[i |-> 0, v |-> 5], [i |-> 1, v |-> TRUE]>>
                        \o [j \in 1..a |-> [i |-> j + 1, v |-> IF j % 3 = 1 THEN Payload(2) ELSE IF j % 3 = 2 THEN 6 ELSE 0]]
    [] f = "enum" -> [j \in 1..(2 + a) |-> j - 1]
    [] f = "setchoice" -> LET cs == ChoiceVals(a) IN [j \in 1..Len(cs) |-> << <<5>>, <<cs[j]>> >>]
    [] f = "enumwide" -> [j \in 1..(2 + WBase + a) |-> j - 1]
    [] f = "choicewide" -> ChoiceVals(WBase + a)
    \* (2^65 presence patterns are out of reach) everything present; only the first addition; the first and the last one
    [] f = "flatwide" -> LET n == WBase + a
                             one(j) == IF j % 3 = 1 THEN <<Payload(1)>> ELSE IF j % 3 = 2 THEN <<6>> ELSE <<4>>
                             none(j) == IF j % 3 = 0 THEN <<3>> ELSE <<>>
                         IN << << <<1>> >> \o [j \in 1..n |-> one(j)],
                               << <<1>> >> \o [j \in 1..n |-> IF j = 1 THEN one(j) ELSE none(j)],
                               << <<1>> >> \o [j \in 1..n |-> IF j \in {1, n} THEN one(j) ELSE none(j)] >>
    [] f = "nadd" -> LET xs == SetToSeq(InnerVals(a)) IN [j \in 1..Len(xs) |-> << <<2>>, <<xs[j]>>, <<7>> >>]
                     \o << << <<2>>, <<>>, <<7>> >> >>
    [] f = "nalt" -> LET xs == SetToSeq(InnerVals(a)) IN [j \in 1..Len(xs) |-> << <<[i |-> 1, v |-> xs[j]]>>, <<7>> >>]
    [] f = "nroot" -> LET xs == SetToSeq(InnerVals(a)) IN [j \in 1..Len(xs) |-> << <<xs[j]>>, <<7>> >>]
    [] f = "list" -> LET xs == SetToSeq(InnerVals(a)) IN [j \in 1..Len(xs) |-> <<xs[j], xs[((j * 7) % Len(xs)) + 1]>>]
    [] f = "naddlist" -> LET xs == SetToSeq(InnerVals(a))
                         IN [j \in 1..Len(xs) |-> << <<3>>, << <<xs[j], xs[((j * 7) % Len(xs)) + 1], xs[((j * 3) % Len(xs)) + 1]>> >> >>]
    [] f = "naddseq" -> LET xs == SetToSeq(InnerVals(a)) IN [j \in 1..Len(xs) |-> << <<3>>, << << <<xs[j]>>, <<6>> >> >> >>]

Inconsistent(t, v) ==
  /\ t.k = "seq" /\ t.ext /\ Len(t.comps) > t.nroot + 1
  /\ ~Present(t, v, t.nroot + 1)
  /\ \E j \in (t.nroot + 2)..Len(t.comps) : Present(t, v, j)
RECURSIVE AnyInconsistent(_, _)
AnyInconsistent(t, v) ==
  CASE t.k = "seq" -> Inconsistent(t, v) \/ \E i \in 1..Len(t.comps) : v[i] # <<>> /\ AnyInconsistent(t.comps[i].t, v[i][1])
    [] t.k = "choice" -> AnyInconsistent(t.alts[v.i + 1], v.v)
    [] t.k = "seqof" -> \E j \in 1..Len(v) : AnyInconsistent(t.of, v[j])
    [] OTHER -> FALSE

Case(fi, aw, ar, v) ==
  LET tw == Ver(Fams[fi], aw)
      tr == Ver(Fams[fi], ar)
      x == Conv(tw, tr, v)
      dev == IF "NoSkipUnknownAdditions" \in Dev /\ UnknownAdditionOutsideOpenType(tw, tr, v) THEN "NoSkipUnknownAdditions" ELSE ""
      \* What the implementation does today inside the class (Impl(Dev)), exactly, for the flat families: the value is
      \* right, but the open types of the additions the reader does not know stay unread (with no known addition at all
      \* the whole second part - count, bitmap, open types - stays unread).
      flat == Fams[fi] \in {"flat1", "flat2"}
      r == IF Fams[fi] = "flat1" THEN 1 ELSE 2
      part1 == Len(Enc(Flat(r, 0), SubSeq(v, 1, r)).bits)
      unread == IF ~flat \/ dev = "" THEN 0
                ELSE IF ar = 0 THEN Len(Enc(tw, v).bits) - part1
                ELSE LET js == {j \in (r + ar + 1)..Len(tw.comps) : Present(tw, v, j)}
                         lens == [j \in js |-> Len(OpenType(Enc(tw.comps[j].t, v[j][1]).bits))]
                     IN FoldFunctionOnSet(LAMBDA a, b : a + b, 0, lens, js)
  IN [tw |-> Ti(fi, aw), tr |-> Ti(fi, ar), v |-> v, unknown |-> ~x.ok, exp |-> x.v,
      bits |-> Enc(tw, v).bits, dev |-> dev, devexact |-> flat /\ dev # "", unread |-> unread]

Init == st = "type" /\ c \in {[ti |-> i] : i \in 1..Len(Zoo)}
Next ==
  /\ st = "type" /\ st' = "case" /\ c.ti > 1
  /\ LET fi == ((c.ti - 2) \div NV) + 1
         aw == (c.ti - 2) % NV
         vs == ValSeq(Fams[fi], aw)
     IN \E j \in 1..Len(vs), ar \in 0..AMax :
          /\ ~AnyInconsistent(Ver(Fams[fi], aw), vs[j])
          /\ c' = Case(fi, aw, ar, vs[j])
Spec == Init /\ [][Next]_vars

\* model-level meaning of C05 on every case: same version = identity; converting forth and back keeps what both know
RefOk ==
  st = "case" =>
    /\ (c.tw = c.tr => ~c.unknown /\ c.exp = c.v)

Emit ==
  /\ (st = "type" => PrintT(<<"ZOO", ToJson([ti |-> c.ti, t |-> Zoo[c.ti]])>>))
  /\ (st = "case" => PrintT(<<"REPLAY", ToJson(c)>>))
=============================================================================
