--------------------------------- MODULE Zoo ---------------------------------
(***************************************************************************)
(* The type zoo and the bounded value families shared by the codec         *)
(* properties (C01, C02, C03, C05, C06, C16, C04, C19).  Everything is a   *)
(* deterministic sequence so that the index of a type is its identity on   *)
(* the Rust side (type T<i> of the compiled zoo).                          *)
(***************************************************************************)
EXTENDS X691, SequencesExt

CONSTANT N          \* C03: SEQUENCE shapes with at most N components (3 quick, 5 thorough)

I07 == TInt(Rng(0, 7, FALSE))

\* ---- leaves -------------------------------------------------------------
IntCons == <<NoCon, Rng(5, 5, FALSE), Rng(0, 1, FALSE), Rng(0, 7, FALSE), Rng(0, 255, FALSE), Rng(0, 256, FALSE),
             Rng(0 - 1, 1, FALSE), Rng(0 - 128, 127, FALSE), Rng(0, 65535, FALSE), Rng(0, 65536, FALSE),
             Rng(0 - 5, 5, TRUE), Rng(0, 7, TRUE), Rng(10, 10, TRUE), Rng(0 - 1000, 1000, FALSE)>>
Sizes == <<NoSz, Sz(2, 2, FALSE), Sz(0, 3, FALSE), Sz(1, 4, FALSE), Sz(1, 2, TRUE), Sz(2, 2, TRUE), Sz(0, 255, FALSE)>>
Charsets == <<"utf8", "ia5", "vis", "prt", "num">>

ZInts  == [i \in 1..Len(IntCons) |-> TInt(IntCons[i])]
ZEnums == <<TEnum(1, 0, FALSE), TEnum(2, 0, FALSE), TEnum(3, 0, FALSE), TEnum(5, 0, FALSE),
            TEnum(2, 0, TRUE), TEnum(2, 1, TRUE), TEnum(3, 2, TRUE), TEnum(1, 3, TRUE)>>
\* explicit enumeration values: declared ascending (index = position), and declared in another order (14.1: index = rank)
ZEnumNums == <<TEnumN(<<2, 5, 9>>, 3, FALSE), TEnumN(<<5, 2, 9>>, 3, FALSE), TEnumN(<<9, 5, 2, 0>>, 4, FALSE),
               TEnumN(<<1, 0, 3, 7>>, 2, TRUE), TEnumN(<<0, 1, 4, 6>>, 2, TRUE)>>
\* explicitly tagged alternatives: declared in canonical tag order (index = position), and in another order (23.2: index = rank)
ZChoiceTags == <<TChoiceT(<<I07, TBool>>, << <<2, 2>>, <<2, 5>> >>, 2, FALSE), TChoiceT(<<I07, TBool>>, << <<2, 5>>, <<2, 2>> >>, 2, FALSE),
                 TChoiceT(<<I07, TBool, TNull>>, << <<2, 0>>, <<1, 3>>, <<3, 1>> >>, 3, FALSE),
                 TChoiceT(<<I07, TBool, TNull, I07>>, << <<3, 1>>, <<1, 1>>, <<2, 7>>, <<2, 9>> >>, 2, TRUE)>>
\* values of 64 bits: the out-of-root values of an extensible INTEGER with a negative bound (an i64 on the Rust side) and the
\* values of an unconstrained INTEGER (a u64 there) around every octet boundary of the unconstrained form up to the type limits
ZBigInts == <<TIntB(Rng(0 - 10, 10, TRUE)), TIntB(NoCon)>>
BigFam == UNION {{BSub(BPow2(k), BOfInt(1)), BPow2(k), BNeg(BPow2(k)), BSub(BNeg(BPow2(k)), BOfInt(1))} : k \in {7, 15, 23, 31, 39, 47, 55, 62, 63}}
          \cup {BOfInt(i) : i \in {0, 5, 10, 11, 0 - 10, 0 - 11}} \cup {U64Max}
BigVals(con) == IF con.c = "none" THEN {x \in BigFam : InU64(x)} ELSE {x \in BigFam : InI64(x)}
\* BIT STRING with named bits (16.2 / 16.3: trailing 0 bits are not transmitted)
ZNamedBits == <<TBitsN(NoSz), TBitsN(Sz(0, 8, FALSE)), TBitsN(Sz(4, 8, FALSE))>>
\* INTEGER (lb..MAX): semi-constrained whole numbers
ZSemiInts == <<TInt(Semi(5)), TInt(Semi(0)), TInt(Semi(0 - 3))>>
ZOcts  == [i \in 1..Len(Sizes) |-> TOct(Sizes[i])]
ZBits  == [i \in 1..Len(Sizes) |-> TBits(Sizes[i])]
ZStrs  == [i \in 1..(Len(Charsets) * 5) |-> TStr(Charsets[((i - 1) \div 5) + 1], Sizes[((i - 1) % 5) + 1])]

\* ---- lists --------------------------------------------------------------
ListElems == <<I07, TBool, TInt(NoCon), TStr("ia5", NoSz), TOct(Sz(1, 4, FALSE)), TEnum(2, 1, TRUE)>>
ZLists == [i \in 1..(Len(ListElems) * 5) |-> TSeqOf(ListElems[((i - 1) \div 5) + 1], Sizes[((i - 1) % 5) + 1])]
          \o <<TSeqOf(TSeqOf(I07, NoSz), NoSz), TSeqOf(TSeqOf(TBool, Sz(1, 2, TRUE)), Sz(0, 3, FALSE))>>
          \* elements whose encoding is empty: the list is its length determinant and nothing else (also at the very end of a message)
          \o <<TSeqOf(TNull, NoSz), TSeqOf(TInt(Rng(5, 5, FALSE)), NoSz), TSeqOf(TEnum(1, 0, FALSE), Sz(0, 3, FALSE)),
               TSeq(<<Comp(I07, "man", <<>>), Comp(TSeqOf(TNull, NoSz), "man", <<>>)>>, 2, FALSE)>>

\* ---- C03: every SEQUENCE shape with n <= N components --------------------
Modes == <<"man", "opt", "def">>
Pow3(n) == IF n = 0 THEN 1 ELSE IF n = 1 THEN 3 ELSE IF n = 2 THEN 9 ELSE IF n = 3 THEN 27 ELSE IF n = 4 THEN 81 ELSE 243
\* the j-th shape with n components: mode digits of (j-1) base 3, marker position xa in 0..n (0 = none)
ShapeOf(n, j, xa) ==
  LET comps == [p \in 1..n |-> LET m == Modes[(((j - 1) \div Pow3(p - 1)) % 3) + 1]
                               IN Comp(I07, m, IF m = "def" THEN <<p>> ELSE <<>>)]
  IN TSeq(comps, IF xa = 0 THEN n ELSE xa, xa # 0)
ShapesN(n) == [q \in 1..(Pow3(n) * (n + 1)) |-> ShapeOf(n, ((q - 1) \div (n + 1)) + 1, (q - 1) % (n + 1))]
RECURSIVE ShapesUpTo(_)
ShapesUpTo(n) == IF n = 0 THEN <<>> ELSE ShapesUpTo(n - 1) \o ShapesN(n)
ZShapes == ShapesUpTo(N)

\* leaf classes that reach the presence machinery differently (NULL never calls it, a nested
\* extensible SEQUENCE pushes a scope, CHOICE / SEQUENCE OF stash it, INTEGER(5..5) has an empty encoding)
InnerExt == TSeq(<<Comp(I07, "man", <<>>), Comp(TBool, "opt", <<>>), Comp(I07, "opt", <<>>)>>, 1, TRUE)
SmallChoice == TChoice(<<I07, TNull, TBool>>, 2, TRUE)
LeafClasses == <<TNull, InnerExt, SmallChoice, TSeqOf(I07, Sz(0, 3, FALSE)), TInt(Rng(5, 5, FALSE)), TBool>>
\* two components: position p in {1,2} takes the class, its mode in {man,opt}, the other one is OPTIONAL I07, marker 0..2
ClassShape(c, p, m, xa) ==
  LET special == Comp(LeafClasses[c], m, <<>>)
      plain == Comp(I07, "opt", <<>>)
  IN TSeq(IF p = 1 THEN <<special, plain>> ELSE <<plain, special>>, IF xa = 0 THEN 2 ELSE xa, xa # 0)
ZClassShapes ==
  [q \in 1..(Len(LeafClasses) * 12) |->
     ClassShape(((q - 1) \div 12) + 1, (((q - 1) % 12) \div 6) + 1, Modes[((((q - 1) % 6) \div 3)) + 1], (q - 1) % 3)]

\* ---- choices and nesting -------------------------------------------------
PlainSeq == TSeq(<<Comp(I07, "man", <<>>), Comp(TBool, "opt", <<>>)>>, 2, FALSE)
ZChoices == <<TChoice(<<I07>>, 1, FALSE), TChoice(<<I07, TBool>>, 2, FALSE), TChoice(<<I07, TNull, TBool>>, 3, FALSE),
              TChoice(<<I07, TBool>>, 2, TRUE), SmallChoice, TChoice(<<I07, TBool, TNull>>, 1, TRUE),
              TChoice(<<I07, PlainSeq, TNull, InnerExt>>, 2, TRUE),
              TChoice(<<TSeqOf(I07, NoSz), TStr("ia5", NoSz), TOct(NoSz)>>, 2, TRUE)>>
ZNested == <<TSeq(<<Comp(InnerExt, "man", <<>>), Comp(I07, "man", <<>>)>>, 2, FALSE),
             TSeq(<<Comp(I07, "man", <<>>), Comp(InnerExt, "man", <<>>), Comp(InnerExt, "opt", <<>>)>>, 1, TRUE),
             TSeq(<<Comp(TSeqOf(SmallChoice, NoSz), "man", <<>>), Comp(TBool, "man", <<>>)>>, 2, FALSE),
             TSeqOf(InnerExt, Sz(0, 3, FALSE)),
             TSeqOf(SmallChoice, NoSz),
             TSeq(<<Comp(TBool, "man", <<>>), Comp(TStr("utf8", NoSz), "def", <<<<97, 98>>>>), Comp(TEnum(3, 0, FALSE), "def", <<1>>),
                    Comp(TBool, "def", <<TRUE>>)>>, 4, FALSE),
             TSeq(<<Comp(I07, "man", <<>>), Comp(TOct(NoSz), "opt", <<>>), Comp(TStr("ia5", NoSz), "opt", <<>>),
                    Comp(TSeqOf(I07, NoSz), "opt", <<>>)>>, 1, TRUE)>>

\* types that additionally get the large lengths of BigLens (every fragment-count class of 11.9.3.8)
ZBig == <<TOct(NoSz), TStr("utf8", NoSz), TOct(Sz(0, 65535, FALSE)), TOct(Sz(1, 2, TRUE)),
          TSeqOf(TBool, NoSz), TStr("ia5", NoSz), TStr("num", NoSz), TBits(NoSz), TSeqOf(I07, Sz(1, 2, TRUE)),
          TBits(Sz(1, 70000, FALSE))>>   \* an upper bound above 64K: a longer value (fragmented path) must still be refused
BigLens == <<16383, 16384, 16385, 32768, 49153, 65535, 65536, 65537, 81920>>

\* alignment: a BIT STRING / OCTET STRING longer than two octets behind k = 1..7 bits, followed by another component
\* (the bulk copy of more than 16 bits at every bit offset, with every tail length - see ExtraVals)
ZAlign == [q \in 1..14 |->
             LET k == ((q - 1) % 7) + 1
             IN TSeq(<<Comp(TInt(Rng(0, (2 ^ k) - 1, FALSE)), "man", <<>>),
                       Comp(IF q <= 7 THEN TBits(Sz(17, 33, FALSE)) ELSE TOct(Sz(3, 4, FALSE)), "man", <<>>),
                       Comp(TInt(Rng(0, 255, FALSE)), "man", <<>>)>>, 3, FALSE)]

\* open types whose bit-packed content (7 bits per character) sweeps through the 127 / 128 octet boundary of the open type's
\* own length determinant with every amount of padding (see ExtraVals): as extension addition and as extension alternative
ZOpen == <<TSeq(<<Comp(I07, "man", <<>>), Comp(TStr("ia5", NoSz), "opt", <<>>), Comp(I07, "opt", <<>>)>>, 1, TRUE),
           TChoice(<<I07, TStr("ia5", NoSz)>>, 1, TRUE)>>

\* more than 64 presence flags in the preamble, and more than 64 extension additions (their number then takes the
\* ">= 64" form of the normally small number, 11.6.2); values: everything present / absent (Rep) and a few patterns (ExtraVals)
\* semi-constrained sizes, SIZE(n..MAX) with n >= 1: the length determinant is the unconstrained one, the lower bound
\* still decides what is a value (too short must be refused), and with "..." a shorter value takes the extension form
ZSemi == <<TOct(Sz(1, SzMAX, FALSE)), TBits(Sz(2, SzMAX, FALSE)), TStr("ia5", Sz(1, SzMAX, FALSE)), TStr("utf8", Sz(2, SzMAX, FALSE)),
           TSeqOf(TBool, Sz(1, SzMAX, FALSE)), TSeqOf(I07, Sz(2, SzMAX, TRUE)), TOct(Sz(1, SzMAX, TRUE)),
           TSeq(<<Comp(TSeqOf(TBool, Sz(1, SzMAX, FALSE)), "opt", <<>>), Comp(TStr("num", Sz(1, SzMAX, FALSE)), "man", <<>>)>>, 2, FALSE)>>

ZWide == <<TSeq([i \in 1..66 |-> Comp(TBool, "opt", <<>>)], 66, FALSE),
           TSeq(<<Comp(I07, "man", <<>>)>> \o [i \in 1..65 |-> Comp(TBool, "opt", <<>>)], 1, TRUE),
           \* extension values / alternatives on both sides of addition index 64 (the boundary of 11.6.1 / 11.6.2)
           TEnum(2, 66, TRUE),
           TChoice([i \in 1..68 |-> IF i % 2 = 1 THEN I07 ELSE TBool], 2, TRUE)>>

\* mixed types: pseudo-randomly composed trees (depth <= 3) of the constructors - SEQUENCE / SET shapes with OPTIONAL,
\* DEFAULT and extension additions, CHOICE with extension alternatives, lists, and leaves of every class - so that
\* combinations of features meet that the systematic families keep apart.  Deterministic: Pick is a fixed mixing function.
\* (all intermediate values stay below 2^31)
Pick(q, k, n) == LET a == q % 9973 b == (q \div 9973) % 9973 IN ((((a * 7919 + b * 6733 + k * 10477) % 99991) * 21 + (a % 13)) % n) + 1
MixLeaves == <<I07, TBool, TNull, TInt(NoCon), TInt(Rng(0 - 5, 5, TRUE)), TInt(Rng(5, 5, FALSE)), TEnum(2, 1, TRUE), TEnum(3, 0, FALSE),
               TOct(NoSz), TOct(Sz(1, 2, TRUE)), TBits(Sz(3, 3, FALSE)), TBits(NoSz), TStr("utf8", NoSz), TStr("ia5", Sz(1, 4, FALSE)),
               TStr("num", Sz(0, 3, TRUE)), TStr("vis", NoSz), TStr("prt", Sz(2, 2, FALSE)), TInt(Rng(0, 65535, FALSE))>>
RECURSIVE MixType(_, _)
MixType(q, d) ==
  \* 1, 2: SEQUENCE, 3: CHOICE, 5: list, 4, 6: leaf (never a bare leaf at the top)
  LET k0 == Pick(q, 1, 6)
      kind == IF d >= 2 THEN 4 ELSE IF d = 0 /\ k0 \in {4, 6} THEN k0 - 3 ELSE k0
  IN IF kind <= 2
     THEN LET n == Pick(q, 2, 4)
              nroot == Pick(q, 3, n)
              ext == Pick(q, 4, 2) = 1
              comp(i) == LET t == MixType((q * 31 + i) % 1000003, d + 1)
                             m == Pick((q * 31 + i) % 1000003, 5, 3)
                             \* DEFAULT only for INTEGER (0..7) and BOOLEAN leaves
                         IN IF m = 3 /\ t = I07 THEN Comp(t, "def", <<3>>)
                            ELSE IF m = 3 /\ t = TBool THEN Comp(t, "def", <<TRUE>>)
                            ELSE Comp(t, IF m = 1 THEN "man" ELSE "opt", <<>>)
          IN TSeq([i \in 1..n |-> comp(i)], IF ext THEN nroot ELSE n, ext)
     ELSE IF kind = 3
     THEN LET n == Pick(q, 2, 4)
              ext == Pick(q, 4, 2) = 1
          IN TChoice([i \in 1..n |-> MixType((q * 37 + i) % 1000003, d + 1)], IF ext THEN Pick(q, 3, n) ELSE n, ext)
     ELSE IF kind = 5
     THEN TSeqOf(MixType((q * 41 + 1) % 1000003, d + 1), <<NoSz, Sz(0, 3, FALSE), Sz(1, 2, TRUE)>>[Pick(q, 2, 3)])
     ELSE MixLeaves[Pick(q, 6, Len(MixLeaves))]
NMix == IF N <= 3 THEN 60 ELSE 300
ZMix == [q \in 1..NMix |-> MixType(q + 100, 0)]

Zoo == ZInts \o <<TBool, TNull>> \o ZEnums \o ZOcts \o ZBits \o ZStrs \o ZLists \o ZShapes \o ZClassShapes \o ZChoices \o ZNested \o ZAlign \o ZOpen \o ZWide \o ZSemi \o ZEnumNums \o ZChoiceTags \o ZSemiInts \o ZNamedBits \o ZBigInts \o ZMix \o ZBig
IsBig(i) == i > Len(Zoo) - Len(ZBig)

(***************************************************************************)
(* Bounded value families.  Rep(t) is a short sequence of representative   *)
(* values (used for components / elements); Values(t) the set explored at  *)
(* top level.  Each value comes with the expectation whether it is a value *)
(* of the type at all (C06: out-of-range values must be refused).          *)
(***************************************************************************)
SeqToSet(s) == {s[i] : i \in 1..Len(s)}
Dedup(s) == s

IntVals(con) ==
  IF con.c = "none" THEN {0, 1, 127, 128, 255, 256, 32767, 32768, 65535, 65536, 8388607, 8388608, 1073741823}
  ELSE IF con.c = "semi" THEN {con.lb + d : d \in {0 - 1, 0, 1, 127, 128, 255, 256, 65535, 65536, 16777215, 16777216, 1073741000}}
  ELSE LET mid == (con.lb + con.ub) \div 2
       IN {x \in {con.lb, con.lb + 1, mid, con.ub - 1, con.ub} : x >= con.lb /\ x <= con.ub}
          \cup {con.lb - 1, con.ub + 1, con.ub + 300}            \* out of root: extension form, or must be refused
          \* out-of-root values at the octet boundaries of the unconstrained form (13.2.6 -> 11.8)
          \cup (IF con.ext THEN {x \in {127, 128, 0 - 128, 0 - 129, 32767, 32768, 0 - 32768, 0 - 32769, 8388607, 8388608,
                                         0 - 8388608, 0 - 8388609} : x < con.lb \/ x > con.ub}
                ELSE {})

\* a length family for a size constraint (out-of-range lengths included)
\* (SIZE(lb..MAX): the lengths around the lower bound, and two that need two octets of length determinant)
UbOf(sz) == IF sz.ub = SzMAX THEN sz.lb + 2 ELSE sz.ub
LenVals(sz) == IF sz.c = "none" THEN {0, 1, 2, 3, 5}
               ELSE IF sz.ub = SzMAX THEN {x \in {sz.lb - 1, sz.lb, sz.lb + 1, 127, 128, 130} : x >= 0}
               ELSE {x \in {sz.lb - 1, sz.lb, sz.lb + 1, sz.ub - 1, sz.ub, sz.ub + 1} : x >= 0}

CharOf(cs, j) ==
  CASE cs = "num"  -> <<48, 57, 32, 53>>[(j % 4) + 1]
    [] cs = "prt"  -> <<65, 122, 32, 63>>[(j % 4) + 1]
    [] cs = "vis"  -> <<32, 126, 65, 97>>[(j % 4) + 1]
    [] cs = "ia5"  -> <<0, 127, 10, 65>>[(j % 4) + 1]
    [] cs = "utf8" -> <<97, 228, 8364, 122>>[(j % 4) + 1]         \* a, a-umlaut (2 octets), euro sign (3 octets), z
\* one character outside the alphabet of cs (C06)
BadChar(cs) == CASE cs = "num" -> 65 [] cs = "prt" -> 42 [] cs = "vis" -> 127 [] cs = "ia5" -> 128 [] cs = "utf8" -> 0
\* ... the neighbours of the alphabet on both sides, and characters beyond one octet whose LOW octet is a legal character
\* (U+0141 -> 'A', U+0130 -> '0', U+4E2D -> '-'): an implementation that narrows before it checks lets them through
BadChars(cs) ==
  CASE cs = "num" -> <<65, 47, 58, 304, 288>>
    [] cs = "prt" -> <<42, 64, 321, 20013>>
    [] cs = "vis" -> <<127, 31, 128, 321, 20013>>
    [] cs = "ia5" -> <<128, 255, 321, 20013>>
    [] cs = "utf8" -> <<>>

RECURSIVE Rep(_), Values(_)

ElemAt(t, j) == LET r == Rep(t) IN r[(j % Len(r)) + 1]

ListOfLen(t, n) ==
  CASE t.k = "oct"   -> [j \in 1..n |-> (37 * j + 11) % 256]
    [] t.k = "bits"  -> [j \in 1..n |-> IF (j % 3) = 0 THEN 0 ELSE 1]
    [] t.k = "str"   -> [j \in 1..n |-> CharOf(t.cs, j)]
    [] t.k = "seqof" -> [j \in 1..n |-> ElemAt(t.of, j)]

\* the value of a SEQUENCE for a presence pattern: pat[i] in {0 = absent, 1 = present (DEFAULT: non-default value), 2 = DEFAULT value itself}
\* how = 3: present with the OTHER representative value - for structured components only (a CHOICE takes its first and its
\* last alternative, a nested SEQUENCE its full and its minimal pattern, a list its two lengths), so that e.g. an extension
\* alternative of a root CHOICE component meets every presence pattern of the additions around it
Structured(t) == t.k \in {"choice", "seq", "seqof"}
CompVal(c, i, how) ==
  IF how = 0 THEN <<>>
  ELSE IF how = 2 THEN c.dflt
  ELSE LET r == Rep(c.t)
           x == r[((i - 1 + (IF how = 3 THEN 1 ELSE 0)) % Len(r)) + 1]
       IN IF c.mode = "def" /\ <<x>> = c.dflt THEN <<r[(i % Len(r)) + 1]>> ELSE <<x>>
HowSet(t, i) ==
  LET c == t.comps[i]
      alt == IF Structured(c.t) THEN {3} ELSE {}
  IN IF c.mode = "def" THEN {1, 2}      \* the Rust field of a DEFAULT component is not optional: it always has a value
     ELSE IF c.mode = "opt" \/ ~IsRoot(t, i) THEN {0, 1} \cup alt ELSE {1} \cup alt
\* the product of the HowSets, built component by component (not filtered out of all 4^n functions)
RECURSIVE Pats(_, _)
Pats(t, i) == IF i > Len(t.comps) THEN {<<>>} ELSE {<<h>> \o r : h \in HowSet(t, i), r \in Pats(t, i + 1)}
SeqVals(t) ==
  LET n == Len(t.comps)
      ps == SetToSeq(Pats(t, 1))
  \* a sequence, not a set: two values of one CHOICE component are of different kinds, which TLC cannot compare
  IN [j \in 1..Len(ps) |-> [i \in 1..n |-> CompVal(t.comps[i], i, ps[j][i])]]

Rep(t) ==
  CASE t.k = "bool"   -> <<TRUE, FALSE>>
    [] t.k = "null"   -> <<0>>
    [] t.k = "int"    -> IF "big" \in DOMAIN t THEN <<BOfInt(3), BPow2(62)>> ELSE IF t.con.c = "none" THEN <<3, 300>> ELSE IF t.con.c = "semi" THEN <<t.con.lb, t.con.lb + 300>>
                         ELSE IF t.con.lb = t.con.ub THEN <<t.con.lb>> ELSE <<t.con.lb + 1, t.con.ub>>
    [] t.k = "enum"   -> IF t.nroot + t.nadd = 1 THEN <<0>> ELSE <<t.nroot + t.nadd - 1, 0>>
    [] t.k \in {"oct", "bits", "str", "seqof"} ->
         LET n == IF t.sz.c = "none" THEN 2 ELSE t.sz.lb IN <<ListOfLen(t, n), ListOfLen(t, IF t.sz.c = "none" THEN 0 ELSE UbOf(t.sz))>>
    [] t.k = "seq"    -> LET n == Len(t.comps)
                         IN <<[i \in 1..n |-> CompVal(t.comps[i], i, 1)],
                              [i \in 1..n |-> CompVal(t.comps[i], i, IF t.comps[i].mode = "man" /\ IsRoot(t, i) THEN 1
                                                                     ELSE IF t.comps[i].mode = "def" THEN 2 ELSE 0)]>>
    [] t.k = "choice" -> <<[i |-> 0, v |-> Rep(t.alts[1])[1]], [i |-> Len(t.alts) - 1, v |-> Rep(t.alts[Len(t.alts)])[1]]>>

\* hand-picked additional values, by the structure of the type:
\*  - unconstrained strings / lists at the 127 / 128 boundary of the one- / two-octet length determinant,
\*  - UTF8String values in which a two- or three-octet character straddles octet 64 (where diagnostics abbreviate),
\*  - the alignment family: every BIT STRING length 17..33 (all ones) behind k bits
Ascii(n) == [j \in 1..n |-> 97 + (j % 26)]
ExtraVals(t) ==
  CASE t.k = "bits" /\ "named" \in DOMAIN t ->
         << <<1, 0, 1, 0, 0, 0>>, <<0, 0, 0, 0>>, <<1, 0, 0, 0, 0, 0, 0, 0>>, <<1, 1, 1, 1, 1>>, <<0, 0, 0, 0, 0, 1>>, <<1, 0>> >>
    [] t.k \in {"oct", "bits", "seqof", "str"} /\ t.sz.c = "none" ->
         [j \in 1..3 |-> ListOfLen(t, 126 + j)]
         \o (IF t.k = "str" /\ t.cs = "utf8"
             THEN [j \in 1..8 |-> Ascii(58 + j) \o <<228, 97>>] \o [j \in 1..6 |-> Ascii(59 + j) \o <<8364>>]
             ELSE <<>>)
    [] t.k = "seq" /\ Len(t.comps) = 3 /\ t.comps[2].t.k = "bits" /\ t.comps[2].t.sz.c = "sz" /\ t.comps[2].t.sz.ub = 33 ->
         [j \in 1..17 |-> << <<t.comps[1].t.con.ub>>, <<Ones(16 + j)>>, <<255>> >>]
    [] t = ZWide[1] -> <<[i \in 1..66 |-> IF i \in {1, 64, 65, 66} THEN <<TRUE>> ELSE <<>>], [i \in 1..66 |-> IF i = 65 THEN <<FALSE>> ELSE <<>>]>>
    [] t = ZWide[2] -> <<[i \in 1..66 |-> IF i \in {1, 2, 65, 66} THEN <<IF i = 1 THEN 5 ELSE TRUE>> ELSE <<>>],
                         [i \in 1..66 |-> IF i \in {1, 2} THEN <<IF i = 1 THEN 2 ELSE FALSE>> ELSE <<>>]>>
    [] t = ZOpen[1] -> [j \in 1..12 |-> << <<5>>, <<ListOfLen(t.comps[2].t, 136 + j)>>, <<6>> >>]
    [] t = ZOpen[2] -> [j \in 1..12 |-> [i |-> 1, v |-> ListOfLen(t.alts[2], 136 + j)]]
    [] OTHER -> <<>>

\* a sequence, not a set: values of different alternatives are of different kinds and TLC cannot
\* compare them, which building a set would require
Values(t) ==
  CASE t.k = "bool"   -> <<TRUE, FALSE>>
    [] t.k = "null"   -> <<0>>
    [] t.k = "int"    -> IF "big" \in DOMAIN t THEN SetToSeq(BigVals(t.con)) ELSE SetToSeq(IntVals(t.con))
    [] t.k = "enum"   -> [j \in 1..(t.nroot + t.nadd) |-> j - 1]
    [] t.k \in {"oct", "bits", "seqof"} -> LET ls == SetToSeq(LenVals(t.sz)) IN [j \in 1..Len(ls) |-> ListOfLen(t, ls[j])]
    [] t.k = "str"    -> LET ls == SetToSeq(LenVals(t.sz))
                             n == IF t.sz.c = "none" THEN 3 ELSE UbOf(t.sz)
                             good == ListOfLen(t, n)
                             ps == SetToSeq({1, (n + 1) \div 2, n} \cap 1..n)
                         IN [j \in 1..Len(ls) |-> ListOfLen(t, ls[j])]
                            \o (IF t.cs = "utf8" \/ n = 0 THEN <<>>
                                ELSE [j \in 1..Len(ps) |-> [good EXCEPT ![ps[j]] = BadChar(t.cs)]]
                                     \o [j \in 1..Len(BadChars(t.cs)) |-> [good EXCEPT ![ps[(j % Len(ps)) + 1]] = BadChars(t.cs)[j]]])
    [] t.k = "seq"    -> IF Len(t.comps) > 8 THEN Rep(t) ELSE SeqVals(t)       \* (no 2^66 patterns)
    [] t.k = "choice" -> Concat([a \in 1..Len(t.alts) |->
                                   LET r == Rep(t.alts[a]) IN [j \in 1..Len(r) |-> [i |-> a - 1, v |-> r[j]]]])
=============================================================================
