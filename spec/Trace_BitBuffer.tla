--------------------------- MODULE Trace_BitBuffer ---------------------------
(***************************************************************************)
(* T (impl -> spec) for C11: validates histories recorded from the real    *)
(* BitBuffer / slice back ends against the BitOps outcomes.  One line per  *)
(* public call; a "new" event starts a fresh object, so many histories are *)
(* concatenated into one file.  Every event must be explained by the spec  *)
(* with the logged arguments AND the logged result/state, otherwise the    *)
(* trace is rejected at that line.                                         *)
(***************************************************************************)
EXTENDS BitOps, TLC, Json, IOUtils

Rec == ndJsonDeserialize(IOEnv.TRACE)

VARIABLES l,      \* next line of Rec
          be,     \* back end of the current history: "buf" | "mslice" | "rslice" | "bits"
          mem,    \* all bits of the underlying bytes
          wpos,   \* write cursor (buf, mslice)
          rpos,   \* read cursor (buf, rslice, bits)
          vis     \* declared readable length (bits: len; rslice: all; buf: = wpos)

vars == <<l, be, mem, wpos, rpos, vis>>

Init == l = 1 /\ be = "none" /\ mem = <<>> /\ wpos = 0 /\ rpos = 0 /\ vis = 0

Vis(w) == IF be = "buf" THEN w ELSE vis

Step(e) ==
  CASE e.op = "new" ->
         /\ be' = e.be /\ mem' = Bytes2Bits(e.bytes) /\ wpos' = e.wpos /\ rpos' = e.rpos /\ vis' = e.vis
    [] e.op = "w" ->                     \* write_bit / write_bits* (normalised to offset + length)
         LET o == WriteOutcome(be = "buf", Bytes2Bits(e.src), e.so, mem, wpos, e.n)
         IN /\ e.res = o.res
            /\ e.len = o.pos /\ e.bytes = Bits2Bytes(o.mem)       \* observed state after the call
            /\ mem' = o.mem /\ wpos' = o.pos /\ vis' = Vis(o.pos) /\ UNCHANGED <<be, rpos>>
    [] e.op = "p" ->                     \* with_write_position_at(pos, write_bit(bit)), pos < bit_len
         LET m == Overlay(mem, e.pos, <<e.bit>>)
         IN /\ e.pos < wpos /\ e.res = "ok"
            /\ e.len = wpos /\ e.bytes = Bits2Bytes(m)
            /\ mem' = m /\ UNCHANGED <<be, wpos, rpos, vis>>
    [] e.op = "pw" ->                    \* with_write_position_at(pos, write_bits*(..)) inside the written part: pos + n <= bit_len
         LET o == WriteOutcome(TRUE, Bytes2Bits(e.src), e.so, mem, e.pos, e.n)
         IN /\ e.pos + e.n <= wpos /\ e.res = o.res
            /\ e.len = wpos /\ e.bytes = Bits2Bytes(o.mem)       \* exactly these bits are overwritten, the cursor comes back
            /\ mem' = o.mem /\ UNCHANGED <<be, wpos, rpos, vis>>
    [] e.op = "rb" ->                    \* read_bit
         LET o == ReadBitOutcome(mem, Vis(wpos), rpos)
         IN /\ e.res = o.res /\ (o.res = "ok" => e.bit = o.bit)
            /\ rpos' = o.pos /\ UNCHANGED <<be, mem, wpos, vis>>
    [] e.op = "r" ->                     \* read_bits*
         LET D == IF be = "rslice" THEN {} ELSE Dev
             o == ReadOutcomeD(D, mem, Vis(wpos), rpos, Bytes2Bits(e.dst), e.dp, e.n)
         IN /\ e.res = o.res /\ e.out = Bits2Bytes(o.mem)
            /\ rpos' = o.pos /\ UNCHANGED <<be, mem, wpos, vis>>
    [] e.op = "rp" ->                    \* with_read_position_at(pos, read_bits*(..)): reads there, the read cursor comes back
         LET o == ReadOutcomeD(Dev, mem, Vis(wpos), e.pos, Bytes2Bits(e.dst), e.dp, e.n)
         IN /\ e.pos < wpos /\ e.res = o.res /\ e.out = Bits2Bytes(o.mem)
            /\ e.len = wpos
            /\ UNCHANGED <<be, mem, wpos, rpos, vis>>
    [] e.op = "mr" ->                    \* with_max_read(max, read_bits*(..)): only max bits from the read cursor on are visible
         LET o == ReadOutcomeD(Dev, mem, rpos + e.max, rpos, Bytes2Bits(e.dst), e.dp, e.n)
         IN /\ rpos + e.max <= wpos /\ e.res = o.res /\ e.out = Bits2Bytes(o.mem)
            /\ e.len = wpos                                       \* the write position comes back
            /\ rpos' = o.pos /\ UNCHANGED <<be, mem, wpos, vis>>
    [] e.op = "rr" ->                    \* reset_read_position
         /\ rpos' = 0 /\ UNCHANGED <<be, mem, wpos, vis>>
    [] e.op = "clr" ->                   \* clear
         /\ e.len = 0 /\ e.bytes = <<>>
         /\ mem' = <<>> /\ wpos' = 0 /\ rpos' = 0 /\ vis' = 0 /\ UNCHANGED be
    [] e.op = "sp" ->                    \* Bits::set_pos: clamped to the declared length, returns where the cursor is
         LET p == IF e.arg <= vis THEN e.arg ELSE vis
         IN /\ be = "bits" /\ e.ret = p /\ rpos' = p /\ UNCHANGED <<be, mem, wpos, vis>>
    [] e.op = "sl" ->                    \* Bits::set_len: clamped to the octets that are there, returns the declared length
         LET n == IF e.arg <= Len(mem) THEN e.arg ELSE Len(mem)
         IN /\ be = "bits" /\ e.arg >= rpos /\ e.ret = n /\ vis' = n /\ UNCHANGED <<be, mem, wpos, rpos>>
    [] e.op = "obs" ->                   \* Bits::len / remaining
         /\ be = "bits" /\ e.len = vis /\ e.rem = vis - rpos /\ UNCHANGED <<be, mem, wpos, rpos, vis>>
    [] e.op = "pos" ->                   \* observed cursor of a slice / Bits back end
         /\ e.pos = (IF be = "mslice" THEN wpos ELSE rpos) /\ UNCHANGED <<be, mem, wpos, rpos, vis>>

Next == l <= Len(Rec) /\ l' = l + 1 /\ Step(Rec[l])

Spec == Init /\ [][Next]_vars

\* a growable buffer stays exact between calls (the trace spec evaluates this in every state)
Exact == be = "buf" /\ "GrowOnFailedWrite" \notin Dev => Len(mem) = 8 * CeilDiv8(wpos) /\ \A i \in (wpos + 1)..Len(mem) : mem[i] = 0

Accepted ==
  LET d == TLCGet("stats").diameter
  IN IF d - 1 = Len(Rec) THEN TRUE
     ELSE /\ PrintT(<<"REJECTED", d, ToJson(Rec[d])>>)
          /\ FALSE
=============================================================================
