------------------------------ MODULE Trace_Uper ------------------------------
(***************************************************************************)
(* T for the writer machine (C01, C03): the per-call events that the real  *)
(* UperWriter produced while macro-generated code wrote a value (recorded  *)
(* by the hook-free tracing wrapper harness/src/uptrace.rs) must be a      *)
(* behaviour of UperSM: one action per event, built from the same          *)
(* operators (Entry, OpenScope, OpenWrap, SeqPrologue, SeqScope,           *)
(* Exhausted) that MC_Uper!Refines checks against X691!Enc.                *)
(*                                                                         *)
(* State: ws = stack of writers [buf, sc] (the top one is the writer the   *)
(* next trait call runs on; a pushed entry is one of the library's private *)
(* open-type sub-writers), fs = stack of frames of the composite calls in  *)
(* progress, failed = a call has returned an error (from then on only      *)
(* failing exits may follow), want = the outcome the message had.          *)
(* The writer identity is not logged: the stack discipline of the          *)
(* specification decides which writer an event belongs to, and the logged  *)
(* buffer snapshot of every event must equal that writer's buffer.         *)
(***************************************************************************)
EXTENDS UperSM, TLC, Json, IOUtils

Rec == ndJsonDeserialize(IOEnv.TRACE)
VARIABLES l, ws, fs, failed, want
vars == <<l, ws, fs, failed, want>>

E == Rec[l]
Top == ws[Len(ws)]
Wr(b, sc) == [buf |-> b, sc |-> sc]
SetTop(w) == [ws EXCEPT ![Len(ws)] = w]
Frame(k, open, saved) == [k |-> k, open |-> open, saved |-> saved, ended |-> FALSE]
Is(ev, ph) == E.ev = ev /\ E.ph = ph
Snap == E.bits = Top.buf
Fail == failed' = TRUE /\ UNCHANGED <<ws, fs, want>>

\* after the entry: the body of a composite runs on a fresh sub-writer (open type) or in place, on `pro` appended
Begin(r, open, kind, inner, pro) ==
  /\ ws' = IF open THEN Append(SetTop(Wr(r.buf, r.sc)), Wr(pro, inner)) ELSE SetTop(Wr(r.buf \o pro, inner))
  /\ fs' = Append(fs, Frame(kind, open, r.sc))
  /\ UNCHANGED <<failed, want>>

\* the exit of a composite: close the sub-writer (length determinant + padded octets into the outer writer) and give
\* the caller its scope back (scope_pushed / scope_stashed)
Finish(kind) ==
  LET f == fs[Len(fs)]
      closed == IF f.open
                THEN Append(SubSeq(ws, 1, Len(ws) - 2), Wr(ws[Len(ws) - 1].buf \o OpenWrap(Top.buf), f.saved))
                ELSE SetTop(Wr(Top.buf, f.saved))
  IN /\ Len(fs) > 0 /\ f.k = kind /\ E.ok /\ (kind = "seq" => f.ended)
     /\ ws' = closed /\ fs' = SubSeq(fs, 1, Len(fs) - 1)
     /\ E.bits = closed[Len(closed)].buf
     /\ UNCHANGED <<failed, want>>

Reset ==
  /\ Is("reset", "call") \/ Is("summary", "call")
  \* the previous message ended as the real writer said it did, with every composite closed
  /\ l > 1 => (failed = ~want /\ (~failed => Len(ws) = 1 /\ fs = <<>>))
  /\ E.ev = "reset" => E.transparent
  /\ ws' = <<Wr(<<>>, NoScope)>> /\ fs' = <<>> /\ failed' = FALSE
  /\ want' = IF E.ev = "reset" THEN E.ok ELSE TRUE

SeqEnter ==
  /\ Is("seq", "enter") /\ Snap /\ InRange(Top.sc, FALSE)
  /\ LET r == Entry(Top.buf, Top.sc, FALSE, TRUE)
         open == OpenScope(r.sc)
         base == IF open THEN 0 ELSE Len(r.buf)
     IN IF r.ok THEN Begin(r, open, "seq", SeqScope(base, E.ext, E.opt, E.nroot, E.n), SeqPrologue(E.ext, E.opt)) ELSE Fail
\* the closure of write_sequence starts: the prologue is in the buffer of the writer it runs on
Body(ev) == Is(ev, "body") /\ Snap /\ UNCHANGED <<ws, fs, failed, want>>
\* all fields written: the debug assertion of scope_pushed
SeqEnd ==
  /\ Is("seq", "end") /\ E.ok /\ Snap /\ Exhausted(Top.sc) /\ Counted(Top.sc)
  /\ Len(fs) > 0 /\ fs[Len(fs)].k = "seq" /\ ~fs[Len(fs)].ended
  /\ fs' = [fs EXCEPT ![Len(fs)].ended = TRUE] /\ UNCHANGED <<ws, failed, want>>

OptEnter ==
  /\ Is("opt", "enter") /\ Snap /\ InRange(Top.sc, TRUE)
  /\ LET r == Entry(Top.buf, Top.sc, TRUE, E.present)
     IN IF ~r.ok THEN Fail                                     \* ExtensionFieldsInconsistent
        ELSE IF E.present THEN Begin(r, OpenScope(r.sc), "opt", NoScope, <<>>)
        ELSE /\ ws' = SetTop(Wr(r.buf, r.sc)) /\ fs' = Append(fs, Frame("opt", FALSE, r.sc)) /\ UNCHANGED <<failed, want>>

SeqOfEnter ==
  /\ Is("seqof", "enter") /\ Snap /\ E.hassz /\ InRange(Top.sc, FALSE)
  /\ LET r == Entry(Top.buf, Top.sc, FALSE, TRUE)
         hdr == EncSized(E.sz, [j \in 1..E.n |-> <<>>])
     IN IF r.ok /\ hdr.ok THEN Begin(r, FALSE, "seqof", NoScope, hdr.bits) ELSE Fail

ChoiceEnter ==
  /\ Is("choice", "enter") /\ Snap /\ InRange(Top.sc, FALSE)
  /\ LET r == Entry(Top.buf, Top.sc, FALSE, TRUE)
         idx == IF E.idx < E.n THEN Index(E.nroot, E.ext, E.idx) ELSE Err
     IN IF ~r.ok \/ ~idx.ok THEN Fail
        ELSE IF E.idx < E.nroot THEN Begin(r, FALSE, "choice", NoScope, idx.bits)
        ELSE Begin([r EXCEPT !.buf = @ \o idx.bits], TRUE, "choice", NoScope, <<>>)

\* a primitive call: entry, then the X.691 encoding of the value - wrapped when the scope says open type.  Without
\* (t, v) in the event (numbers beyond 2^29) only the frame condition is checked: the old buffer is a prefix
Leaf ==
  /\ Is("leaf", "call") /\ InRange(Top.sc, FALSE)
  /\ LET r == Entry(Top.buf, Top.sc, FALSE, TRUE)
     IN IF E.hastv
        THEN LET e == Enc(E.t, E.v)
                 b == IF E.t.k = "null" THEN r.buf ELSE IF OpenScope(r.sc) THEN r.buf \o OpenWrap(e.bits) ELSE r.buf \o e.bits
             IN /\ E.ok = (r.ok /\ e.ok)
                /\ IF E.ok THEN E.bits = b /\ ws' = SetTop(Wr(b, r.sc)) /\ UNCHANGED <<fs, failed, want>> ELSE Fail
        ELSE IF E.ok /\ r.ok
        THEN /\ Len(E.bits) >= Len(r.buf) /\ SubSeq(E.bits, 1, Len(r.buf)) = r.buf
             /\ ws' = SetTop(Wr(E.bits, r.sc)) /\ UNCHANGED <<fs, failed, want>>
        ELSE ~E.ok /\ Fail

\* after a refusal every end / exit reports the failure and nothing else happens
Unwind == /\ failed /\ E.ph \in {"end", "exit"} /\ ~E.ok /\ UNCHANGED <<ws, fs, failed, want>>

Live ==
  \/ SeqEnter \/ Body("seq") \/ SeqEnd \/ (Is("seq", "exit") /\ Finish("seq"))
  \/ OptEnter \/ Body("value") \/ (Is("opt", "exit") /\ Finish("opt"))
  \/ SeqOfEnter \/ (Is("seqof", "exit") /\ Finish("seqof"))
  \/ ChoiceEnter \/ Body("choice") \/ (Is("choice", "exit") /\ Finish("choice"))
  \/ Leaf

Init == l = 1 /\ ws = <<Wr(<<>>, NoScope)>> /\ fs = <<>> /\ failed = FALSE /\ want = TRUE
Next == l <= Len(Rec) /\ l' = l + 1 /\ (Reset \/ (~failed /\ Live) \/ Unwind)
Spec == Init /\ [][Next]_vars

Accepted ==
  LET d == TLCGet("stats").diameter
  IN IF d - 1 = Len(Rec) THEN TRUE ELSE PrintT(<<"REJECTED", d, ToJson(Rec[d])>>) /\ FALSE
=============================================================================
