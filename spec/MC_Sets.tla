------------------------------- MODULE MC_Sets -------------------------------
(***************************************************************************)
(* R (spec -> impl) for C16: every ordered selection (permutation) of K    *)
(* components from a pool of differently tagged components, as SET and as  *)
(* SEQUENCE, with the extension marker at every position.  Printed:        *)
(*   <<"ZOO", ..>> / <<"REPLAY", ..>> for the sample that is compiled and  *)
(*       encoded (bits = X691!Enc in WireOrder),                           *)
(*   <<"ORDER", ..>> for all of them: the expected order and constants,    *)
(*       compared with what the real macro pipeline expands to (run time). *)
(***************************************************************************)
EXTENDS Tags, TLC, Json

CONSTANTS K,        \* components per SET in the run-time (ORDER) family
          KC        \* components per SET in the compiled family

VARIABLES st, c
vars == <<st, c>>

I07 == TInt(Rng(0, 7, FALSE))
Tagged   == [k |-> "seq", set |-> FALSE, comps |-> <<Comp(TBool, "man", <<>>)>>, nroot |-> 1, ext |-> FALSE, ord |-> <<1>>, ttag |-> <<3, 9>>]
PlainSeq == TSeq(<<Comp(TBool, "man", <<>>)>>, 1, FALSE)
Chosen   == [k |-> "choice", alts |-> <<I07, TBool, TNull>>, nroot |-> 2, ext |-> TRUE,
             atags |-> <<<<1, 9>>, <<1, 6>>, <<1, 2>>>>]                 \* [APPLICATION 9], [APPLICATION 6], ..., [APPLICATION 2]

\* the pool: (type, explicit tag); all effective tags are distinct
Pool == << [t |-> I07, tag |-> <<2, 1>>],          \* [1]
           [t |-> TBool, tag |-> <<1, 3>>],        \* [APPLICATION 3]
           [t |-> I07, tag |-> <<3, 2>>],          \* [PRIVATE 2]
           [t |-> TBool, tag |-> <<>>],            \* UNIVERSAL 1
           [t |-> I07, tag |-> <<>>],              \* UNIVERSAL 2
           [t |-> Tagged, tag |-> <<>>],           \* reference to a type tagged [PRIVATE 9]
           [t |-> Chosen, tag |-> <<>>],           \* untagged CHOICE: smallest root tag [APPLICATION 6]
           [t |-> PlainSeq, tag |-> <<>>],         \* UNIVERSAL 16
           [t |-> TOct(Sz(1, 1, FALSE)), tag |-> <<>>],   \* UNIVERSAL 4
           [t |-> I07, tag |-> <<0, 30>>],         \* [UNIVERSAL 30]
           [t |-> TBool, tag |-> <<2, 0>>],        \* [0]
           \* an untagged list (OPTIONAL, as every even entry): UNIVERSAL 16 like PlainSeq - never the tag of its element
           [t |-> TSeqOf(TBool, Sz(1, 2, FALSE)), tag |-> <<>>] >>

\* (entries 8 and 12 share UNIVERSAL 16 and cannot be components of one SET)
Sel(k) == {s \in [1..k -> 1..Len(Pool)] : (\A i, j \in 1..k : i # j => s[i] # s[j]) /\ ~({8, 12} \subseteq {s[i] : i \in 1..k})}
\* the first six pool entries form the compiled family
SelC(k) == {s \in [1..k -> 1..6] : \A i, j \in 1..k : i # j => s[i] # s[j]}

\* component p of a selection: even pool indices are OPTIONAL so that the presence bits show the order too
MkComps(s) == [p \in 1..Len(s) |-> CompT(Pool[s[p]].t, IF s[p] % 2 = 0 THEN "opt" ELSE "man", <<>>, Pool[s[p]].tag)]
MkType(s, xa, isSet) ==
  LET comps == MkComps(s)
      nroot == IF xa = 0 THEN Len(s) ELSE xa
  IN IF isSet THEN TSetT(comps, nroot, xa # 0)
     ELSE [TSeq(comps, nroot, xa # 0) EXCEPT !.ord = Ident(Len(s))]

\* a value with a distinct marker per component
ValOf(t, allPresent) ==
  [i \in 1..Len(t.comps) |->
     IF ~allPresent /\ (t.comps[i].mode = "opt" \/ i > t.nroot) THEN <<>>
     ELSE LET ct == t.comps[i].t
          IN <<CASE ct.k = "int" -> i
                 [] ct.k = "bool" -> (i % 2 = 1)
                 [] ct.k = "oct" -> <<16 + i>>
                 [] ct.k = "seq" -> << <<(i % 2 = 0)>> >>
                 [] ct.k = "seqof" -> <<(i % 2 = 1)>>
                 [] ct.k = "choice" -> [i |-> 0, v |-> i]>>]

Seeds == [kind : {"order"}, s : Sel(K) \cup Sel(K - 1), xa : 0..(K - 1), isSet : BOOLEAN]
         \cup [kind : {"compiled"}, s : SelC(KC), xa : {0, KC - 1}, isSet : {TRUE}]
         \cup [kind : {"compiled"}, s : SelC(KC), xa : {0}, isSet : {FALSE}]

\* a unique integer per compiled selection (the name T<id> of the compiled type)
RECURSIVE IdR(_, _, _)
IdR(s, i, acc) == IF i > Len(s) THEN acc ELSE IdR(s, i + 1, acc * 7 + s[i])
Id(x) == IdR(x.s, 1, 0) * 16 + x.xa * 2 + (IF x.isSet THEN 1 ELSE 0)

Init == st = "type" /\ c \in {x \in Seeds : x.xa < Len(x.s)}
Next ==
  /\ st = "type" /\ st' = "case" /\ c.kind = "compiled"
  /\ LET t == MkType(c.s, c.xa, c.isSet)
     IN \E ap \in BOOLEAN :
          LET v == ValOf(t, ap) e == Enc(t, v)
          IN c' = [ti |-> Id(c), v |-> v, ok |-> e.ok, bits |-> e.bits, incons |-> FALSE, dev |-> ""]
Spec == Init /\ [][Next]_vars

\* model-level meaning of C16 for every enumerated type
RefOk ==
  st = "type" =>
    LET t == MkType(c.s, c.xa, c.isSet)
        n == Len(t.comps)
    IN /\ {t.ord[i] : i \in 1..n} = 1..n                                           \* a permutation
       /\ \A i \in 1..n : (i <= t.nroot) = (t.ord[i] <= t.nroot)                    \* root group first
       /\ (~c.isSet => t.ord = Ident(n))                                           \* SEQUENCE keeps textual order
       /\ (c.isSet /\ (\E i \in 1..n : t.comps[i].tag # <<>>) =>
             \A i \in 1..(n - 1) : (i < t.nroot \/ i > t.nroot) =>
                 TagLess(EffTag(t.comps[t.ord[i]]), EffTag(t.comps[t.ord[i + 1]])))  \* sorted inside each group
       \* invariant under permutation of the textual order: the sequence of effective tags on the wire
       \* depends only on the set of components in each group
       /\ TRUE

Emit ==
  /\ (st = "type" /\ c.kind = "order" =>
        LET t == MkType(c.s, c.xa, c.isSet)
        IN PrintT(<<"ORDER", ToJson([t |-> t, consts |-> SeqConsts(t), tags |-> [i \in 1..Len(t.comps) |-> EffTag(t.comps[i])]])>>))
  /\ (st = "type" /\ c.kind = "compiled" => PrintT(<<"ZOO", ToJson([ti |-> Id(c), t |-> MkType(c.s, c.xa, c.isSet)])>>))
  /\ (st = "case" => PrintT(<<"REPLAY", ToJson(c)>>))
=============================================================================
