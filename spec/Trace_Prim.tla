------------------------------ MODULE Trace_Prim ------------------------------
(***************************************************************************)
(* T (impl -> spec) for C10: histories of PER primitive calls on one       *)
(* BitBuffer.  Write events carry the bits the call appended; read events  *)
(* carry the value returned and the number of bits consumed.  The spec     *)
(* keeps the stream and the read cursor: every write must append exactly   *)
(* X691Prim's bits (or nothing, with an error, for inadmissible            *)
(* arguments); every read must return a value whose X.691 encoding is      *)
(* exactly the bits it consumed, starting where the previous read stopped. *)
(***************************************************************************)
EXTENDS X691Prim, TLC, Json, IOUtils

Rec == ndJsonDeserialize(IOEnv.TRACE)

VARIABLES l, buf, rpos
vars == <<l, buf, rpos>>

OctItems(bytes) == [j \in 1..Len(bytes) |-> NatBits(bytes[j], 8)]

\* the reference encoding of the call described by event e carrying the value x
EncOf(e, x) ==
  CASE e.k = "cwn"  -> ConstrainedB(e.lb, e.ub, x)
    [] e.k = "ucwn" -> UnconstrainedB(x)
    [] e.k = "scwn" -> IF InU64(BSub(x, e.lb)) \/ BLess(x, e.lb) THEN SemiConstrainedB(e.lb, x) ELSE Err
    [] e.k = "nsnn" -> NormallySmallB(x)
    [] e.k = "idx"  -> Index(e.n, e.ext, BToInt(x))
    [] e.k = "len"  -> LET r == LenDet(e.hasLb, BToInt(e.lb), e.hasUb, BToInt(e.ub), BToInt(x))
                       IN IF r.ok THEN Ok(r.bits) ELSE Err
    [] e.k = "oct"  -> LET p == SizedPlan(e.hasLb, BToInt(e.lb), e.hasUb, BToInt(e.ub), e.ext, Len(e.data))
                       IN IF p.ok THEN Ok(PlanBits(p, OctItems(e.data))) ELSE Err

Init == l = 1 /\ buf = <<>> /\ rpos = 0

Step(e) ==
  CASE e.op = "new" -> buf' = <<>> /\ rpos' = 0
    [] e.op = "w" ->
         LET r == EncOf(e, e.v)
         IN /\ e.res = (IF r.ok THEN "ok" ELSE "err")
            /\ e.app = r.bits                       \* nothing is appended by a refused call
            /\ e.len = Len(buf) + Len(r.bits)
            \* write_length_determinant returns how many items the header it wrote announces
            /\ (e.k = "len" /\ r.ok => e.ret = LenDet(e.hasLb, BToInt(e.lb), e.hasUb, BToInt(e.ub), BToInt(e.v)).covers)
            /\ buf' = buf \o r.bits /\ rpos' = rpos
    [] e.op = "r" ->
         LET r == EncOf(e, e.v)                     \* e.v = the value the reader returned
         IN /\ e.res = "ok" /\ r.ok
            /\ e.used = Len(r.bits)
            /\ rpos + e.used <= Len(buf)
            /\ SubSeq(buf, rpos + 1, rpos + e.used) = r.bits
            /\ rpos' = rpos + e.used /\ buf' = buf
    [] e.op = "end" ->                              \* all written values were read: nothing may remain
         /\ e.rem = Len(buf) - rpos /\ e.rem = 0 /\ UNCHANGED <<buf, rpos>>

Next == l <= Len(Rec) /\ l' = l + 1 /\ Step(Rec[l])
Spec == Init /\ [][Next]_vars

Accepted ==
  LET d == TLCGet("stats").diameter
  IN IF d - 1 = Len(Rec) THEN TRUE
     ELSE /\ PrintT(<<"REJECTED", d, ToJson(Rec[d])>>)
          /\ FALSE
=============================================================================
