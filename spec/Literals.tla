-------------------------------- MODULE Literals --------------------------------
(***************************************************************************)
(* Value notation of OCTET STRING / BIT STRING (X.680 12.10 hstring, 12.12 *)
(* bstring) as the model carries it: LiteralValue::OctetString(octets).    *)
(*                                                                         *)
(* Named deviation, RightAligned: X.680 23.3 / 22.x pad an hstring with an *)
(* odd number of digits (a bstring whose length is not a multiple of 8)    *)
(* with TRAILING zero bits; asn1rs reads the notation as a number and pads *)
(* with LEADING zero bits ('1001'B = 09, 'ABC'H = 0A BC).  The repository's *)
(* own unit test (model.rs, test_value_reference_bit_string) pins that     *)
(* behaviour, so the specification states it as the implementation's rule; *)
(* where both readings agree (whole octets) there is only one answer.      *)
(***************************************************************************)
EXTENDS Naturals, Sequences

\* digits: sequence of 0..15; bits: sequence of 0..1
Pad(s, m) == LET r == Len(s) % m IN IF r = 0 THEN s ELSE [i \in 1..(m - r) |-> 0] \o s      \* leading zeros to a multiple of m
RECURSIVE NumOf(_, _)
NumOf(s, base) == IF s = <<>> THEN 0 ELSE NumOf(SubSeq(s, 1, Len(s) - 1), base) * base + s[Len(s)]
Group(s, m) == [j \in 1..(Len(s) \div m) |-> SubSeq(s, (j - 1) * m + 1, j * m)]
OctetsOfHex(d) == LET g == Group(Pad(d, 2), 2) IN [j \in 1..Len(g) |-> NumOf(g[j], 16)]
OctetsOfBits(b) == LET g == Group(Pad(b, 8), 8) IN [j \in 1..Len(g) |-> NumOf(g[j], 2)]
\* whole octets: the reading is the one of X.680 as well
Whole(kind, s) == IF kind = "hex" THEN Len(s) % 2 = 0 ELSE Len(s) % 8 = 0
HexChars == <<"0", "1", "2", "3", "4", "5", "6", "7", "8", "9", "A", "B", "C", "D", "E", "F">>
LowerHexChars == <<"0", "1", "2", "3", "4", "5", "6", "7", "8", "9", "a", "b", "c", "d", "e", "f">>
=============================================================================
