----------------------------- MODULE MC_ByteFaults -----------------------------
(***************************************************************************)
(* Generator instance of ByteFaults: one TLC state per fault sequence.     *)
(*   exhaustive: every single fault at every position <= MaxPos, and every *)
(*   raw input of length <= RawLen (all octet values) plus all strings of  *)
(*   length RawLen + 1 over the interesting octets;                        *)
(*   -simulate: behaviours grow a sequence to MaxFaults faults (seeded).   *)
(* Sanity (M): Apply never yields an octet outside 0..255 and changes the  *)
(* length by the amount its kind says (checked on a probe input).          *)
(***************************************************************************)
EXTENDS ByteFaults, TLC, Json

CONSTANTS MaxPos, MaxFaults, RawLen
VARIABLE c
Probe == [i \in 1..(MaxPos + 2) |-> (37 * i) % 256]

RECURSIVE Strings(_, _)
Strings(S, n) == IF n = 0 THEN {<<>>} ELSE {Append(s, x) : s \in Strings(S, n - 1), x \in S}
Raw == UNION {Strings(0..255, n) : n \in 0..RawLen} \cup Strings({Interesting[i] : i \in 1..Len(Interesting)}, RawLen + 1)

Init == \/ c \in {[k |-> "seq", fs |-> <<f>>] : f \in Faults(MaxPos)}
        \/ c \in {[k |-> "raw", bytes |-> b] : b \in Raw}
        \/ c = [k |-> "tables", interesting |-> Interesting, evil |-> Evil]     \* one line: the tables the replay applies
Next == /\ c.k = "seq" /\ Len(c.fs) < MaxFaults
        /\ \E f \in Faults(MaxPos) : c' = [c EXCEPT !.fs = Append(@, f)]
Spec == Init /\ [][Next]_c

WellFormed ==
  c.k = "seq" =>
    LET b == ApplyAll(Probe, c.fs)
        f == c.fs[1]
        b1 == Apply(Probe, f)
    IN /\ \A i \in 1..Len(b) : b[i] \in 0..255
       /\ (f.k \in {"flip", "set"} => Len(b1) = Len(Probe))
       /\ (f.k = "del" => Len(b1) = Len(Probe) - 1)
       /\ (f.k = "ins" => Len(b1) = Len(Probe) + 1)
       /\ (f.k = "trunc" => Len(b1) = f.pos)
       /\ (f.k = "flip" => \E i \in 1..Len(Probe) : b1[i] # Probe[i])
Emit == PrintT(<<"REPLAY", ToJson(c)>>)
\* simulation: only the complete sequences (the simulator evaluates the invariant on every successor it generates)
EmitFull == c.k = "seq" /\ Len(c.fs) = MaxFaults => PrintT(<<"REPLAY", ToJson(c)>>)
=============================================================================
