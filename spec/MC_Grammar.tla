------------------------------ MODULE MC_Grammar ------------------------------
(***************************************************************************)
(* R (spec -> impl) for C07 / C08: every definition of the bounded         *)
(* universe of Grammar.tla is printed with its canonical projection.  The  *)
(* orchestrator prints the AST as ASN.1 text (several spellings), packs    *)
(* the definitions into modules and compares the real front end's resolved *)
(* model (C07) and the attribute round trip / constants (C08).             *)
(***************************************************************************)
EXTENDS Grammar, Json

VARIABLE i
Init == i \in 1..Len(AllTypes)
Next == FALSE
Spec == Init /\ [][Next]_i

\* the universe is well formed: default literals fit their type kind, markers are in range, names are unique
WellFormed ==
  LET t == AllTypes[i]
  IN /\ (t.k = "seq" => /\ t.extAfter >= 0 - 1 /\ (t.extAfter < Len(t.comps) \/ (t.comps = <<>> /\ t.extAfter = 0))   \* { ... }
                        /\ \A a, b \in 1..Len(t.comps) : a # b => t.comps[a].name # t.comps[b].name
                        /\ \A a \in 1..Len(t.comps) : (t.comps[a].mode = "def") = (t.comps[a].dflt # <<>>))
     /\ (t.k = "choice" => t.extAfter >= 0 - 1 /\ t.extAfter < Len(t.alts))

Emit == PrintT(<<"REPLAY", ToJson([ast |-> DefOf(i), canon |-> CanonDef(DefOf(i)), consts |-> Consts(DefOf(i)), subs |-> SubsOf(DefOf(i))])>>)
=============================================================================
