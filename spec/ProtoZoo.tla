-------------------------------- MODULE ProtoZoo --------------------------------
(***************************************************************************)
(* The protobuf type zoo (C17 / C18): top-level SEQUENCE types = messages  *)
(* covering every integer width / sign class, BOOLEAN, strings, OCTET and  *)
(* BIT STRING, NULL, ENUMERATED, nested messages, lists of scalars /       *)
(* strings / messages, CHOICE (also nested in CHOICE), OPTIONAL / DEFAULT, *)
(* extensible SEQUENCEs.  PDev* are the input classes of open findings.    *)
(***************************************************************************)
EXTENDS Zoo, ProtoMap

M(t) == Comp(t, "man", <<>>)
O(t) == Comp(t, "opt", <<>>)
PI(lb, ub) == TInt(Rng(lb, ub, FALSE))
Inner == TSeq(<<M(I07), O(TBool)>>, 2, FALSE)
Enum3 == TEnum(3, 0, FALSE)
Ch1 == TChoice(<<I07, Inner, TBool, TNull>>, 4, FALSE)
Ch2 == TChoice(<<Ch1, TStr("utf8", NoSz)>>, 2, FALSE)
ChList == TChoice(<<I07, TSeqOf(I07, NoSz)>>, 2, FALSE)
\* a message that can be empty on the wire (nothing but absent OPTIONAL fields): as list element and as oneof member its
\* PRESENCE is information even when its content is empty
AllOpt == TSeq(<<O(I07), O(TBool)>>, 2, FALSE)
\* a nested message whose encoded content length sweeps through the one- / two-octet boundary of its own length prefix
InnerS == TSeq(<<M(TStr("utf8", NoSz))>>, 1, FALSE)
EmptyM == << <<>>, <<>> >>
FullM == << <<3>>, <<TRUE>> >>

\* (-1..4294967295): the upper bound exceeds TLC's integers; it is carried as text for the printer, the specification only
\* needs its sign class and values up to 2^31-1
Wide == TInt([c |-> "rng", lb |-> 0 - 1, ub |-> 2147483647, ext |-> FALSE, ubText |-> "4294967295"])
PBase == <<
  TSeq(<<M(PI(0, 255)), M(PI(0 - 5, 5)), M(TInt(NoCon)), M(PI(0, 65536)), M(PI(0 - 128, 127)), M(TInt(Rng(0, 7, TRUE))),
         M(PI(0 - 2147483647, 2147483647)), M(PI(0, 2147483647)), M(Wide)>>, 9, FALSE),
  TSeq(<<M(TBool), M(TStr("utf8", NoSz)), M(TStr("ia5", NoSz)), M(TOct(NoSz)), M(TBits(NoSz)), M(TNull), M(Enum3), M(TEnum(2, 1, TRUE)), M(I07)>>, 9, FALSE),
  \* field numbers beyond 15: the key no longer fits the one-octet varint (16..) - as message and as oneof
  TSeq([i \in 1..33 |-> IF i % 3 = 0 THEN O(TBool) ELSE IF i % 3 = 1 THEN M(I07) ELSE O(TStr("utf8", NoSz))], 33, FALSE),
  TSeq(<<M(TChoice([i \in 1..33 |-> IF i % 2 = 1 THEN I07 ELSE TBool], 33, FALSE)), M(I07)>>, 2, FALSE),
  \* values of 64 bits: an unconstrained INTEGER (u64 / uint64) and an extensible one with a negative bound (i64 / sint64)
  TSeq(<<M(TIntB(NoCon)), M(TIntB(Rng(0 - 10, 10, TRUE))), O(TIntB(NoCon)), M(I07)>>, 4, FALSE),
  TSeq(<<M(Inner), O(Inner), M(TSeqOf(I07, NoSz)), M(TSeqOf(Inner, NoSz)), M(TSeqOf(TStr("utf8", NoSz), NoSz)), M(TSeqOf(TBool, NoSz)), M(I07)>>, 7, FALSE),
  TSeq(<<M(Ch1), O(Ch1), M(Ch2), M(I07)>>, 4, FALSE),
  TSeq(<<O(I07), O(TBool), O(TStr("utf8", NoSz)), O(TOct(NoSz)), O(Enum3), O(PI(0 - 5, 5)), M(I07)>>, 7, FALSE),
  TSeq(<<Comp(I07, "def", <<3>>), Comp(TBool, "def", <<TRUE>>), Comp(TStr("utf8", NoSz), "def", <<<<97, 98>>>>), M(I07)>>, 4, FALSE),
  TSeq(<<M(I07), O(TBool), M(TStr("utf8", NoSz)), O(I07)>>, 2, TRUE),
  \* NULL (mandatory and OPTIONAL) in front of OPTIONAL components that carry information when present
  TSeq(<<M(TNull), M(I07), O(TNull), M(TBool), O(I07), O(TStr("utf8", NoSz)), O(Inner)>>, 7, FALSE),
  TSeq(<<M(TSeqOf(Ch1, NoSz)), M(TSeqOf(Enum3, NoSz)), M(TSeqOf(TOct(NoSz), NoSz)), M(I07)>>, 4, FALSE),
  TSeq(<<M(TSeqOf(AllOpt, NoSz)), M(TChoice(<<AllOpt, TBool>>, 2, FALSE)), O(AllOpt), M(I07)>>, 4, FALSE),
  TSeq(<<M(InnerS), M(TSeqOf(InnerS, NoSz)), M(I07)>>, 3, FALSE),
  \* lists that are themselves OPTIONAL (absent, empty, several elements)
  TSeq(<<O(TSeqOf(I07, NoSz)), O(TSeqOf(Inner, NoSz)), O(TSeqOf(TStr("utf8", NoSz), NoSz)), M(I07)>>, 4, FALSE),
  \* input classes of open findings
  TSeq(<<M(TSeqOf(TSeqOf(I07, NoSz), NoSz)), M(I07)>>, 2, FALSE),
  TSeq(<<M(ChList), M(I07)>>, 2, FALSE) >>

\* mixed messages: pseudo-randomly composed message types (depth <= 2) over the constructors that have a protobuf mapping
\* (no list directly in a list, no list as CHOICE alternative: the classes of the open findings)
PLeaves == <<I07, TBool, TNull, TInt(NoCon), PI(0 - 5, 5), PI(0, 65536), PI(0 - 2147483647, 2147483647), Enum3, TEnum(2, 1, TRUE),
             TStr("utf8", NoSz), TStr("ia5", NoSz), TOct(NoSz), TBits(NoSz)>>
RECURSIVE PMixMsg(_, _), PMixField(_, _, _)
PMixField(q, d, allowList) ==
  LET kind == IF d >= 2 THEN 1 ELSE Pick(q, 1, 5)            \* 1, 2: scalar, 3: nested message, 4: list, 5: CHOICE
  IN IF kind = 3 THEN PMixMsg((q * 31 + 7) % 1000003, d + 1)
     ELSE IF kind = 4 /\ allowList THEN TSeqOf(PMixField((q * 41 + 1) % 1000003, d + 1, FALSE), NoSz)
     ELSE IF kind = 5
     THEN LET n == Pick(q, 2, 3) + 1
          IN TChoice([i \in 1..n |-> PMixField((q * 37 + i) % 1000003, d + 1, FALSE)], n, FALSE)
     ELSE PLeaves[Pick(q, 6, Len(PLeaves))]
PMixMsg(q, d) ==
  LET n == Pick(q, 2, 4)
      ext == Pick(q, 4, 3) = 1
      comp(i) == LET t == PMixField((q * 31 + i) % 1000003, d, TRUE)
                     m == Pick((q * 31 + i) % 1000003, 5, 3)
                 IN IF m = 3 /\ t = I07 THEN Comp(t, "def", <<3>>)
                    ELSE IF m = 3 /\ t = TBool THEN Comp(t, "def", <<TRUE>>)
                    ELSE Comp(t, IF m = 1 THEN "man" ELSE "opt", <<>>)
  IN TSeq([i \in 1..n |-> comp(i)], IF ext THEN Pick(q, 3, n) ELSE n, ext)
NPMix == IF N <= 3 THEN 24 ELSE 120
PMix == [q \in 1..NPMix |-> PMixMsg(q + 500, 0)]
PZoo == PMix \o PBase

\* hand-picked additional values: empty messages where their presence counts
EmptyIdx == Len(PZoo) - 4
LenIdx == Len(PZoo) - 3
PExtra(i) ==
  IF i = LenIdx
  THEN \* content of the nested message = 2 + n octets for n <= 127: 125, 126, 127 octets of text give 127, 128, 129
       [q \in 1..8 |-> LET n == 122 + q IN << << << <<Ascii(n)>> >> >>, << << << <<Ascii(n + 1)>> >>, << <<Ascii(3)>> >>, << <<Ascii(n)>> >> >> >>, <<5>> >>]
  ELSE IF PZoo[i].k = "seq" /\ PZoo[i].comps[1].t.k = "choice" /\ Len(PZoo[i].comps[1].t.alts) > 8
  THEN \* a wide oneof: every alternative (field numbers on both sides of 15 / 16)
       LET alts == PZoo[i].comps[1].t.alts IN [a \in 1..Len(alts) |-> << <<[i |-> a - 1, v |-> Rep(alts[a])[1]]>>, <<5>> >>]
  ELSE IF PZoo[i].k = "seq" /\ "big" \in DOMAIN PZoo[i].comps[1].t
  THEN \* every 64-bit boundary value in both number fields
       LET us == SetToSeq(BigVals(NoCon))  ss == SetToSeq(BigVals(Rng(0 - 10, 10, TRUE)))
       IN [q \in 1..Len(ss) |-> << <<us[(q % Len(us)) + 1]>>, <<ss[q]>>, (IF q % 2 = 0 THEN <<>> ELSE <<us[((q * 7) % Len(us)) + 1]>>), <<5>> >>]
  ELSE IF i # EmptyIdx THEN <<>>
  ELSE << << <<<<FullM, EmptyM, FullM>>>>, <<[i |-> 0, v |-> EmptyM]>>, <<>>, <<5>> >>,
          << <<<<EmptyM, EmptyM>>>>, <<[i |-> 0, v |-> FullM]>>, <<EmptyM>>, <<5>> >>,
          << <<<<EmptyM>>>>, <<[i |-> 1, v |-> TRUE]>>, <<FullM>>, <<0>> >> >>


PDevOf(i, Dev) ==
  IF i = Len(PZoo) - 1 /\ "ProtoNestedList" \in Dev THEN "ProtoNestedList"
  ELSE IF i = Len(PZoo) /\ "ProtoChoiceListAlternative" \in Dev THEN "ProtoChoiceListAlternative"
  ELSE ""

\* boundary values swept through every component, one at a time (varint length classes, zig-zag bit 31, length octets)
IntSweep == {0, 1, 0 - 1, 127, 128, 16383, 16384, 2097151, 2097152, 268435455, 268435456, 1073741823, 1073741824, 2147483647,
             0 - 64, 0 - 65, 0 - 1073741824, 0 - 1073741825, 0 - 2147483647}
SweepVals(t) ==
  CASE t.k = "int" /\ "big" \in DOMAIN t -> BigVals(t.con)
    [] t.k = "int" -> IF t.con.c = "none" THEN {x \in IntSweep : x >= 0} ELSE {x \in IntSweep \cup {t.con.lb, t.con.ub} : x >= t.con.lb /\ x <= t.con.ub}
    [] t.k \in {"oct", "str", "seqof"} -> {ListOfLen(t, n) : n \in {0, 1, 127, 128, 300}}
    [] t.k = "bits" -> {ListOfLen(t, n) : n \in {0, 1, 7, 8, 9, 1023}}
    [] t.k = "enum" -> 0..(t.nroot + t.nadd - 1)
    [] t.k = "bool" -> {TRUE, FALSE}
    [] OTHER -> {}
\* sequence of values: the base value with component i replaced by each sweep value
Sweep(t, base) ==
  LET one(i) == SetToSeq({[base EXCEPT ![i] = <<x>>] : x \in SweepVals(t.comps[i].t)})
  IN Concat([i \in 1..Len(t.comps) |-> one(i)])

\* the value in which every present component holds the zero / empty value of its kind
RECURSIVE ZeroOf(_)
ZeroOf(t) ==
  CASE t.k = "bool" -> FALSE [] t.k = "null" -> 0 [] t.k = "int" -> (IF "big" \in DOMAIN t THEN BZero ELSE IF t.con.c = "none" \/ (t.con.lb <= 0 /\ t.con.ub >= 0) THEN 0 ELSE t.con.lb)
    [] t.k = "enum" -> 0 [] t.k \in {"oct", "bits", "str", "seqof"} -> <<>>
    [] t.k = "seq" -> [i \in 1..Len(t.comps) |-> <<ZeroOf(t.comps[i].t)>>]
    [] t.k = "choice" -> [i |-> 0, v |-> ZeroOf(t.alts[1])]
=============================================================================
