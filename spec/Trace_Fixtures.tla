---------------------------- MODULE Trace_Fixtures ----------------------------
(***************************************************************************)
(* C02: "an independent reference encoder written from the standard" has   *)
(* to be validated itself.  spec/fixtures.ndjson holds third-party UPER    *)
(* expectations that are already in the repository's tests (hex produced   *)
(* by the asn1.io playground), transcribed into the type/value encoding of *)
(* X691.tla.  This trace specification consumes them one by one and        *)
(* accepts iff X691!Enc reproduces every one bit for bit.                  *)
(***************************************************************************)
EXTENDS X691, TLC, Json, IOUtils

Rec == ndJsonDeserialize(IOEnv.TRACE)

VARIABLE l
Init == l = 1
Next ==
  /\ l <= Len(Rec) /\ l' = l + 1
  /\ LET e == Enc(Rec[l].t, Rec[l].v) IN e.ok /\ e.bits = Rec[l].bits
Spec == Init /\ [][Next]_l

Accepted ==
  LET d == TLCGet("stats").diameter
  IN IF d - 1 = Len(Rec) THEN TRUE
     ELSE /\ PrintT(<<"REJECTED", d, Rec[d].name, Enc(Rec[d].t, Rec[d].v)>>)
          /\ FALSE
=============================================================================
