------------------------------ MODULE MC_Decode ------------------------------
(***************************************************************************)
(* R (spec -> impl) for C04 and C19: inputs for the real decoders.         *)
(*   family "all":   every bit string of length <= L for a sub-zoo         *)
(*   family "fault": every single fault of every valid encoding <= MaxLen  *)
(*   family "evil":  crafted extreme fields spliced in at every position   *)
(* Each case: zoo type index + input bits (declared length = Len(bits)).   *)
(* The harness additionally declares fewer bits than supplied.             *)
(***************************************************************************)
EXTENDS Zoo, Faults, TLC, Json

CONSTANTS L, MaxLen, Stride

VARIABLES st, c
vars == <<st, c>>

DecTypes == {i \in 1..Len(Zoo) : (i % Stride = 1 \/ i > Len(Zoo) - Len(ZBig) - 20) /\ ~IsBig(i)}

Seeds == [fam : {"all"}, ti : DecTypes, n : 0..L]
         \cup [fam : {"fault", "evil"}, ti : {i \in 1..Len(Zoo) : ~IsBig(i)}, n : {0}]

ValidBits(ti) ==
  LET vs == Values(Zoo[ti])
  IN {e.bits : e \in {Enc(Zoo[ti], vs[j]) : j \in 1..Len(vs)} \cap {x \in {Enc(Zoo[ti], vs[j]) : j \in 1..Len(vs)} : x.ok /\ Len(x.bits) <= MaxLen}}

Cases(s) ==
  CASE s.fam = "all"   -> {[ti |-> s.ti, fam |-> "all", bits |-> b] : b \in AllBits(s.n)}
    [] s.fam = "fault" -> {[ti |-> s.ti, fam |-> "fault", bits |-> f] : f \in UNION {SingleFaults(b) : b \in ValidBits(s.ti)}}
    \* ... also with the first bit of the message forced to 1: the extension bit of an extensible type, which no valid
    \* encoding of a type without extension additions carries (the hostile field then lands in the extension header)
    [] s.fam = "evil"  -> {[ti |-> s.ti, fam |-> "evil", bits |-> Splice(IF x = 1 /\ b # <<>> THEN [b EXCEPT ![1] = 1] ELSE b, p, e)] :
                              b \in ValidBits(s.ti), p \in 0..Min(MaxLen, 24), e \in Evil, x \in 0..1}

Init == st = "seed" /\ c \in Seeds
Next == st = "seed" /\ st' = "case" /\ c' \in {x \in Cases(c) : Len(x.bits) >= 0}
Spec == Init /\ [][Next]_vars

Emit == st = "case" => PrintT(<<"REPLAY", ToJson(c)>>)
=============================================================================
