------------------------------- MODULE Relayout -------------------------------
(***************************************************************************)
(* C13, module level.  The token-level printer as a state machine: it      *)
(* walks the boundaries between the lexical items of a module and chooses  *)
(* at each one a separator from                                            *)
(*   0 nothing (where legal, else a blank)  1 blank  2 tab  3 CR LF  4 LF  *)
(*   5 line comment  6 block comment  7 nested block comment               *)
(*   8 a run of 70 000 blanks  9 a block comment of 70 000 characters      *)
(* (8 and 9 at most W times per plan: they push what follows on the line   *)
(* beyond column 65 535, where a narrow column counter would wrap).        *)
(* A behaviour of depth D is a layout plan; TLC's simulation mode draws    *)
(* plans (seeded), the harness applies each to every module of the corpus  *)
(* and requires the token sequence and the parsed model to be unchanged    *)
(* and every token location to be where the token actually starts.         *)
(***************************************************************************)
EXTENDS Integers, Sequences, TLC, Json

CONSTANTS D, W

VARIABLES k, plan, wide
Init == k = 0 /\ plan = <<>> /\ wide = 0
Next == /\ k < D /\ k' = k + 1
        /\ \/ \E ch \in 0..7 : plan' = Append(plan, ch) /\ wide' = wide
           \/ wide < W /\ \E ch \in 8..9 : plan' = Append(plan, ch) /\ wide' = wide + 1
Spec == Init /\ [][Next]_<<k, plan, wide>>

Emit == k = D => PrintT(<<"REPLAY", ToJson([plan |-> plan])>>)
=============================================================================
