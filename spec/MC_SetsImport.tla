----------------------------- MODULE MC_SetsImport -----------------------------
(***************************************************************************)
(* R for C16, across modules.  "The referenced type's tag for untagged     *)
(* references" is decided in the module that DEFINES the referenced type:  *)
(* a reference is looked up in the module where it is written - through    *)
(* that module's IMPORTS if it is imported - and an untagged definition    *)
(* found there is resolved further in ITS module.  The importing module    *)
(* has types of the same names with other tags, which must not be used.    *)
(* Every ordered selection of K components of Main's pool as SET and as    *)
(* SEQUENCE with every marker position; printed: the expected wire order.  *)
(***************************************************************************)
EXTENDS Tags, TLC, Json

CONSTANT K
VARIABLES st, c

Ref(n) == [k |-> "ref", name |-> n]
Def(n, tag, t) == [name |-> n, tag |-> tag, t |-> t]
I07 == TInt(Rng(0, 7, FALSE))
\* the definitions of the two modules (text: tools/props/c16.py prints exactly these)
Defs == [Lib  |-> << Def("Id", <<1, 9>>, I07),                       \* [APPLICATION 9] INTEGER (0..7)
                     Def("Handle", <<>>, Ref("Id")),                  \* untagged alias
                     Def("Pick", <<>>, [k |-> "choice", alts |-> <<TBool, Ref("Id")>>, nroot |-> 2, ext |-> FALSE,
                                        atags |-> << <<1, 12>>, <<>> >>]),   \* CHOICE { a [APPLICATION 12] BOOLEAN, b Id }
                     Def("Plain", <<>>, TBool),
                     Def("Other", <<3, 3>>, TBool),                   \* [PRIVATE 3] BOOLEAN
                     Def("Deep", <<>>, Ref("Other")),
                     Def("Far", <<>>, Ref("Deep")) >>,                \* alias of an alias
         Main |-> << Def("Id", <<3, 1>>, TBool),                      \* [PRIVATE 1] BOOLEAN   - same names, other tags
                     Def("Other", <<1, 1>>, I07) >>]                  \* [APPLICATION 1] INTEGER (0..7)
Imports == [Lib |-> {}, Main |-> {"Handle", "Pick", "Plain", "Deep", "Far"}]        \* Main: all FROM Lib
HomeOf(m, n) == IF n \in Imports[m] THEN "Lib" ELSE m
Lookup(m, n) == LET ds == Defs[m] IN ds[CHOOSE i \in 1..Len(ds) : ds[i].name = n]

\* the tag of type t written in module m
RECURSIVE TagIn(_, _)
TagIn(m, t) ==
  IF t.k = "ref" THEN LET h == HomeOf(m, t.name) d == Lookup(h, t.name) IN IF d.tag # <<>> THEN d.tag ELSE TagIn(h, d.t)
  ELSE IF t.k = "choice"
       THEN LET tags == {IF t.atags[i] # <<>> THEN t.atags[i] ELSE TagIn(m, t.alts[i]) : i \in 1..t.nroot}
            IN CHOOSE x \in tags : \A y \in tags : y = x \/ TagLess(x, y)
  ELSE <<0, UniversalOf(t)>>

\* Main's component pool: (type, explicit tag)
Pool == << [t |-> Ref("Handle"), tag |-> <<>>],    \* APPLICATION 9 (Lib's Id)
           [t |-> Ref("Pick"), tag |-> <<>>],      \* APPLICATION 9 < APPLICATION 12: the smaller root alternative, Lib's Id again
           [t |-> Ref("Plain"), tag |-> <<>>],     \* UNIVERSAL 1
           [t |-> Ref("Deep"), tag |-> <<>>],      \* PRIVATE 3 (Lib's Other)
           [t |-> Ref("Id"), tag |-> <<>>],        \* PRIVATE 1 (Main's own Id)
           [t |-> Ref("Other"), tag |-> <<>>],     \* APPLICATION 1 (Main's own Other)
           [t |-> I07, tag |-> <<2, 1>>],          \* [1]
           [t |-> TBool, tag |-> <<3, 2>>],        \* [PRIVATE 2]
           [t |-> Ref("Far"), tag |-> <<>>],       \* PRIVATE 3 through two aliases
           [t |-> I07, tag |-> <<1, 10>>] >>       \* [APPLICATION 10]: between Lib's Id and the CHOICE's other alternative
Eff(i) == IF Pool[i].tag # <<>> THEN Pool[i].tag ELSE TagIn("Main", Pool[i].t)
\* distinct effective tags inside one SET (Handle / Pick and Deep / Far coincide)
Sel == {s \in [1..K -> 1..Len(Pool)] : \A i, j \in 1..K : i # j => s[i] # s[j] /\ Eff(s[i]) # Eff(s[j])}

Order(s, nroot) ==
  LET auto == \A i \in 1..K : Pool[s[i]].tag = <<>>
      Before(i, j) == TagLess(Eff(s[i]), Eff(s[j]))
  IN IF auto THEN Ident(K) ELSE SortSeq(Ident(nroot), Before) \o SortSeq([j \in 1..(K - nroot) |-> nroot + j], Before)

Init == st = "case" /\ c \in [s : Sel, xa : 0..(K - 1), isSet : BOOLEAN, libFirst : BOOLEAN]
Next == FALSE /\ UNCHANGED <<st, c>>
Spec == Init /\ [][Next]_<<st, c>>

NRoot(x) == IF x.xa = 0 THEN K ELSE x.xa
\* a permutation, root group first, sorted by the tags decided in the defining module; SEQUENCE textual
RefOk ==
  LET o == IF c.isSet THEN Order(c.s, NRoot(c)) ELSE Ident(K)
  IN /\ {o[i] : i \in 1..K} = 1..K
     /\ \A i \in 1..K : (i <= NRoot(c)) = (o[i] <= NRoot(c))
     /\ (c.isSet /\ (\E i \in 1..K : Pool[c.s[i]].tag # <<>>) =>
           \A i \in 1..(K - 1) : i # NRoot(c) => TagLess(Eff(c.s[o[i]]), Eff(c.s[o[i + 1]])))
\* the local decoys would give another order somewhere: the family can tell the two readings apart
Emit ==
  PrintT(<<"REPLAY", ToJson([s |-> c.s, xa |-> c.xa, isSet |-> c.isSet, libFirst |-> c.libFirst,
                            order |-> IF c.isSet THEN Order(c.s, NRoot(c)) ELSE Ident(K),
                            tags |-> [i \in 1..K |-> Eff(c.s[i])]])>>)
=============================================================================
