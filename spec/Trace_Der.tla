-------------------------------- MODULE Trace_Der --------------------------------
(***************************************************************************)
(* T for C20: histories of DER primitives written into one Vec<u8> and     *)
(* read back from one slice.  Every write must append exactly Der.tla's    *)
(* octets; every read must return a value whose encoding is exactly the    *)
(* octets it consumed, starting where the previous read stopped; at the    *)
(* end nothing remains.                                                    *)
(***************************************************************************)
EXTENDS Der, TLC, Json, IOUtils

Rec == ndJsonDeserialize(IOEnv.TRACE)
VARIABLES l, buf, rpos
EncOf(e) ==
  CASE e.k = "len" -> EncLen(e.v) [] e.k = "tag" -> EncTag(e.a, e.b) [] e.k \in {"i64", "u64"} -> EncInt(e.v) [] e.k = "bool" -> EncBool(e.a # 0)
Init == l = 1 /\ buf = <<>> /\ rpos = 0
Step(e) ==
  CASE e.op = "new" -> buf' = <<>> /\ rpos' = 0
    [] e.op = "w" -> /\ e.res = "ok" /\ e.app = EncOf(e) /\ e.len = Len(buf) + Len(e.app) /\ buf' = buf \o e.app /\ rpos' = rpos
    [] e.op = "r" -> LET x == EncOf(e)
                     IN /\ e.res = "ok" /\ e.used = Len(x) /\ rpos + e.used <= Len(buf)
                        /\ SubSeq(buf, rpos + 1, rpos + e.used) = x
                        /\ e.rem = Len(buf) - (rpos + e.used)
                        /\ rpos' = rpos + e.used /\ buf' = buf
    [] e.op = "end" -> e.rem = 0 /\ rpos = Len(buf) /\ UNCHANGED <<buf, rpos>>
Next == l <= Len(Rec) /\ l' = l + 1 /\ Step(Rec[l])
Spec == Init /\ [][Next]_<<l, buf, rpos>>
Accepted ==
  LET d == TLCGet("stats").diameter
  IN IF d - 1 = Len(Rec) THEN TRUE ELSE PrintT(<<"REJECTED", d, ToJson(Rec[d])>>) /\ FALSE
=============================================================================
