---------------------------- MODULE Trace_UperRead ----------------------------
(***************************************************************************)
(* T for the reader machine (C01, C03, C05): the per-call events of the    *)
(* real UperReader (tracing wrapper harness/src/uptrace_read.rs) must be a *)
(* behaviour of the reader half of the Scope machine of src/rw/uper.rs:    *)
(*   REntry      Scope::read_from_field / read_bit_field_entry             *)
(*   Window      with_buffer: an open type is a length determinant and a   *)
(*               window of that many octets; after a successful read the   *)
(*               cursor is put at the end of the window                    *)
(*   SeqEnter    the first half of read_sequence: extension bit, presence  *)
(*               bits skipped and remembered as a range                    *)
(* State: msg (the input of the current message, from the reset event),    *)
(* pos (bits consumed), sc (the scope of the reader), fs (frames of the    *)
(* composite calls in progress), failed, want.  Every event carries the    *)
(* position the real reader reports; it must equal pos.  Leaves carry the  *)
(* decoded value: its X.691 encoding must be exactly the bits the call     *)
(* consumed.  Presence is NOT logged: the specification reads it from the  *)
(* message with REntry and thereby decides whether a value event or the    *)
(* exit has to follow.                                                     *)
(* Positions: pos = number of bits consumed (0-based cursor); ranges       *)
(* lo..hi are half open, 0-based like the Range<usize> of the code.        *)
(***************************************************************************)
EXTENDS UperSM, TLC, Json, IOUtils

CONSTANT Dev      \* "NoSkipUnknownAdditions": additions the reader does not know stay unread at the end of a SEQUENCE

Rec == ndJsonDeserialize(IOEnv.TRACE)
VARIABLES l, msg, pos, sc, fs, failed, want
vars == <<l, msg, pos, sc, fs, failed, want>>

E == Rec[l]
Is(ev, ph) == E.ev = ev /\ E.ph = ph
At == E.pos = pos
BitAt(p) == msg[p + 1]                       \* the bit behind 0-based position p
Avail(p, n) == p + n <= Len(msg)

\* base / readN: where the transmitted presence bitmap starts and how many additions the sender announced (scope "all")
RScopeX(k, bitPos, lo, hi, calls, nExt, base, readN) ==
  [k |-> k, bitPos |-> bitPos, lo |-> lo, hi |-> hi, calls |-> calls, nExt |-> nExt, base |-> base, readN |-> readN]
RScope(k, bitPos, lo, hi, calls, nExt) == RScopeX(k, bitPos, lo, hi, calls, nExt, 0, 0)
RNone == RScope("none", 0, 0, 0, 0, 0)
RRes(p, s, pres, ok) == [pos |-> p, sc |-> s, pres |-> pres, ok |-> ok]      \* pres in {"none", "yes", "no"}
Pres(b) == IF b = 1 THEN "yes" ELSE "no"

\* 11.6: the number of extension additions minus one as a normally small number at position p: one bit 0 and six bits,
\* or (>= 64) one bit 1, a length determinant and that many octets.  [ok, n (the number of additions), pos (behind it)]
SmallCount(p) ==
  IF ~Avail(p, 1) THEN [ok |-> FALSE, n |-> 0, pos |-> p]
  ELSE IF BitAt(p) = 0
  THEN IF Avail(p, 7) THEN [ok |-> TRUE, n |-> BitsNat(SubSeq(msg, p + 2, p + 7)) + 1, pos |-> p + 7] ELSE [ok |-> FALSE, n |-> 0, pos |-> p]
  ELSE LET d == DecLenGeneral(msg, p + 1)
       IN IF d.ok /\ ~d.frag /\ d.n >= 1 /\ d.n <= 3 /\ Avail(d.pos, 8 * d.n)
          THEN [ok |-> TRUE, n |-> BitsNat(SubSeq(msg, d.pos + 1, d.pos + 8 * d.n)) + 1, pos |-> d.pos + 8 * d.n]
          ELSE [ok |-> FALSE, n |-> 0, pos |-> p]

\* Scope::read_from_field and the scope-less branch of read_bit_field_entry
RECURSIVE REntry(_, _, _)
REntry(p, s, isOpt) ==
  CASE s.k = "none" -> IF isOpt THEN IF Avail(p, 1) THEN RRes(p + 1, s, Pres(BitAt(p)), TRUE) ELSE RRes(p, s, "none", FALSE)
                       ELSE RRes(p, s, "none", TRUE)
    [] s.k = "opt" -> IF s.lo >= s.hi THEN RRes(p, s, "no", TRUE)
                      ELSE IF isOpt THEN RRes(p, [s EXCEPT !.lo = @ + 1], Pres(BitAt(s.lo)), TRUE)
                      ELSE RRes(p, s, "none", TRUE)
    [] s.k = "all" -> IF s.lo < s.hi THEN RRes(p, [s EXCEPT !.lo = @ + 1], Pres(BitAt(s.lo)), TRUE)
                      ELSE RRes(p, s, "no", TRUE)             \* an older sender: the further additions are absent
    [] s.k = "extseq" /\ s.calls > 0 ->
         IF isOpt THEN RRes(p, [s EXCEPT !.lo = @ + 1, !.calls = @ - 1], Pres(BitAt(s.lo)), TRUE)
         ELSE RRes(p, [s EXCEPT !.calls = @ - 1], "none", TRUE)
    [] s.k = "extseq" /\ s.calls = 0 ->
         \* the first extension addition: number of additions (normally small, 19.8), then the presence bitmap;
         \* only as many presence bits as were transmitted AND are known belong to the range
         LET cnt == SmallCount(p)
         IN IF ~cnt.ok THEN RRes(p, s, "none", FALSE)
            ELSE LET width == Min(cnt.n, s.nExt)
                     s1 == RScopeX("all", 0, cnt.pos, cnt.pos + width, 0, s.nExt, cnt.pos, cnt.n)
                 IN IF Avail(cnt.pos, cnt.n) THEN REntry(cnt.pos + cnt.n, s1, isOpt) ELSE RRes(p, s, "none", FALSE)
    [] s.k = "extempty" -> RRes(p, s, "no", TRUE)

\* with_buffer: [ok, start, endp] - the content starts at start; endp = 0 - 1 means "no window" (read in place)
Window(p, s) ==
  IF OpenScope(s)
  THEN LET d == DecLenGeneral(msg, p)
       IN IF d.ok /\ ~d.frag /\ Avail(d.pos, 8 * d.n) THEN [ok |-> TRUE, start |-> d.pos, endp |-> d.pos + 8 * d.n]
          ELSE [ok |-> FALSE, start |-> p, endp |-> 0 - 1]
  ELSE [ok |-> TRUE, start |-> p, endp |-> 0 - 1]

\* left = number of value events still to come (1 for a present OPTIONAL / DEFAULT, n for a list)
\* cn / cx = root alternatives / extensibility of a CHOICE (from its enter event, used when the index arrives)
Frame(k, endp, saved) == [k |-> k, endp |-> endp, saved |-> saved, ended |-> FALSE, live |-> TRUE, left |-> 0, cn |-> 0, cx |-> FALSE, ct |-> 0]
Fail == failed' = TRUE /\ UNCHANGED <<msg, pos, sc, fs, want>>
Push(f, p, s) == fs' = Append(fs, f) /\ pos' = p /\ sc' = s /\ UNCHANGED <<msg, failed, want>>

\* 19.9 / 10.2 of X.680: a reader skips the extension additions it does not know.  SkipOpen(p, ks) = the position behind
\* the open types of the additions numbered ks (a sequence of 1-based addition numbers whose presence bit is set)
RECURSIVE SkipOpen(_, _)
SkipOpen(p, ks) ==
  IF ks = <<>> \/ p < 0 THEN p
  ELSE LET d == DecLenGeneral(msg, p)
       IN IF d.ok /\ ~d.frag /\ Avail(d.pos, 8 * d.n) THEN SkipOpen(d.pos + 8 * d.n, Tail(ks)) ELSE 0 - 1
PresentFrom(base, from, to) == SelectSeq([j \in 1..(to - from + 1) |-> from + j - 1], LAMBDA k : BitAt(base + k - 1) = 1)
\* where the cursor belongs at the end of a SEQUENCE whose scope ended as s (0 - 1: malformed)
AfterUnknown(p, s) ==
  IF "NoSkipUnknownAdditions" \in Dev THEN p                  \* the code today: nothing is skipped
  ELSE IF s.k = "all" /\ s.readN > s.nExt THEN SkipOpen(p, PresentFrom(s.base, s.nExt + 1, s.readN))
  ELSE IF s.k = "extseq" /\ s.calls = 0 /\ s.nExt = 0          \* extension bit set, but this reader knows no addition at all
  THEN LET cnt == SmallCount(p)
       IN IF cnt.ok /\ Avail(cnt.pos, cnt.n) THEN SkipOpen(cnt.pos + cnt.n, PresentFrom(cnt.pos, 1, cnt.n)) ELSE 0 - 1
  ELSE p

\* the exit of a composite: the caller's scope comes back; an open type is left at the end of its window
Finish(kind) ==
  LET f == fs[Len(fs)]
      q == IF kind = "seq" THEN AfterUnknown(pos, sc) ELSE pos
      p == IF f.endp >= 0 THEN f.endp ELSE q
  IN /\ Len(fs) > 0 /\ f.k = kind /\ E.ok /\ (kind = "seq" => f.ended) /\ f.left = 0
     /\ q >= 0 /\ (f.endp >= 0 => q <= f.endp)                 \* the content stayed inside its window
     /\ fs' = SubSeq(fs, 1, Len(fs) - 1) /\ pos' = p /\ sc' = f.saved /\ E.pos = p
     /\ UNCHANGED <<msg, failed, want>>

Reset ==
  /\ Is("reset", "call") \/ Is("summary", "call")
  /\ l > 1 => (failed = ~want /\ (~failed => fs = <<>>))
  /\ (l > 1 /\ ~failed /\ "NoSkipUnknownAdditions" \notin Dev) => pos = Len(msg)     \* the message was consumed exactly
  /\ msg' = IF E.ev = "reset" THEN E.bits ELSE <<>>
  /\ pos' = 0 /\ sc' = RNone /\ fs' = <<>> /\ failed' = FALSE
  /\ want' = IF E.ev = "reset" THEN E.ok ELSE TRUE

SeqEnter ==
  /\ Is("seq", "enter") /\ At
  /\ LET r == REntry(pos, sc, FALSE)                           \* its result is ignored by read_sequence
         w == Window(r.pos, r.sc)
         p0 == w.start
         hasX == E.ext /\ Avail(p0, 1) /\ BitAt(p0) = 1
         p1 == IF E.ext THEN p0 + 1 ELSE p0
         inner == IF hasX THEN RScope("extseq", p0, p1, p1 + E.opt, E.nroot, E.n - E.nroot) ELSE RScope("opt", 0, p1, p1 + E.opt, 0, 0)
     IN IF r.ok /\ w.ok /\ Avail(p0, (IF E.ext THEN 1 ELSE 0) + E.opt)
        THEN Push(Frame("seq", w.endp, r.sc), p1 + E.opt, inner) ELSE Fail
Body(ev) == Is(ev, "body") /\ At /\ UNCHANGED <<msg, pos, sc, fs, failed, want>>
SeqEnd ==
  /\ Is("seq", "end") /\ E.ok /\ At /\ Exhausted(sc) /\ Counted(sc)
  /\ Len(fs) > 0 /\ fs[Len(fs)].k = "seq" /\ ~fs[Len(fs)].ended
  /\ fs' = [fs EXCEPT ![Len(fs)].ended = TRUE] /\ UNCHANGED <<msg, pos, sc, failed, want>>

\* read_opt / read_default: the presence comes from the message
OptEnter ==
  /\ Is("opt", "enter") /\ At
  /\ LET r == REntry(pos, sc, TRUE)
     IN IF ~r.ok \/ r.pres = "none" THEN Fail
        ELSE IF r.pres = "no" THEN Push([Frame("opt", 0 - 1, r.sc) EXCEPT !.live = FALSE], r.pos, r.sc)
        ELSE LET w == Window(r.pos, r.sc) IN IF w.ok THEN Push([Frame("opt", w.endp, r.sc) EXCEPT !.left = 1], w.start, RNone) ELSE Fail
\* the value of an OPTIONAL / DEFAULT component or a list element starts: only where the specification expects one
ValueBody ==
  /\ Is("value", "body") /\ At /\ Len(fs) > 0 /\ fs[Len(fs)].k \in {"opt", "seqof"} /\ fs[Len(fs)].live /\ fs[Len(fs)].left > 0
  /\ fs' = [fs EXCEPT ![Len(fs)].left = @ - 1] /\ UNCHANGED <<msg, pos, sc, failed, want>>

SeqOfEnter ==
  /\ Is("seqof", "enter") /\ At /\ E.hassz
  /\ LET r == REntry(pos, sc, FALSE)
         w == Window(r.pos, r.sc)
         hdr == EncSized(E.sz, [j \in 1..E.n |-> <<>>])
         p == w.start
     IN IF r.ok /\ w.ok /\ hdr.ok /\ Avail(p, Len(hdr.bits)) /\ SubSeq(msg, p + 1, p + Len(hdr.bits)) = hdr.bits
        THEN Push([Frame("seqof", w.endp, r.sc) EXCEPT !.left = E.n], p + Len(hdr.bits), RNone) ELSE Fail

ChoiceEnter ==
  /\ Is("choice", "enter") /\ At
  /\ LET r == REntry(pos, sc, FALSE)
     IN IF r.ok THEN Push([Frame("choice", 0 - 1, r.sc) EXCEPT !.live = FALSE, !.cn = E.nroot, !.cx = E.ext, !.ct = E.n], r.pos, RNone) ELSE Fail
\* the index has been read (it is in the event), an extension alternative opens a window
ChoiceBody ==
  /\ Is("choice", "body") /\ Len(fs) > 0 /\ fs[Len(fs)].k = "choice" /\ ~fs[Len(fs)].live
  /\ LET f == fs[Len(fs)]
         idx == Index(f.cn, f.cx, E.idx)
         p == pos + Len(idx.bits)
         w == IF E.idx >= f.cn THEN Window(p, RScope("all", 0, 0, 0, 0, 0)) ELSE [ok |-> TRUE, start |-> p, endp |-> 0 - 1]
     IN /\ idx.ok /\ Avail(pos, Len(idx.bits)) /\ SubSeq(msg, pos + 1, p) = idx.bits /\ w.ok
        /\ E.pos = w.start
        /\ fs' = [fs EXCEPT ![Len(fs)] = [f EXCEPT !.live = TRUE, !.endp = w.endp]]
        \* an alternative this reader does not know (a newer sender) is reported as an error, never as a value
        /\ pos' = w.start /\ failed' = (E.idx >= f.ct) /\ UNCHANGED <<msg, sc, want>>

\* a primitive: entry, window, then exactly the bits of the X.691 encoding of the value the call returned
\* without (t, v) in the event (numbers beyond 2^29, long strings) only the frame condition is checked
LeafOpaque ==
  /\ Is("leaf", "call") /\ ~E.hastv
  /\ LET r == REntry(pos, sc, FALSE)
         w == Window(r.pos, r.sc)
     IN IF E.ok
        THEN /\ r.ok /\ w.ok /\ E.pos >= w.start /\ E.pos <= Len(msg) /\ (w.endp >= 0 => E.pos = w.endp)
             /\ pos' = E.pos /\ sc' = r.sc /\ UNCHANGED <<msg, fs, failed, want>>
        ELSE Fail

Leaf ==
  /\ Is("leaf", "call") /\ E.hastv
  /\ LET r == REntry(pos, sc, FALSE)
         w == IF E.t.k = "null" THEN [ok |-> TRUE, start |-> r.pos, endp |-> 0 - 1] ELSE Window(r.pos, r.sc)
         e == Enc(E.t, E.v)
         p == w.start + Len(e.bits)
     IN IF E.ok
        THEN /\ r.ok /\ w.ok /\ e.ok /\ Avail(w.start, Len(e.bits)) /\ SubSeq(msg, w.start + 1, p) = e.bits
             /\ (w.endp >= 0 => p <= w.endp)
             /\ pos' = (IF w.endp >= 0 THEN w.endp ELSE p) /\ E.pos = pos' /\ sc' = r.sc
             /\ UNCHANGED <<msg, fs, failed, want>>
        ELSE Fail

Unwind == /\ failed /\ E.ph \in {"end", "exit"} /\ ~E.ok /\ UNCHANGED <<msg, pos, sc, fs, failed, want>>

Live ==
  \/ SeqEnter \/ Body("seq") \/ SeqEnd \/ (Is("seq", "exit") /\ Finish("seq"))
  \/ OptEnter \/ ValueBody \/ (Is("opt", "exit") /\ Finish("opt"))
  \/ SeqOfEnter \/ (Is("seqof", "exit") /\ Finish("seqof"))
  \/ ChoiceEnter \/ ChoiceBody \/ (Is("choice", "exit") /\ Finish("choice"))
  \/ Leaf \/ LeafOpaque

Init == l = 1 /\ msg = <<>> /\ pos = 0 /\ sc = RNone /\ fs = <<>> /\ failed = FALSE /\ want = TRUE
Next == l <= Len(Rec) /\ l' = l + 1 /\ (Reset \/ (~failed /\ Live) \/ Unwind)
Spec == Init /\ [][Next]_vars

Accepted ==
  LET d == TLCGet("stats").diameter
  IN IF d - 1 = Len(Rec) THEN TRUE ELSE PrintT(<<"REJECTED", d, ToJson(Rec[d])>>) /\ FALSE
=============================================================================
