--------------------------------- MODULE Names ---------------------------------
(***************************************************************************)
(* C09.  The identifier mangling automata of the code generator over a     *)
(* character-class alphabet (two lower case letters, two upper case        *)
(* letters, a digit, the hyphen), one step per character, with the state   *)
(* of the Rust functions:                                                  *)
(*   FieldName    = rust_module_name(name, false)   (out, prev_lowered,    *)
(*                  prev_alphabetic, one character look-ahead)             *)
(*   ConstName    = upper case of rust_module_name(name, true)             *)
(*   VariantName  = rust_variant_name(name)         (out, next_upper,      *)
(*                  prev_upper, look-ahead) - also used for type names     *)
(* and the generator's keyword escape on top (GenFieldName,                *)
(* GenVariantName).  Required: every output is a legal Rust identifier     *)
(* (not a keyword), and two different ASN.1 identifiers of one scope never *)
(* map to the same Rust identifier.                                        *)
(***************************************************************************)
EXTENDS Integers, Sequences, FiniteSets

LowerSeq == <<"a", "b", "c", "d", "e", "f", "g", "h", "i", "j", "k", "l", "m", "n", "o", "p", "q", "r", "s", "t", "u", "v", "w", "x", "y", "z">>
UpperSeq == <<"A", "B", "C", "D", "E", "F", "G", "H", "I", "J", "K", "L", "M", "N", "O", "P", "Q", "R", "S", "T", "U", "V", "W", "X", "Y", "Z">>
Lower == {LowerSeq[i] : i \in 1..26}
Upper == {UpperSeq[i] : i \in 1..26}
\* the class alphabet the exhaustive family grows identifiers from
Alpha == {"a", "b", "A", "B", "0", "-"}
IsAlphabetic(ch) == ch \in Lower \cup Upper
ToLower(ch) == IF ch \in Upper THEN LowerSeq[CHOOSE i \in 1..26 : UpperSeq[i] = ch] ELSE ch
ToUpper(ch) == IF ch \in Lower THEN UpperSeq[CHOOSE i \in 1..26 : LowerSeq[i] = ch] ELSE ch

\* every strict and reserved Rust keyword an ASN.1 identifier can spell (the generator's KEYWORDS table) and the one a type name can
Keywords ==
  { <<"u", "s", "e">>, <<"m", "o", "d">>, <<"c", "o", "n", "s", "t">>, <<"t", "y", "p", "e">>,
    <<"p", "u", "b">>, <<"e", "n", "u", "m">>, <<"s", "t", "r", "u", "c", "t">>, <<"i", "m", "p", "l">>,
    <<"t", "r", "a", "i", "t">>, <<"a", "s">>, <<"b", "r", "e", "a", "k">>,
    <<"c", "o", "n", "t", "i", "n", "u", "e">>, <<"c", "r", "a", "t", "e">>, <<"e", "l", "s", "e">>,
    <<"e", "x", "t", "e", "r", "n">>, <<"f", "a", "l", "s", "e">>, <<"f", "n">>, <<"f", "o", "r">>,
    <<"i", "f">>, <<"i", "n">>, <<"l", "e", "t">>, <<"l", "o", "o", "p">>, <<"m", "a", "t", "c", "h">>,
    <<"m", "o", "v", "e">>, <<"m", "u", "t">>, <<"r", "e", "f">>, <<"r", "e", "t", "u", "r", "n">>,
    <<"s", "e", "l", "f">>, <<"s", "t", "a", "t", "i", "c">>, <<"s", "u", "p", "e", "r">>,
    <<"t", "r", "u", "e">>, <<"u", "n", "s", "a", "f", "e">>, <<"w", "h", "e", "r", "e">>,
    <<"w", "h", "i", "l", "e">>, <<"a", "s", "y", "n", "c">>, <<"a", "w", "a", "i", "t">>, <<"d", "y", "n">>,
    <<"a", "b", "s", "t", "r", "a", "c", "t">>, <<"b", "e", "c", "o", "m", "e">>, <<"b", "o", "x">>,
    <<"d", "o">>, <<"f", "i", "n", "a", "l">>, <<"m", "a", "c", "r", "o">>,
    <<"o", "v", "e", "r", "r", "i", "d", "e">>, <<"p", "r", "i", "v">>, <<"t", "y", "p", "e", "o", "f">>,
    <<"u", "n", "s", "i", "z", "e", "d">>, <<"v", "i", "r", "t", "u", "a", "l">>,
    <<"y", "i", "e", "l", "d">>, <<"t", "r", "y">>, <<"g", "e", "n">> }
SelfType == <<"S", "e", "l", "f">>

\* X.680 12.3: letters, digits, hyphens; no hyphen at the end, no two hyphens in a row; first character a letter
ValidAsn(s) ==
  /\ Len(s) >= 1 /\ IsAlphabetic(s[1]) /\ s[Len(s)] # "-"
  /\ \A i \in 1..(Len(s) - 1) : ~(s[i] = "-" /\ s[i + 1] = "-")

RECURSIVE ModR(_, _, _, _, _, _)
ModR(s, i, pad, out, prevLowered, prevAlpha) ==
  IF i > Len(s) THEN out
  ELSE LET ch == s[i]
           alpha == IsAlphabetic(ch)
           out1 == IF pad /\ prevAlpha # alpha /\ ch # "-" /\ out # <<>> /\ out[Len(out)] # "_" THEN Append(out, "_") ELSE out
       IN IF ch \in Upper
          THEN LET out2 == IF out1 # <<>> /\ prevAlpha
                           THEN IF ~prevLowered THEN Append(out1, "_")
                                ELSE IF i < Len(s) /\ s[i + 1] \in Lower THEN Append(out1, "_") ELSE out1
                           ELSE out1
               IN ModR(s, i + 1, pad, Append(out2, ToLower(ch)), TRUE, alpha)
          ELSE IF ch = "-" THEN ModR(s, i + 1, pad, Append(out1, "_"), FALSE, alpha)
          ELSE ModR(s, i + 1, pad, Append(out1, ch), FALSE, alpha)
ModuleName(s, pad) == ModR(s, 1, pad, <<>>, FALSE, FALSE)
FieldName(s) == ModuleName(s, FALSE)
ConstName(s) == LET m == ModuleName(s, TRUE) IN [i \in 1..Len(m) |-> ToUpper(m[i])]

RECURSIVE VarR(_, _, _, _, _)
VarR(s, i, out, nextUpper, prevUpper) ==
  IF i > Len(s) THEN out
  ELSE LET ch == s[i]
       IN IF ch = "-" THEN VarR(s, i + 1, out, TRUE, FALSE)
          ELSE IF nextUpper /\ ~prevUpper THEN VarR(s, i + 1, Append(out, ToUpper(ch)), FALSE, TRUE)
          ELSE LET keep == ~(prevUpper /\ ~(i < Len(s) /\ s[i + 1] \in Lower))
               IN VarR(s, i + 1, Append(out, IF keep THEN ch ELSE ToLower(ch)), nextUpper, ch \in Upper)
VariantName(s) == VarR(s, 1, <<>>, TRUE, FALSE)

\* what the generator finally writes: struct fields get a trailing underscore when the mangled name is a keyword
\* (RustCodeGenerator::rust_field_name(.., true)), a type / variant name that would spell Self likewise
GenFieldName(s) == LET f == FieldName(s) IN IF f \in Keywords THEN Append(f, "_") ELSE f
\* the generator passes variant names through its own second automaton (RustCodeGenerator::rust_variant_name: upper case after
\* every separator, separators dropped), which would strip an escape again, so it has to escape too
RECURSIVE GenVarR(_, _, _, _)
GenVarR(v, i, out, nextUpper) ==
  IF i > Len(v) THEN out
  ELSE IF nextUpper THEN GenVarR(v, i + 1, Append(out, ToUpper(v[i])), FALSE)
  ELSE IF v[i] \in {"-", "_"} THEN GenVarR(v, i + 1, out, TRUE)
  ELSE GenVarR(v, i + 1, Append(out, v[i]), FALSE)
EscapeSelf(v) == IF v = SelfType THEN Append(v, "_") ELSE v
TypeName(s) == EscapeSelf(VariantName(s))
GenVariantName(s) == EscapeSelf(GenVarR(TypeName(s), 1, <<>>, TRUE))

LegalRust(o) ==
  /\ Len(o) >= 1 /\ o[1] # "0" /\ \A i \in 1..Len(o) : o[i] \in Lower \cup Upper \cup {"0", "_"}
  /\ o \notin Keywords /\ o # SelfType /\ o # <<"_">>
=============================================================================
