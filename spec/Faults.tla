-------------------------------- MODULE Faults --------------------------------
(***************************************************************************)
(* C04 / C14 / C19.  Fault operators over any sequence (bits or tokens):   *)
(* the input space of "every byte string" is explored as                   *)
(*   - all short sequences,                                                *)
(*   - single faults applied to valid encodings: flip, truncate, insert,   *)
(*     delete, swap,                                                       *)
(*   - substitution of crafted extreme fields at every position.           *)
(***************************************************************************)
EXTENDS Bits

Flip(b, i)      == [b EXCEPT ![i] = 1 - b[i]]
Truncate(b, n)  == SubSeq(b, 1, n)
Insert(b, i, x) == SubSeq(b, 1, i) \o x \o SubSeq(b, i + 1, Len(b))      \* insert x after position i (0..Len)
Delete(b, i)    == SubSeq(b, 1, i - 1) \o SubSeq(b, i + 1, Len(b))
Swap(b, i)      == [b EXCEPT ![i] = b[i + 1], ![i + 1] = b[i]]
\* keep the first p bits, then the crafted chunk, then the original continuation after skipping as many bits
Splice(b, p, x) == LET q == Min(p, Len(b)) IN SubSeq(b, 1, q) \o x \o SubSeq(b, Min(Len(b), q + Len(x)) + 1, Len(b))

SingleFaults(b) ==
  {Flip(b, i) : i \in 1..Len(b)}
  \cup {Truncate(b, n) : n \in 0..(Len(b) - 1)}
  \cup {Insert(b, i, <<x>>) : i \in 0..Len(b), x \in Bit}
  \cup {Delete(b, i) : i \in 1..Len(b)}

\* all bit strings of length exactly n
RECURSIVE AllBits(_)
AllBits(n) == IF n = 0 THEN {<<>>} ELSE {Append(s, x) : s \in AllBits(n - 1), x \in Bit}

(* Crafted extreme fields of the PER forms: lengths, counts, fragment      *)
(* headers and indices that no short exhaustive string and no single bit   *)
(* flip reaches                                                            *)
Evil ==
  { <<1>> \o <<0>> \o NatBits(k, 7) \o Ones(8 * k) : k \in {1, 2, 3, 4, 8, 9} }     \* normally small ">= 64" form, k octets of 0xFF
  \cup { <<1, 1>> \o NatBits(m, 6) : m \in {0, 1, 4, 5, 63} }                 \* fragment header with multiplier m
  \cup { <<1, 0>> \o Ones(14), <<1, 0>> \o Pad(14) }                          \* two-octet length 16383 / 0
  \cup { <<0>> \o Ones(7), Pad(8) }                                           \* one-octet length 127 / 0
  \cup { <<0>> \o NatBits(9, 7) \o Ones(72), <<0>> \o NatBits(8, 7) \o <<1>> \o Pad(63) }   \* 9-octet integer, i64::MIN
  \cup { Ones(64), Pad(64) }
=============================================================================
