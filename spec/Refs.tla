--------------------------------- MODULE Refs ---------------------------------
(***************************************************************************)
(* C12.  Value references and imports.  A base definition has literal      *)
(* slots (range bounds, size bounds, DEFAULT values).  A variant replaces  *)
(* a subset S of the slots by value references that are defined            *)
(*   same     in the module itself,                                        *)
(*   sibName  in a sibling module imported by name,                        *)
(*   sibOid   in a sibling module imported by name and object identifier,  *)
(*   decoy    as sibOid, with another loaded module of the same name but   *)
(*            a different object identifier defining other values,         *)
(* and the modules are loaded in every order.  Expected: the resolved      *)
(* model of the main module equals that of the literal spelling ("same"),  *)
(* or resolution fails ("error") for the negative variants                 *)
(*   missing   a used reference is defined nowhere,                        *)
(*   wrongKind a reference used as a number names a BOOLEAN,               *)
(*   wrongKindStr  ... names a character string whose TEXT is the number, *)
(*   negSize   a negative number is referenced as a SIZE bound.            *)
(***************************************************************************)
EXTENDS Integers, Sequences, FiniteSets, TLC, Json, SequencesExt

CONSTANT Dev

\* base definitions: name of the text template (owned by the printer) and its slots <<slot name, kind>>
Bases == << [tpl |-> "intRange",     slots |-> << <<"lb", "int">>, <<"ub", "int">> >>],
            [tpl |-> "intRangeExt",  slots |-> << <<"ub", "int">> >>],
            \* bounds at the limits of 64 bits: (-2^63..0) and (1..2^63 - 1)
            [tpl |-> "intRangeMin",  slots |-> << <<"lb", "int">> >>],
            [tpl |-> "intRangeMax",  slots |-> << <<"ub", "int">> >>],
            [tpl |-> "octSize",      slots |-> << <<"lb", "size">>, <<"ub", "size">> >>],
            [tpl |-> "ia5Fixed",     slots |-> << <<"n", "size">> >>],
            [tpl |-> "seqOfSizeExt", slots |-> << <<"lb", "size">>, <<"ub", "size">> >>],
            [tpl |-> "bitsSize",     slots |-> << <<"lb", "size">>, <<"ub", "size">> >>],
            [tpl |-> "seqDefaults",  slots |-> << <<"ub", "int">>, <<"d", "int">>, <<"b", "bool">> >>],
            [tpl |-> "seqStrDefault", slots |-> << <<"s", "str">> >>],
            \* literals whose value makes the constraint vanish: SIZE(0..MAX) and (0..MAX) are "no constraint"
            [tpl |-> "sizeZeroMax",  slots |-> << <<"lb", "size">> >>],
            [tpl |-> "intZeroMax",   slots |-> << <<"lb", "int">> >>],
            [tpl |-> "sizeOneMax",   slots |-> << <<"lb", "size">> >>],
            \* the reference is named like an enumeration item used as DEFAULT in the same definition
            [tpl |-> "seqEnumClash", slots |-> << <<"ub", "int">> >>] >>

\* rival: Main imports from Lib as in sibName, and a second importer (Rival) imports the SAME names from RivalLib, where they
\* have other values: what a name means in one module must not leak into another one resolved in the same run
\* kinShort / kinLong: as sibOid, and another loaded module with ANOTHER name defines the same names with other values under an
\* object identifier that is a strict prefix (kinShort) / a strict extension (kinLong) of the imported one
Placements == {"same", "sibName", "sibOid", "decoy", "rival", "kinShort", "kinLong"}
\* unimported: the sibling defines the names but Main has no IMPORTS clause for them
Negatives == {"missing", "wrongKind", "wrongKindStr", "negSize", "unimported"}

\* the module list of a placement and all its load orders
Mods(p) == IF p = "same" THEN <<"Main">> ELSE IF p = "decoy" THEN <<"Main", "Lib", "Decoy">>
           ELSE IF p \in {"kinShort", "kinLong"} THEN <<"Main", "Lib", "Kin">>
           ELSE IF p = "rival" THEN <<"Main", "Lib", "Rival", "RivalLib">> ELSE <<"Main", "Lib">>
Perms(s) == {f \in [1..Len(s) -> 1..Len(s)] : \A i, j \in 1..Len(s) : i # j => f[i] # f[j]}
Orders(p) == {[i \in 1..Len(Mods(p)) |-> Mods(p)[f[i]]] : f \in Perms(Mods(p))}

SlotNames(b) == {Bases[b].slots[i][1] : i \in 1..Len(Bases[b].slots)}
KindOf(b, s) == (CHOOSE i \in 1..Len(Bases[b].slots) : Bases[b].slots[i][1] = s)

Positive == [b : 1..Len(Bases), placement : Placements]
Case(b, S, p, ord, neg) ==
  [b |-> b, tpl |-> Bases[b].tpl, refs |-> S, placement |-> p, order |-> ord, neg |-> neg,
   expect |-> IF neg = "" THEN "same" ELSE "error",
   \* input class of the open finding: an import by object identifier is matched by module name first, so a decoy
   \* module of the same name that is loaded earlier wins
   dev |-> IF "ImportNameBeforeOid" \in Dev /\ p = "decoy" /\ S # {} /\ neg = ""
              /\ (CHOOSE i \in 1..Len(ord) : ord[i] = "Decoy") < (CHOOSE i \in 1..Len(ord) : ord[i] = "Lib")
           THEN "ImportNameBeforeOid"
           \* open finding: the kind of a referenced DEFAULT value is not checked against the component type
           ELSE IF "DefaultKindNotChecked" \in Dev /\ neg \in {"wrongKind", "wrongKindStr"} /\ S = {"d"} THEN "DefaultKindNotChecked" ELSE ""]

VARIABLES st, c
Init == st = "seed" /\ c \in Positive
Next ==
  /\ st = "seed" /\ st' = "case"
  /\ \/ \E S \in SUBSET SlotNames(c.b), ord \in Orders(c.placement) : c' = Case(c.b, S, c.placement, ord, "")
     \/ \E s \in SlotNames(c.b), ord \in Orders(c.placement), neg \in Negatives :
           /\ (neg = "negSize" => Bases[c.b].slots[KindOf(c.b, s)][2] = "size")
           /\ (neg \in {"wrongKind", "wrongKindStr"} => Bases[c.b].slots[KindOf(c.b, s)][2] \in {"int", "size"})
           /\ c.placement \notin {"decoy", "kinShort", "kinLong"}
           /\ (neg = "unimported" => c.placement \in {"sibName", "rival"})
           /\ (c.placement = "rival" => neg \in {"missing", "unimported"})
           /\ c' = Case(c.b, {s}, c.placement, ord, neg)
Spec == Init /\ [][Next]_<<st, c>>

\* every order is a permutation of the module list; the expectation does not depend on it
OrderOk == st = "case" => {c.order[i] : i \in 1..Len(c.order)} = {Mods(c.placement)[i] : i \in 1..Len(Mods(c.placement))}
Emit == st = "case" => PrintT(<<"REPLAY", ToJson([c EXCEPT !.refs = SetToSeq(c.refs)])>>)
=============================================================================
