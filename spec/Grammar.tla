-------------------------------- MODULE Grammar --------------------------------
(***************************************************************************)
(* C07 / C08.  The abstract syntax of the supported ASN.1 subset as        *)
(* records, a bounded generator of definitions (every type constructor x   *)
(* every constraint form x tags of the four classes x OPTIONAL / DEFAULT   *)
(* with literals of each kind x extension marker positions x nesting), and *)
(* Canon: the canonical projection a faithful parser has to deliver        *)
(* (X.680 equivalences applied: (0..MAX) and (MIN..MAX) are "no            *)
(* constraint", SIZE(n..n) is SIZE(n)).  The `spell` field of an AST node  *)
(* only selects among equivalent spellings for the printer.                *)
(*                                                                         *)
(* Shapes (all fields always present, one kind per field):                 *)
(*  int   [k, hasLb, lb, hasUb, ub, ext, named, spell]                     *)
(*  enum  [k, items: <<name, hasNum, num>>.., extAfter]                    *)
(*  str   [k, cs, sz]   oct [k, sz]   bits [k, sz, named]                  *)
(*  seqof [k, set, of, sz]                                                 *)
(*  seq   [k, set, comps: [name, tag, t, mode, dflt].., extAfter]          *)
(*  choice[k, alts: [name, tag, t].., extAfter]     ref [k, name]          *)
(*  sz    [c, lb, ub, ext, spell]        tag <<>> | <<class, number>>      *)
(*  literal [k: bool|int|str|enum, v, ty]                                  *)
(***************************************************************************)
EXTENDS Integers, Sequences, FiniteSets, TLC

CONSTANT K      \* how many different partners every component gets in the two- and three-component families

\* ---- constructors --------------------------------------------------------
GInt(hasLb, lb, hasUb, ub, ext, named, spell) ==
  [k |-> "int", hasLb |-> hasLb, lb |-> lb, hasUb |-> hasUb, ub |-> ub, ext |-> ext, named |-> named, spell |-> spell]
GSz(c, lb, ub, ext, spell) == [c |-> c, lb |-> lb, ub |-> ub, ext |-> ext, spell |-> spell]
GNoSz == GSz("none", 0, 0, FALSE, "plain")
GStr(cs, sz) == [k |-> "str", cs |-> cs, sz |-> sz]
GOct(sz) == [k |-> "oct", sz |-> sz]
GBits(sz, named) == [k |-> "bits", sz |-> sz, named |-> named]
GEnum(items, extAfter) == [k |-> "enum", items |-> items, extAfter |-> extAfter]
GSeqOf(set, of, sz) == [k |-> "seqof", set |-> set, of |-> of, sz |-> sz]
GComp(name, tag, t, mode, dflt) == [name |-> name, tag |-> tag, t |-> t, mode |-> mode, dflt |-> dflt]
GSeq(set, comps, extAfter) == [k |-> "seq", set |-> set, comps |-> comps, extAfter |-> extAfter]
GAlt(name, tag, t) == [name |-> name, tag |-> tag, t |-> t]
GChoice(alts, extAfter) == [k |-> "choice", alts |-> alts, extAfter |-> extAfter]
GRef(name) == [k |-> "ref", name |-> name]
GBool == [k |-> "bool"]
GNull == [k |-> "null"]
LitBool(b) == [k |-> "bool", v |-> b]
LitInt(n)  == [k |-> "int", v |-> n]
LitStr(s)  == [k |-> "str", v |-> s]             \* s: sequence of code points
LitEnum(ty, v) == [k |-> "enum", ty |-> ty, v |-> v]
GDef(name, tag, t) == [name |-> name, tag |-> tag, t |-> t]

\* ---- Canon: what the parsed and resolved model must contain -------------
CanonSz(sz) ==
  IF sz.c = "none" \/ sz.spell = "zeroMax" THEN [c |-> "none", lb |-> 0, ub |-> 0, ext |-> FALSE]
  ELSE [c |-> "sz", lb |-> sz.lb, ub |-> sz.ub, ext |-> sz.ext]

RECURSIVE Canon(_)
Canon(t) ==
  CASE t.k = "int" ->
         IF t.spell \in {"zeroMax", "minMax"}
         THEN [k |-> "int", hasLb |-> FALSE, lb |-> 0, hasUb |-> FALSE, ub |-> 0, ext |-> t.ext, named |-> t.named]
         ELSE [k |-> "int", hasLb |-> t.hasLb, lb |-> (IF t.hasLb THEN t.lb ELSE 0), hasUb |-> t.hasUb, ub |-> (IF t.hasUb THEN t.ub ELSE 0),
               ext |-> t.ext, named |-> t.named]
    [] t.k = "str"   -> [k |-> "str", cs |-> t.cs, sz |-> CanonSz(t.sz)]
    [] t.k = "oct"   -> [k |-> "oct", sz |-> CanonSz(t.sz)]
    [] t.k = "bits"  -> [k |-> "bits", sz |-> CanonSz(t.sz), named |-> t.named]
    [] t.k = "seqof" -> [k |-> "seqof", set |-> t.set, of |-> Canon(t.of), sz |-> CanonSz(t.sz)]
    [] t.k = "seq"   -> [k |-> "seq", set |-> t.set, extAfter |-> t.extAfter,
                         comps |-> [i \in 1..Len(t.comps) |-> [t.comps[i] EXCEPT !.t = Canon(t.comps[i].t)]]]
    [] t.k = "choice" -> [k |-> "choice", extAfter |-> t.extAfter,
                          alts |-> [i \in 1..Len(t.alts) |-> [t.alts[i] EXCEPT !.t = Canon(t.alts[i].t)]]]
    [] OTHER -> t                                             \* bool, null, enum, ref
CanonDef(d) == [name |-> d.name, tag |-> d.tag, t |-> Canon(d.t), dflt |-> <<>>]

(***************************************************************************)
(* Consts: the descriptor constants the generated code must carry for a    *)
(* definition - computed from the SOURCE abstract syntax (C08).  A list of *)
(* entries [field, depth, kind, hasMin, min, hasMax, max, ext] for every   *)
(* constrained position (field = "0" for the value of a wrapper type,      *)
(* component / alternative name otherwise; depth = nesting in SEQUENCE OF) *)
(* plus the structural constants of the definition itself.                 *)
(***************************************************************************)
StrKind(cs) == CASE cs = "utf8" -> "utf8string" [] cs = "ia5" -> "ia5string" [] cs = "vis" -> "visiblestring"
                 [] cs = "prt" -> "printablestring" [] cs = "num" -> "numericstring"
Entry(field, depth, kind, hasMin, min, hasMax, max, ext) ==
  [field |-> field, depth |-> depth, kind |-> kind, hasMin |-> hasMin, min |-> min, hasMax |-> hasMax, max |-> max, ext |-> ext]
SzEntry(field, depth, kind, sz) ==
  LET c == CanonSz(sz) IN Entry(field, depth, kind, c.c = "sz", c.lb, c.c = "sz", c.ub, c.ext)

RECURSIVE PosConsts(_, _, _)
PosConsts(field, depth, t) ==
  CASE t.k = "int" ->
         LET c == Canon(t) IN <<Entry(field, depth, "numbers", c.hasLb, c.lb, c.hasUb, c.ub, c.ext)>>
    [] t.k = "str"   -> <<SzEntry(field, depth, StrKind(t.cs), t.sz)>>
    [] t.k = "oct"   -> <<SzEntry(field, depth, "octetstring", t.sz)>>
    [] t.k = "bits"  -> <<SzEntry(field, depth, "bitstring", t.sz)>>
    [] t.k = "seqof" -> <<SzEntry(field, depth, IF t.set THEN "setof" ELSE "sequenceof", t.sz)>> \o PosConsts(field, depth + 1, t.of)
    [] OTHER -> <<>>

RECURSIVE FlatR(_, _, _)
FlatR(ss, i, acc) == IF i > Len(ss) THEN acc ELSE FlatR(ss, i + 1, acc \o ss[i])

Consts(d) ==
  LET t == d.t
  IN CASE t.k = "seq" ->
            [kind |-> "seq", set |-> t.set,
             stdOptionalFields |-> Cardinality({i \in 1..Len(t.comps) : (t.extAfter = 0 - 1 \/ i <= t.extAfter + 1) /\ t.comps[i].mode # "man"}),
             fieldCount |-> Len(t.comps), extendedAfterField |-> t.extAfter, variantCount |-> 0, stdVariantCount |-> 0, ext |-> t.extAfter # 0 - 1,
             pos |-> FlatR([i \in 1..Len(t.comps) |-> PosConsts(t.comps[i].name, 0, t.comps[i].t)], 1, <<>>),
             \* DEFAULT components: the descriptor carries the default value itself
             defaults |-> FlatR([i \in 1..Len(t.comps) |->
                                   IF t.comps[i].mode = "def" THEN <<[field |-> t.comps[i].name, lit |-> t.comps[i].dflt[1]]>> ELSE <<>>], 1, <<>>)]
       [] t.k = "choice" ->
            [kind |-> "choice", set |-> FALSE, stdOptionalFields |-> 0, fieldCount |-> 0, extendedAfterField |-> 0 - 1,
             variantCount |-> Len(t.alts), stdVariantCount |-> (IF t.extAfter = 0 - 1 THEN Len(t.alts) ELSE t.extAfter + 1), ext |-> t.extAfter # 0 - 1,
             pos |-> FlatR([i \in 1..Len(t.alts) |-> PosConsts(t.alts[i].name, 0, t.alts[i].t)], 1, <<>>), defaults |-> <<>>]
       [] t.k = "enum" ->
            [kind |-> "enum", set |-> FALSE, stdOptionalFields |-> 0, fieldCount |-> 0, extendedAfterField |-> 0 - 1,
             variantCount |-> Len(t.items), stdVariantCount |-> (IF t.extAfter = 0 - 1 THEN Len(t.items) ELSE t.extAfter + 1), ext |-> t.extAfter # 0 - 1,
             pos |-> <<>>, defaults |-> <<>>]
       [] OTHER ->     \* a wrapper ("transparent") type around a builtin type
            [kind |-> "wrapper", set |-> FALSE, stdOptionalFields |-> 0, fieldCount |-> 1, extendedAfterField |-> 0 - 1,
             variantCount |-> 0, stdVariantCount |-> 0, ext |-> FALSE, pos |-> PosConsts("0", 0, t), defaults |-> <<>>]

\* the definitions the generator extracts from inline structured members: name = parent + capitalised member name
Structured(t) == t.k \in {"seq", "choice", "enum"}
Cap(n) == CASE n = "f1" -> "F1" [] n = "f2" -> "F2" [] n = "f3" -> "F3" [] n = "a1" -> "A1" [] n = "a2" -> "A2" [] n = "a3" -> "A3" [] OTHER -> n
Inner(t) == IF t.k = "seqof" THEN t.of ELSE t
SubsOf(d) ==
  LET ms == IF d.t.k = "seq" THEN d.t.comps ELSE IF d.t.k = "choice" THEN d.t.alts ELSE <<>>
      idx == SelectSeq([i \in 1..Len(ms) |-> i], LAMBDA i : Structured(Inner(ms[i].t)))
  IN [j \in 1..Len(idx) |-> [name |-> d.name \o Cap(ms[idx[j]].name), consts |-> Consts(GDef(d.name \o Cap(ms[idx[j]].name), <<>>, Inner(ms[idx[j]].t)))]]

\* ---- the bounded universe ------------------------------------------------
\* incl. explicit tags that coincide with the universal tag of the tagged type ([UNIVERSAL 2] INTEGER, [UNIVERSAL 1] BOOLEAN)
Tags == << <<>>, <<2, 0>>, <<2, 7>>, <<1, 3>>, <<3, 2>>, <<0, 30>>, <<0, 2>>, <<0, 1>> >>
Named2 == << <<"a", 1>>, <<"b", 0 - 2>> >>
Ints == << GInt(FALSE, 0, FALSE, 0, FALSE, <<>>, "plain"),
           GInt(TRUE, 0, TRUE, 7, FALSE, <<>>, "plain"),
           GInt(TRUE, 0 - 5, TRUE, 5, FALSE, <<>>, "plain"),
           GInt(TRUE, 0, TRUE, 7, TRUE, <<>>, "plain"),
           GInt(TRUE, 0 - 5, TRUE, 5, TRUE, <<>>, "plain"),
           GInt(TRUE, 5, FALSE, 0, FALSE, <<>>, "plain"),          \* (5..MAX)
           GInt(FALSE, 0, TRUE, 5, FALSE, <<>>, "plain"),          \* (MIN..5)
           GInt(FALSE, 0, FALSE, 0, FALSE, <<>>, "zeroMax"),       \* (0..MAX)
           GInt(FALSE, 0, FALSE, 0, FALSE, <<>>, "minMax"),        \* (MIN..MAX)
           GInt(TRUE, 0 - 5, TRUE, 5, FALSE, Named2, "plain"),     \* INTEGER { a(1), b(-2) } (-5..5)
           GInt(FALSE, 0, FALSE, 0, FALSE, Named2, "plain"),
           GInt(TRUE, 0, TRUE, 65535, FALSE, <<>>, "plain"),
           GInt(TRUE, 3, TRUE, 3, FALSE, <<>>, "plain"),
           GInt(FALSE, 0, FALSE, 0, TRUE, <<>>, "zeroMax"),        \* (0..MAX,...): extensible without a finite bound
           GInt(FALSE, 0, FALSE, 0, TRUE, <<>>, "minMax") >>       \* (MIN..MAX,...)
Enums == << GEnum(<< <<"v1", FALSE, 0>>, <<"v2", FALSE, 0>> >>, 0 - 1),
            GEnum(<< <<"v1", FALSE, 0>>, <<"v2", FALSE, 0>> >>, 1),                       \* { v1, v2, ... }
            GEnum(<< <<"v1", FALSE, 0>>, <<"v2", FALSE, 0>>, <<"v3", FALSE, 0>> >>, 0),   \* { v1, ..., v2, v3 }
            GEnum(<< <<"a", TRUE, 3>>, <<"b", TRUE, 7>> >>, 0 - 1),
            GEnum(<< <<"a", FALSE, 0>>, <<"b", TRUE, 5>>, <<"c", FALSE, 0>> >>, 0 - 1) >>
Sizes == << GNoSz, GSz("sz", 3, 3, FALSE, "plain"), GSz("sz", 1, 4, FALSE, "plain"), GSz("sz", 1, 4, TRUE, "plain"),
            GSz("sz", 3, 3, TRUE, "plain"), GSz("none", 0, 0, FALSE, "zeroMax"), GSz("sz", 0, 5, FALSE, "plain"),
            GSz("sz", 2, 2, FALSE, "range"),                                              \* SIZE(2..2) = SIZE(2)
            \* semi-constrained: SIZE(1..MAX), SIZE(2..MAX,...) - the upper bound MAX is written ub = -1
            GSz("sz", 1, 0 - 1, FALSE, "lbMax"), GSz("sz", 2, 0 - 1, TRUE, "lbMax") >>
Css == <<"utf8", "ia5", "vis", "prt", "num">>
Strs == [i \in 1..(Len(Css) * Len(Sizes)) |-> GStr(Css[((i - 1) \div Len(Sizes)) + 1], Sizes[((i - 1) % Len(Sizes)) + 1])]
Octs == [i \in 1..Len(Sizes) |-> GOct(Sizes[i])]
Bitss == [i \in 1..Len(Sizes) |-> GBits(Sizes[i], <<>>)] \o << GBits(Sizes[2], << <<"x", 0>>, <<"y", 2>> >>), GBits(GNoSz, << <<"x", 1>> >>) >>
Leaves == Ints \o Enums \o Strs \o Octs \o Bitss \o <<GBool, GNull>>

InSeq == GSeq(FALSE, <<GComp("x", <<>>, Ints[2], "man", <<>>), GComp("y", <<>>, GBool, "opt", <<>>)>>, 0 - 1)
InSeqX == GSeq(FALSE, <<GComp("x", <<>>, Ints[4], "man", <<>>)>>, 0)                    \* SEQUENCE { x INTEGER (0..7,...), ... }
InChoice == GChoice(<<GAlt("p", <<>>, GBool), GAlt("q", <<>>, GStr("ia5", Sizes[3]))>>, 0 - 1)
InEnum == GEnum(<< <<"r1", FALSE, 0>>, <<"r2", FALSE, 0>> >>, 0 - 1)
\* a small pool for components / elements, each with a literal usable as DEFAULT (or <<>>)
Small == << [t |-> Ints[2], lit |-> <<LitInt(5)>>], [t |-> GBool, lit |-> <<LitBool(TRUE)>>],
            \* a\n{' - characters that mean something in Rust source / format strings and nothing in ASN.1 (no escapes there)
            [t |-> GStr("utf8", GNoSz), lit |-> <<LitStr(<<97, 92, 110, 123, 39>>)>>], [t |-> GOct(Sizes[3]), lit |-> <<>>],
            [t |-> Ints[5], lit |-> <<LitInt(0 - 3)>>], [t |-> GNull, lit |-> <<>>],
            [t |-> GRef("D1"), lit |-> <<>>], [t |-> GRef("E1"), lit |-> <<LitEnum("E1", "v2")>>],
            [t |-> GStr("ia5", Sizes[3]), lit |-> <<LitStr(<<120>>)>>], [t |-> Ints[10], lit |-> <<LitInt(0 - 3)>>],
            \* inline structured types: the generator extracts them into definitions of their own (Parent + Field)
            [t |-> InSeq, lit |-> <<>>], [t |-> InSeqX, lit |-> <<>>], [t |-> InChoice, lit |-> <<>>], [t |-> InEnum, lit |-> <<>>],
            [t |-> GSeqOf(FALSE, InSeq, GNoSz), lit |-> <<>>] >>
Modes == <<"man", "opt", "def">>

\* component number q (1..Len(Small) * Len(Tags) * 3) named nm; DEFAULT falls back to OPTIONAL where there is no literal
CompOf(q, nm) ==
  LET s == Small[((q - 1) % Len(Small)) + 1]
      tg == Tags[(((q - 1) \div Len(Small)) % Len(Tags)) + 1]
      m0 == Modes[((q - 1) \div (Len(Small) * Len(Tags))) + 1]
      m == IF m0 = "def" /\ s.lit = <<>> THEN "opt" ELSE m0
  IN GComp(nm, tg, s.t, m, IF m = "def" THEN s.lit ELSE <<>>)
NComp == Len(Small) * Len(Tags) * 3
AltOf(q, nm) ==
  LET s == Small[((q - 1) % Len(Small)) + 1]
      tg == Tags[(((q - 1) \div Len(Small)) % Len(Tags)) + 1]
  IN GAlt(nm, tg, s.t)
NAlt == Len(Small) * Len(Tags)

\* a cheap deterministic spread for second / third members
Spread(q, j, n) == ((q * 7 + j * 13) % n) + 1

Name(prefix, i) == prefix \o ToString(i)

\* ---- families of definitions (each a sequence of type records) ----------
FLeaf == Leaves
FList == [q \in 1..(2 * Len(Small) * 3) |->
            GSeqOf(q % 2 = 0, Small[(((q - 1) \div 2) % Len(Small)) + 1].t, <<Sizes[1], Sizes[2], Sizes[4]>>[((q - 1) \div (2 * Len(Small))) + 1])]
         \o << GSeqOf(FALSE, GSeqOf(FALSE, Ints[2], Sizes[3]), GNoSz), GSeqOf(TRUE, GSeqOf(FALSE, GBool, GNoSz), Sizes[4]),
               \* a list whose element is an inline structured type
               GSeqOf(FALSE, InSeq, GNoSz), GSeqOf(TRUE, InChoice, Sizes[3]), GSeqOf(FALSE, InEnum, GNoSz),
               GSeqOf(FALSE, GBool, Sizes[9]), GSeqOf(TRUE, Ints[2], Sizes[10]), GSeqOf(FALSE, GSeqOf(FALSE, GBool, Sizes[9]), Sizes[9]) >>
\* one component, both kinds, marker none / after it
FSeq1 == [q \in 1..(NComp * 4) |->
            GSeq((q - 1) % 2 = 1, <<CompOf(((q - 1) \div 4) + 1, "f1")>>, IF ((q - 1) \div 2) % 2 = 0 THEN 0 - 1 ELSE 0)]
\* two and three components, every marker position
FSeq2 == [q \in 1..(NComp * 3 * K) |->
            LET c1 == ((q - 1) \div (3 * K)) + 1
                k == ((q - 1) \div 3) % K
            IN GSeq(q % 5 = 0, <<CompOf(c1, "f1"), CompOf(Spread(c1, 1 + 5 * k, NComp), "f2")>>, ((q - 1) % 3) - 1)]
FSeq3 == [q \in 1..(NComp * 4 * K) |->
            LET c1 == ((q - 1) \div (4 * K)) + 1
                k == ((q - 1) \div 4) % K
            IN GSeq(q % 7 = 0, <<CompOf(c1, "f1"), CompOf(Spread(c1, 2 + 5 * k, NComp), "f2"), CompOf(Spread(c1, 3 + 7 * k, NComp), "f3")>>, ((q - 1) % 4) - 1)]
FChoice == [q \in 1..(NAlt * 3) |->
              LET a1 == ((q - 1) \div 3) + 1
                  n == ((q - 1) % 3) + 1
              IN GChoice([j \in 1..n |-> AltOf(IF j = 1 THEN a1 ELSE Spread(a1, j, NAlt), Name("a", j))], IF q % 4 = 0 THEN n - 1 ELSE IF q % 4 = 1 /\ n > 1 THEN 0 ELSE 0 - 1)]

\* mixed definitions: pseudo-randomly composed trees (depth <= 2) of every constructor with tags, modes, DEFAULT literals,
\* extension markers and inline structured members - combinations the systematic families keep apart
GPick(q, k, n) == LET a == q % 9973 b == (q \div 9973) % 9973 IN ((((a * 7919 + b * 6733 + k * 10477) % 99991) * 21 + (a % 13)) % n) + 1
RECURSIVE GMixType(_, _)
GMixMember(q, d, nm, isAlt) ==
  LET lf == GPick(q, 7, 3) <= 2 \/ d >= 2
      s == Small[GPick(q, 8, 10)]                               \* the ten leaf / reference entries of the pool
      t == IF lf THEN s.t ELSE GMixType((q * 43 + 5) % 1000003, d + 1)
      tg == Tags[GPick(q, 9, Len(Tags))]
      m0 == Modes[GPick(q, 10, 3)]
      m == IF m0 = "def" /\ (~lf \/ s.lit = <<>>) THEN "opt" ELSE m0
  IN IF isAlt THEN GAlt(nm, tg, t) ELSE GComp(nm, tg, t, m, IF m = "def" THEN s.lit ELSE <<>>)
GMixType(q, d) ==
  LET kind == GPick(q, 1, 4)                                     \* 1, 2: SEQUENCE / SET, 3: CHOICE, 4: list
      n == GPick(q, 2, 3)
      names == <<"f1", "f2", "f3">>
      anames == <<"a1", "a2", "a3">>
  IN IF kind <= 2
     THEN GSeq(kind = 2, [i \in 1..n |-> GMixMember((q * 31 + i) % 1000003, d, names[i], FALSE)], GPick(q, 3, n + 1) - 2)
     ELSE IF kind = 3
     THEN GChoice([i \in 1..n |-> GMixMember((q * 37 + i) % 1000003, d, anames[i], TRUE)], GPick(q, 3, n + 1) - 2)
     ELSE LET e == GMixMember((q * 41 + 1) % 1000003, d + 1, "e", TRUE)
          IN GSeqOf(GPick(q, 4, 2) = 1, e.t, <<Sizes[1], Sizes[3], Sizes[4]>>[GPick(q, 5, 3)])
FMix == [q \in 1..(60 * K) |-> GMixType(q + 300, 0)]

\* no component at all: SEQUENCE { }, and extensible without a root component: SEQUENCE { ... } / SET { ... }
\* (extAfter = 0 with an empty list is how the model says "extensible"; a marker in front of components is outside the subset)
FSeq0 == << GSeq(FALSE, <<>>, 0 - 1), GSeq(FALSE, <<>>, 0), GSeq(TRUE, <<>>, 0), GSeq(TRUE, <<>>, 0 - 1) >>
AllTypes == FLeaf \o FList \o FSeq1 \o FSeq2 \o FSeq3 \o FChoice \o FMix \o FSeq0
DefTags == << <<>>, <<1, 3>>, <<2, 5>> >>
\* definition i: type i of AllTypes, its definition-level tag cycling through DefTags
DefOf(i) == GDef(Name("T", i), DefTags[(i % Len(DefTags)) + 1], AllTypes[i])
=============================================================================
