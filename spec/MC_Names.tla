-------------------------------- MODULE MC_Names --------------------------------
(***************************************************************************)
(* M + R for C09: one state per string over the class alphabet up to       *)
(* length L (grown character by character).  For every valid ASN.1         *)
(* identifier TLC checks that the three mangled names are legal Rust       *)
(* identifiers, computes the other identifiers (<= L) it collides with,    *)
(* and prints one replay line; the real mangling functions must return     *)
(* exactly the automata's outputs.                                         *)
(***************************************************************************)
EXTENDS Names, TLC, Json

CONSTANT L
VARIABLE s
\* the exhaustive family starts from the empty string, the keyword family from every keyword and spelling variants of it
KeywordSeeds == Keywords \cup {SelfType, <<"s", "e", "l", "f">>, <<"s", "e", "l", "-", "f">>, <<"S", "E", "L", "F">>, <<"s", "e", "L", "F">>,
                               <<"u", "s", "e", "-">>, <<"U", "s", "e">>, <<"t", "y", "-", "p", "e">>, <<"t", "y", "P", "e">>}
Init == s \in {<<>>} \cup KeywordSeeds
Next == Len(s) < L /\ \E ch \in Alpha : s' = Append(s, ch)
Spec == Init /\ [][Next]_s

RECURSIVE AllUpTo(_)
AllUpTo(n) == IF n = 0 THEN {<<>>} ELSE AllUpTo(n - 1) \cup {Append(u, ch) : u \in {w \in AllUpTo(n - 1) : Len(w) = n - 1}, ch \in Alpha}
Valid == {x \in AllUpTo(L) : ValidAsn(x)}
\* field names / value names start lower case, type names / module names upper case
SameScope(x, y) == (x[1] \in Lower) = (y[1] \in Lower)

Legal == ValidAsn(s) => LegalRust(GenFieldName(s)) /\ LegalRust(GenVariantName(s)) /\ LegalRust(TypeName(s)) /\ LegalRust(ConstName(s))
\* the escape cannot create a collision: no mangled name of a valid identifier ends in an underscore
EscapeIsFresh == ValidAsn(s) => LET f == FieldName(s) v == VariantName(s) IN f[Len(f)] # "_" /\ v[Len(v)] # "_"
FieldCollisions(x) == {y \in Valid : y # x /\ SameScope(x, y) /\ FieldName(y) = FieldName(x)}
VariantCollisions(x) == {y \in Valid : y # x /\ SameScope(x, y) /\ VariantName(y) = VariantName(x)}

Emit == ValidAsn(s) =>
  PrintT(<<"REPLAY", ToJson([s |-> s, field |-> FieldName(s), variant |-> VariantName(s), const |-> ConstName(s),
                             genField |-> GenFieldName(s), genVariant |-> GenVariantName(s), typeName |-> TypeName(s),
                             fieldCollides |-> Cardinality(FieldCollisions(s)), variantCollides |-> Cardinality(VariantCollisions(s)),
                             partner |-> IF FieldCollisions(s) # {} THEN CHOOSE y \in FieldCollisions(s) : TRUE ELSE <<>>,
                             vpartner |-> IF VariantCollisions(s) # {} THEN CHOOSE y \in VariantCollisions(s) : TRUE ELSE <<>>])>>)
=============================================================================
