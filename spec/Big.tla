-------------------------------- MODULE Big --------------------------------
(***************************************************************************)
(* TLC integers are 32 bit and overflow aborts evaluation, so every        *)
(* quantity that can exceed 2^31-1 (INTEGER bounds and values up to the    *)
(* i64/u64 extremes, ub-lb up to 2^64-1, DER lengths) is a sign-magnitude  *)
(* number over NL little-endian limbs of 16 bits:  [neg, m].               *)
(* On the JSON side such a number travels as {"neg":bool,"m":[l1..lNL]}.   *)
(***************************************************************************)
EXTENDS Integers, Sequences

B  == 65536
NL == 5                                   \* |x| < 2^80

MagZero == [i \in 1..NL |-> 0]

RECURSIVE MagAddR(_, _, _, _)
MagAddR(a, b, i, c) ==
  IF i > NL THEN <<>>
  ELSE LET t == a[i] + b[i] + c IN <<t % B>> \o MagAddR(a, b, i + 1, t \div B)
MagAdd(a, b) == MagAddR(a, b, 1, 0)

RECURSIVE MagSubR(_, _, _, _)             \* requires a >= b
MagSubR(a, b, i, w) ==
  IF i > NL THEN <<>>
  ELSE LET t == a[i] - b[i] - w
       IN <<(t + B) % B>> \o MagSubR(a, b, i + 1, IF t < 0 THEN 1 ELSE 0)
MagSub(a, b) == MagSubR(a, b, 1, 0)

RECURSIVE MagLessR(_, _, _)
MagLessR(a, b, i) == IF i = 0 THEN FALSE ELSE IF a[i] # b[i] THEN a[i] < b[i] ELSE MagLessR(a, b, i - 1)
MagLess(a, b) == MagLessR(a, b, NL)

Mk(neg, m) == [neg |-> (neg /\ m # MagZero), m |-> m]     \* canonical zero

BZero == Mk(FALSE, MagZero)
BOfInt(n) ==                                \* |n| < 2^31
  LET a == IF n < 0 THEN 0 - n ELSE n
  IN Mk(n < 0, [i \in 1..NL |-> IF i = 1 THEN a % B ELSE IF i = 2 THEN a \div B ELSE 0])

BNeg(x) == Mk(~x.neg, x.m)
BAdd(x, y) ==
  IF x.neg = y.neg THEN Mk(x.neg, MagAdd(x.m, y.m))
  ELSE IF MagLess(x.m, y.m) THEN Mk(y.neg, MagSub(y.m, x.m))
  ELSE Mk(x.neg, MagSub(x.m, y.m))
BSub(x, y) == BAdd(x, BNeg(y))
BLess(x, y) ==
  IF x.neg # y.neg THEN x.neg
  ELSE IF x.neg THEN MagLess(y.m, x.m) ELSE MagLess(x.m, y.m)
BLeq(x, y) == x = y \/ BLess(x, y)

P2s(k) == 2 ^ k                      \* k <= 15 here
BPow2(k) == Mk(FALSE, [i \in 1..NL |-> IF i = (k \div 16) + 1 THEN P2s(k % 16) ELSE 0])   \* k < 80

\* number of significant bits of a limb / magnitude
RECURSIVE LimbBitLen(_)
LimbBitLen(n) == IF n = 0 THEN 0 ELSE 1 + LimbBitLen(n \div 2)
RECURSIVE MagBitLenR(_, _)
MagBitLenR(a, i) == IF i = 0 THEN 0 ELSE IF a[i] # 0 THEN 16 * (i - 1) + LimbBitLen(a[i]) ELSE MagBitLenR(a, i - 1)
MagBitLen(a) == MagBitLenR(a, NL)

\* magnitude as w bits, most significant first (w <= 16 * NL); higher bits must be zero
MagBits(a, w) == [j \in 1..w |-> LET bit == w - j IN (a[(bit \div 16) + 1] \div P2s(bit % 16)) % 2]

\* small values back to TLC integers (|x| < 2^31)
BToInt(x) == LET v == x.m[1] + B * x.m[2] IN IF x.neg THEN 0 - v ELSE v
BIsSmall(x) == x.m[3] = 0 /\ x.m[4] = 0 /\ x.m[5] = 0 /\ x.m[2] < 8192   \* |x| < 2^29: sums of two stay native

\* the 64-bit worlds of the implementation
I64Min == BNeg(BPow2(63))
I64Max == BSub(BPow2(63), BOfInt(1))
U64Max == BSub(BPow2(64), BOfInt(1))
InI64(x) == BLeq(I64Min, x) /\ BLeq(x, I64Max)
InU64(x) == ~x.neg /\ BLeq(x, U64Max)

\* number of octets of the minimal two's complement representation (X.690 8.3 / X.691 11.4)
\* v >= 0: smallest k with v < 2^(8k-1);   v < 0: smallest k with -v <= 2^(8k-1)
RECURSIVE Octets2sR(_, _)
Octets2sR(x, k) ==
  LET lim == BPow2(8 * k - 1)
  IN IF (IF x.neg THEN BLeq(BNeg(x), lim) ELSE BLess(x, lim)) THEN k ELSE Octets2sR(x, k + 1)
Octets2s(x) == Octets2sR(x, 1)

\* two's complement of x in w bits (x must fit)
TwosBits(x, w) == IF x.neg THEN MagBits(BAdd(BPow2(w), x).m, w) ELSE MagBits(x.m, w)

\* minimal number of octets of an unsigned magnitude, at least 1
OctetsUnsigned(x) == LET b == MagBitLen(x.m) IN IF b = 0 THEN 1 ELSE (b + 7) \div 8
=============================================================================
