------------------------------- MODULE Bits -------------------------------
(***************************************************************************)
(* Bit sequences (MSB first), the common currency of every codec spec.    *)
(* Everything is written with function constructors so that sequences of   *)
(* 10^4..10^5 elements stay linear in TLC.                                 *)
(***************************************************************************)
EXTENDS Integers, Sequences, FiniteSets

Bit == {0, 1}

Min(a, b) == IF a < b THEN a ELSE b
Max(a, b) == IF a > b THEN a ELSE b

\* 2^k for 0 <= k <= 30 (TLC integers are 32 bit)
Pow2(k) == 2 ^ k

\* number of bits needed to write n >= 0 (0 for n = 0), n < 2^31
RECURSIVE BitLen(_)
BitLen(n) == IF n = 0 THEN 0 ELSE 1 + BitLen(n \div 2)

\* n as w bits, most significant first; w <= 31, and bits above bit 30 are 0
NatBits(n, w) == [i \in 1..w |-> IF w - i > 30 THEN 0 ELSE (n \div Pow2(w - i)) % 2]

\* value of a bit sequence of at most 30 bits
RECURSIVE BitsNatR(_, _, _)
BitsNatR(b, i, acc) == IF i > Len(b) THEN acc ELSE BitsNatR(b, i + 1, 2 * acc + b[i])
BitsNat(b) == BitsNatR(b, 1, 0)

Pad(n)  == [i \in 1..n |-> 0]
Ones(n) == [i \in 1..n |-> 1]
BoolBit(p) == IF p THEN 1 ELSE 0

\* number of padding bits up to the next multiple of 8
PadTo8(n) == (8 - (n % 8)) % 8
CeilDiv8(n) == (n + 7) \div 8

\* flatten a sequence of sequences; divide and conquer keeps the recursion depth logarithmic
RECURSIVE ConcatR(_, _, _)
ConcatR(ss, lo, hi) ==
  IF lo > hi THEN <<>>
  ELSE IF lo = hi THEN ss[lo]
  ELSE LET mid == (lo + hi) \div 2 IN ConcatR(ss, lo, mid) \o ConcatR(ss, mid + 1, hi)
Concat(ss) == ConcatR(ss, 1, Len(ss))

Bytes2Bits(bytes) ==
  [i \in 1..(8 * Len(bytes)) |-> (bytes[((i - 1) \div 8) + 1] \div Pow2(7 - ((i - 1) % 8))) % 2]

\* Len(bits) must be a multiple of 8
Bits2Bytes(bits) ==
  [j \in 1..(Len(bits) \div 8) |->
      128 * bits[8*j-7] + 64 * bits[8*j-6] + 32 * bits[8*j-5] + 16 * bits[8*j-4]
      + 8 * bits[8*j-3] + 4 * bits[8*j-2] + 2 * bits[8*j-1] + bits[8*j]]

\* bits padded with zeros to whole octets, as bytes
PaddedBytes(bits) == Bits2Bytes(bits \o Pad(PadTo8(Len(bits))))

\* replace bits p+1 .. p+Len(x) of b (which must exist) by x
Overlay(b, p, x) == [i \in 1..Len(b) |-> IF i > p /\ i <= p + Len(x) THEN x[i - p] ELSE b[i]]

Take(b, n) == SubSeq(b, 1, n)
Drop(b, n) == SubSeq(b, n + 1, Len(b))
=============================================================================
