------------------------------ MODULE MC_BitOps ------------------------------
(***************************************************************************)
(* R (spec -> impl) for C11: TLC enumerates EVERY single copy operation    *)
(*   (source offset, destination position, length)                         *)
(* on buffers of M bytes for every back end and method variant, computes   *)
(* the outcome the specification demands and prints one replay line per    *)
(* case.  The Rust harness executes each line against the real code.       *)
(* Cases are generated in two steps (seed -> case) so that all TLC workers *)
(* share the enumeration.                                                  *)
(***************************************************************************)
EXTENDS BitOps, TLC, Json

CONSTANT M          \* buffer size in bytes

VARIABLES st, c

vars == <<st, c>>

NB == 8 * M

\* fill patterns: (source bytes, destination bytes)
MixA == <<165, 60, 90, 195, 150, 105, 51, 204>>   \* a5 3c 5a c3 96 69 33 cc
MixB == <<15, 241, 56, 199, 170, 85, 36, 219>>
Fill(combo, isSrc, len) ==
  [i \in 1..len |->
     CASE combo = 1 -> IF isSrc THEN 255 ELSE 0
       [] combo = 2 -> IF isSrc THEN 0 ELSE 255
       [] combo = 3 -> IF isSrc THEN MixA[((i - 1) % 8) + 1] ELSE MixB[((i - 1) % 8) + 1]]

Seeds ==
  [k : {"w"}, be : {"mslice", "buf"}, var : {"offlen"}, combo : 1..3, so : 0..NB, vis : {0}]
  \cup [k : {"w"}, be : {"mslice", "buf"}, var : {"bits", "off", "len", "bit"}, combo : 1..3, so : {0}, vis : {0}]
  \cup [k : {"r"}, be : {"rslice"}, var : {"offlen"}, combo : 1..3, so : 0..NB, vis : {NB}]
  \cup [k : {"r"}, be : {"bits", "buf"}, var : {"offlen"}, combo : 1..3, so : 0..NB, vis : {NB, NB - 5}]
  \cup [k : {"r"}, be : {"rslice"}, var : {"bits", "off", "len", "bit"}, combo : 1..3, so : {0}, vis : {NB}]
  \cup [k : {"r"}, be : {"bits", "buf"}, var : {"bits", "off", "len", "bit"}, combo : 1..3, so : {0}, vis : {NB, NB - 5}]

\* ---- writes -----------------------------------------------------------
WCase(s, srcBytes, so, n, dp) ==
  LET growable == s.be = "buf"
      src == Bytes2Bits(srcBytes)
      full == Bytes2Bits(Fill(s.combo, FALSE, M))
      \* a growable buffer is exact: ceil(dp/8) bytes, padding zero
      dst == IF growable THEN Take(full, dp) \o Pad(PadTo8(dp)) ELSE full
      o == WriteOutcomeD(Dev, growable, src, so, dst, dp, n)
      i == WriteOutcomeD({}, growable, src, so, dst, dp, n)
  IN [k |-> "w", be |-> s.be, var |-> s.var, src |-> srcBytes, so |-> so, n |-> n,
      dst |-> Bits2Bytes(dst), dp |-> dp, vis |-> 0,
      res |-> o.res, mem |-> Bits2Bytes(o.mem), pos |-> o.pos, bit |-> 0,
      dev |-> o # i]

WCases(s) ==
  CASE s.var = "offlen" ->
         {WCase(s, Fill(s.combo, TRUE, M), s.so, n, dp) : n \in 0..(NB + 1), dp \in 0..NB}
    [] s.var = "bits" ->
         {WCase(s, Fill(s.combo, TRUE, ms), 0, 8 * ms, dp) : ms \in 0..M, dp \in 0..NB}
    [] s.var = "off" ->
         \* an offset beyond the source (so = NB + 1) is "source too short": n = -1 never fits
         {WCase(s, Fill(s.combo, TRUE, M), so, NB - so, dp) : so \in 0..(NB + 1), dp \in 0..NB}
    [] s.var = "len" ->
         {WCase(s, Fill(s.combo, TRUE, M), 0, n, dp) : n \in 0..(NB + 1), dp \in 0..NB}
    [] s.var = "bit" ->
         {WCase(s, Fill(s.combo, TRUE, 1), 0, 1, dp) : dp \in 0..NB}

\* ---- reads ------------------------------------------------------------
RCase(s, rpos, dstLen, dp, n) ==
  LET srcBytes == Fill(s.combo, TRUE, M)
      src == Bytes2Bits(srcBytes)
      dst == Bytes2Bits(Fill(s.combo, FALSE, dstLen))
      \* (&[u8], &mut usize) has no declared length
      D == IF s.be = "rslice" THEN {} ELSE Dev
      o == ReadOutcomeD(D, src, s.vis, rpos, dst, dp, n)
      i == ReadOutcomeD({}, src, s.vis, rpos, dst, dp, n)
  IN [k |-> "r", be |-> s.be, var |-> s.var, src |-> srcBytes, so |-> rpos, n |-> n,
      dst |-> Bits2Bytes(dst), dp |-> dp, vis |-> s.vis,
      res |-> o.res, mem |-> Bits2Bytes(o.mem), pos |-> o.pos, bit |-> 0,
      dev |-> o # i]

RBitCase(s, rpos) ==
  LET srcBytes == Fill(s.combo, TRUE, M)
      o == ReadBitOutcome(Bytes2Bits(srcBytes), s.vis, rpos)
  IN [k |-> "r", be |-> s.be, var |-> "bit", src |-> srcBytes, so |-> rpos, n |-> 1,
      dst |-> <<>>, dp |-> 0, vis |-> s.vis,
      res |-> o.res, mem |-> <<>>, pos |-> o.pos, bit |-> o.bit, dev |-> FALSE]

RCases(s) ==
  CASE s.var = "offlen" ->
         {RCase(s, s.so, M, dp, n) : n \in 0..(NB + 1), dp \in 0..NB}
    [] s.var = "bits" ->
         {RCase(s, rpos, md, 0, 8 * md) : md \in 0..M, rpos \in 0..NB}
    [] s.var = "off" ->
         {RCase(s, rpos, M, dp, NB - dp) : dp \in 0..(NB + 1), rpos \in 0..NB}
    [] s.var = "len" ->
         {RCase(s, rpos, M, 0, n) : n \in 0..(NB + 1), rpos \in 0..NB}
    [] s.var = "bit" ->
         {RBitCase(s, rpos) : rpos \in 0..(NB + 1)}

Cases(s) == IF s.k = "w" THEN WCases(s) ELSE RCases(s)

Init == st = "seed" /\ c \in Seeds
\* Bits::set_pos clamps to the declared length and a BitBuffer is only meaningful with
\* read cursor <= write cursor: cases with a cursor beyond the declared length are not constructible
Constructible(x) == x.k = "r" /\ x.be \in {"bits", "buf"} => x.so <= x.vis
Next == st = "seed" /\ st' = "case" /\ c' \in {x \in Cases(c) : Constructible(x)}
Spec == Init /\ [][Next]_vars

\* ---- what TLC checks on every case (the model-level meaning of C11) ----
FrameOk ==
  st = "case" =>
    LET before == Bytes2Bits(c.dst)  after == Bytes2Bits(c.mem)
    IN /\ c.res = "err" /\ ~c.dev => c.mem = c.dst /\ c.pos = (IF c.k = "w" THEN c.dp ELSE c.so)
       /\ c.res = "ok" /\ c.var # "bit" =>
            /\ c.pos = (IF c.k = "w" THEN c.dp ELSE c.so) + c.n
            /\ \A j \in 1..Len(before) : (j <= c.dp \/ j > c.dp + c.n) => after[j] = before[j]
            /\ \A j \in 1..c.n : after[c.dp + j] = Bytes2Bits(c.src)[c.so + j]
       /\ c.k = "w" /\ c.be = "buf" /\ ~c.dev => Len(c.mem) = CeilDiv8(c.pos)

Emit == st = "case" => PrintT(<<"REPLAY", ToJson(c)>>)
=============================================================================
