------------------------------ MODULE ByteFaults ------------------------------
(***************************************************************************)
(* C04 for the byte-oriented decoders (protobuf reader, DER reader): the   *)
(* fault model.  A fault is a descriptor [k, pos, a]; Apply(bytes, f) is   *)
(* the corrupted input.  Descriptors are independent of the seed encoding  *)
(* they are applied to (every valid encoding the real writers produce for  *)
(* the protobuf zoo / the DER vectors), so TLC enumerates them once:       *)
(*   flip   one bit of one octet             a = bit 0..7                  *)
(*   trunc  cut the input at pos                                           *)
(*   del    remove the octet at pos                                        *)
(*   ins    insert an interesting octet at pos     a = index               *)
(*   set    overwrite the octet at pos             a = index               *)
(*   splice overwrite from pos with a crafted hostile field  a = index     *)
(*   raw    the input is the descriptor's own octets (all short strings)   *)
(* Sequences of faults are applied left to right (fault_sequences).        *)
(***************************************************************************)
EXTENDS Integers, Sequences

\* octets that are structurally interesting for varints, wire types, DER lengths and tags
Interesting == <<0, 1, 2, 7, 8, 10, 18, 26, 127, 128, 129, 130, 132, 136, 137, 255, 31, 48, 160, 11, 12, 15>>

Rep(x, n) == [i \in 1..n |-> x]

\* crafted hostile fields: varints that overflow, lengths far beyond the input, reserved wire types, truncated fixed-width
\* fields (protobuf); long-form / indefinite / oversized lengths, high-tag-number identifiers, over-long integers (DER)
Evil == <<
  Rep(255, 10),                                   \* 10-octet varint, all continuation bits
  Rep(255, 8), Rep(255, 4), <<127>> \o Rep(255, 7), \* fixed-width fields / trailers at their largest values
  Rep(255, 9) \o <<1>>,                           \* largest terminated varint (2^64 - 1 and above)
  Rep(255, 11),                                   \* 11 octets
  <<18, 127, 65>>,                                \* field 2, LEN 127, one octet of content
  <<10, 255, 255, 255, 255, 255, 255, 255, 255, 255, 1>>,   \* LEN = 2^64 - 1
  <<10, 128, 128, 128, 128, 8>>,                  \* LEN = 2^31
  <<10, 255, 255, 255, 255, 15>>,                 \* LEN = 2^32 - 1
  <<10, 2, 1, 2>>,                                \* LEN 2 (a BIT STRING field shorter than its trailer)
  <<10, 0>>, <<10, 1>>,                           \* empty / truncated LEN content
  <<0>>, <<0, 0>>,                                \* field number 0
  <<11>>, <<12>>, <<14>>, <<15>>,                 \* wire types 3, 4, 6, 7
  <<9, 1, 2>>, <<13, 1>>,                         \* truncated fixed64 / fixed32
  <<8, 128>>,                                     \* varint cut after a continuation octet
  <<250, 255, 255, 255, 255, 255, 255, 255, 255, 1, 1>>,    \* field number 2^61
  <<10, 4, 10, 2, 10, 0>>,                        \* nested LEN in LEN in LEN
  <<128>>, <<129>>, <<129, 255>>, <<130, 255, 255>>,         \* DER: indefinite, long form 1 / 2 octets
  <<132, 255, 255, 255, 255>>, <<136>> \o Rep(255, 8), <<137>> \o Rep(255, 9), <<255>>,   \* 4 / 8 / 9 length octets, reserved 0xFF
  <<31, 255, 255, 255, 255, 255, 255, 255, 255, 255, 127>>,  \* high tag number form beyond 64 bits
  <<31, 128>>, <<31>>,                            \* high tag number form, unterminated
  <<2, 9>> \o Rep(255, 9), <<2, 0>>, <<1, 2, 0, 0>>,         \* INTEGER of 9 / 0 octets, BOOLEAN of 2 octets
  \* long-form lengths whose LOW octet alone would be a legal content length (a length compared in one octet passes)
  <<130, 1, 0>>, <<130, 1, 8>>, <<130, 2, 4>>, <<131, 1, 0, 1>>, <<132, 1, 0, 0, 8>>,
  <<2, 130, 1, 0>>, <<2, 130, 1, 8>>, <<2, 130, 10, 3>>, <<10, 130, 1, 1>>, <<2, 132, 255, 255, 255, 8>>
>>

Kinds == {"flip", "trunc", "del", "ins", "set", "splice"}
Param(k) ==
  CASE k = "flip" -> 0..7
    [] k \in {"trunc", "del"} -> {0}
    [] k \in {"ins", "set"} -> 1..Len(Interesting)
    [] k = "splice" -> 1..Len(Evil)
Fault(k, pos, a) == [k |-> k, pos |-> pos, a |-> a]
Faults(maxPos) == UNION {{Fault(k, p, a) : p \in 0..maxPos, a \in Param(k)} : k \in Kinds}

Bit(x, i) == (x \div (2 ^ i)) % 2
FlipBit(x, i) == IF Bit(x, i) = 1 THEN x - 2 ^ i ELSE x + 2 ^ i
Take(b, n) == SubSeq(b, 1, n)
Drop(b, n) == SubSeq(b, n + 1, Len(b))

\* positions beyond the input leave it unchanged (the replay skips descriptors that do not apply)
Applies(b, f) == IF f.k \in {"ins", "trunc", "splice"} THEN f.pos <= Len(b) ELSE f.pos < Len(b)
Apply(b, f) ==
  IF ~Applies(b, f) THEN b
  ELSE CASE f.k = "flip" -> [b EXCEPT ![f.pos + 1] = FlipBit(@, f.a)]
         [] f.k = "trunc" -> Take(b, f.pos)
         [] f.k = "del" -> Take(b, f.pos) \o Drop(b, f.pos + 1)
         [] f.k = "ins" -> Take(b, f.pos) \o <<Interesting[f.a]>> \o Drop(b, f.pos)
         [] f.k = "set" -> [b EXCEPT ![f.pos + 1] = Interesting[f.a]]
         [] f.k = "splice" -> Take(b, f.pos) \o Evil[f.a] \o Drop(b, f.pos + Len(Evil[f.a]))
RECURSIVE ApplyAll(_, _)
ApplyAll(b, fs) == IF fs = <<>> THEN b ELSE ApplyAll(Apply(b, Head(fs)), Tail(fs))
=============================================================================
