------------------------------- MODULE ProtoPrim -------------------------------
(***************************************************************************)
(* C17 / C18 at the primitive level: the protobuf wire primitives over     *)
(* arbitrary-precision numbers (Big), so that every 64-bit boundary can be *)
(* stated although TLC's integers end at 2^31:                             *)
(*   Varint(x)      base-128, least significant group first, 0 <= x < 2^64*)
(*   ZigZag(v, w)   (v << 1) ^ (v >> (w - 1)) for w in {32, 64}            *)
(*   Tag(f, wt)     Varint(8 f + wt)                                       *)
(*   SFixed32(v)    four octets, little endian, two's complement           *)
(* written from the protobuf encoding specification.                       *)
(***************************************************************************)
EXTENDS Big, Bits

\* the j-th 7-bit group (j = 1 is the least significant) of a magnitude below 2^70
Group(m, j) == BitsNat(SubSeq(MagBits(m, 70), 70 - 7 * j + 1, 70 - 7 * (j - 1)))
NGroups(m) == LET b == MagBitLen(m) IN IF b = 0 THEN 1 ELSE (b + 6) \div 7
Varint(x) == LET n == NGroups(x.m) IN [j \in 1..n |-> Group(x.m, j) + (IF j < n THEN 128 ELSE 0)]

\* zig-zag: non-negative v -> 2 v, negative v -> 2 |v| - 1
ZigZag(v) == IF v.neg THEN BSub(BAdd(BNeg(v), BNeg(v)), BOfInt(1)) ELSE BAdd(v, v)
Tag(field, wt) == Varint(BAdd(BOfInt(wt), BAdd(BAdd(BAdd(field, field), BAdd(field, field)), BAdd(BAdd(field, field), BAdd(field, field)))))
SFixed32(v) == LET b == TwosBits(v, 32) IN [j \in 1..4 |-> BitsNat(SubSeq(b, 32 - 8 * j + 1, 32 - 8 * (j - 1)))]

\* decoding a varint (for the round trip on the specification): the 7-bit groups, most significant first, as one 80-bit
\* magnitude, cut into limbs
DecVarint(os) ==
  LET g(j) == IF j <= Len(os) THEN os[j] % 128 ELSE 0
      v == Pad(10) \o Concat([q \in 1..10 |-> NatBits(g(11 - q), 7)])
  IN Mk(FALSE, [i \in 1..NL |-> BitsNat(SubSeq(v, 80 - 16 * i + 1, 80 - 16 * (i - 1)))])

\* The two writer back ends.  The growable one always succeeds with the message; the fixed-slice one has `cap` octets:
\* it succeeds with the same octets iff the message fits, and otherwise must report an error - there is no prefix of a
\* protobuf message that it could rightly call written (C17: "both back ends ... produce identical bytes").
\* Replayed by the harness for every capacity 0..48, the middle and the last three (`vzoo proto`).
SliceWrite(cap, msg) == IF Len(msg) <= cap THEN [ok |-> TRUE, bytes |-> msg] ELSE [ok |-> FALSE, bytes |-> <<>>]
=============================================================================
