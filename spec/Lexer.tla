-------------------------------- MODULE Lexer --------------------------------
(***************************************************************************)
(* C13.  Lexical analysis of ASN.1 (X.680 clause 12, as far as asn1rs      *)
(* supports it): white space and comments separate lexical items and are   *)
(* otherwise insignificant; "--" starts a comment that ends at the end of  *)
(* the line; "/*" ... "*/" comments nest; separator characters are items   *)
(* of their own; every other maximal run of characters is one text item.   *)
(* An item's location is the line and column of its first character.       *)
(*                                                                         *)
(* Characters are one-letter strings: "x" "y" text, "S" space, "T" tab,    *)
(* "R" carriage return, "N" line feed, "-" "/" "*" themselves,             *)
(* ":" "{" separator characters.  A token is <<text, line, col, kind>>.    *)
(*                                                                         *)
(* LexSpec is the functional definition in phases (positions, comment      *)
(* marking, grouping).  TokImpl is shaped like Tokenizer::parse: one step  *)
(* per character with the state (line, column, nest level, pending token). *)
(***************************************************************************)
EXTENDS Integers, Sequences, FiniteSets

CONSTANT Dev

Sigma == {"x", "y", "S", "T", "R", "N", "-", "/", "*", ":", "{"}
IsSep(ch)   == ch \in {":", "{"}
IsBlank(ch) == ch \in {"S", "T", "R"}

\* ---- phase 1: line / column of every character -------------------------
\* a carriage return directly before a line feed belongs to the line break and takes no column
RECURSIVE PosR(_, _, _, _, _)
PosR(s, i, ln, cl, acc) ==
  IF i > Len(s) THEN acc
  ELSE IF s[i] = "N" THEN PosR(s, i + 1, ln + 1, 1, Append(acc, <<ln, cl>>))
  ELSE PosR(s, i + 1, ln, cl + 1, Append(acc, <<ln, cl>>))
Positions(s) == PosR(s, 1, 1, 1, <<>>)

\* ---- phase 2: which characters belong to a comment ----------------------
\* returns <<marks, nest at the end>>; marks[i] = TRUE iff character i is part of a comment
RECURSIVE MarkR(_, _, _, _, _)
MarkR(s, i, nest, inLine, acc) ==
  IF i > Len(s) THEN <<acc, nest>>
  ELSE LET ch == s[i]
           nx == IF i < Len(s) THEN s[i + 1] ELSE "N"
       IN IF ch = "N" THEN MarkR(s, i + 1, nest, FALSE, Append(acc, FALSE))          \* a line break ends a "--" comment, not a block comment
          ELSE IF nest > 0
               THEN IF ch = "*" /\ nx = "/" THEN MarkR(s, i + 2, nest - 1, FALSE, acc \o <<TRUE, TRUE>>)
                    ELSE IF ch = "/" /\ nx = "*" THEN MarkR(s, i + 2, nest + 1, FALSE, acc \o <<TRUE, TRUE>>)
                    ELSE MarkR(s, i + 1, nest, FALSE, Append(acc, TRUE))
          ELSE IF inLine THEN MarkR(s, i + 1, 0, TRUE, Append(acc, TRUE))
          ELSE IF ch = "-" /\ nx = "-" THEN MarkR(s, i + 2, 0, TRUE, acc \o <<TRUE, TRUE>>)
          ELSE IF ch = "/" /\ nx = "*" THEN MarkR(s, i + 2, 1, FALSE, acc \o <<TRUE, TRUE>>)
          ELSE MarkR(s, i + 1, 0, FALSE, Append(acc, FALSE))
Marks(s) == MarkR(s, 1, 0, FALSE, <<>>)
Unterminated(s) == Marks(s)[2] > 0

\* ---- phase 3: grouping ---------------------------------------------------
\* white space and comments end the current text item
RECURSIVE GroupR(_, _, _, _, _, _)
GroupR(s, pos, mk, i, cur, acc) ==
  LET flush == IF cur = <<>> THEN acc ELSE Append(acc, cur)
  IN IF i > Len(s) THEN flush
     ELSE LET ch == s[i]
          IN IF mk[i] \/ IsBlank(ch) \/ ch = "N" THEN GroupR(s, pos, mk, i + 1, <<>>, flush)
             ELSE IF IsSep(ch) THEN GroupR(s, pos, mk, i + 1, <<>>, Append(flush, <<<<ch>>, pos[i][1], pos[i][2], "sep">>))
             ELSE IF cur = <<>> THEN GroupR(s, pos, mk, i + 1, <<<<ch>>, pos[i][1], pos[i][2], "txt">>, acc)
             ELSE GroupR(s, pos, mk, i + 1, <<Append(cur[1], ch), cur[2], cur[3], "txt">>, acc)
LexSpec(s) == GroupR(s, Positions(s), Marks(s)[1], 1, <<>>, <<>>)

\* token sequence without locations
Strip(ts) == [i \in 1..Len(ts) |-> <<ts[i][1], ts[i][4]>>]

(***************************************************************************)
(* The implementation-shaped machine: Tokenizer::parse                     *)
(*   for each line: for each (column, char): comment states first, then    *)
(*   the match on the character; the pending token `pv` is flushed by      *)
(*   blanks, separators and the end of the line.                           *)
(* Dev "BlockCommentKeepsPending": the '/' '*' arm does not flush pv.      *)
(***************************************************************************)
Flush(pv, ts) == IF pv = <<>> THEN ts ELSE Append(ts, pv)

\* index of the next "N" at or after i (Len(s)+1 if none)
RECURSIVE EndOfLine(_, _)
EndOfLine(s, i) == IF i > Len(s) \/ s[i] = "N" THEN i ELSE EndOfLine(s, i + 1)

RECURSIVE F(_, _, _, _, _, _, _)
F(s, i, ln, cl, nst, pv, ts) ==
  IF i > Len(s) THEN Flush(pv, ts)
  ELSE LET ch == s[i]
           \* str::lines() removes a carriage return that directly precedes the line feed
           nx == IF i < Len(s) /\ s[i + 1] # "N" /\ ~(s[i + 1] = "R" /\ i + 1 < Len(s) /\ s[i + 2] = "N") THEN s[i + 1] ELSE "EOL"
       IN IF ch = "N" THEN F(s, i + 1, ln + 1, 1, nst, <<>>, Flush(pv, ts))
          ELSE IF ch = "R" /\ i < Len(s) /\ s[i + 1] = "N" THEN F(s, i + 1, ln, cl, nst, pv, ts)     \* part of the line break
          ELSE IF nst > 0
               THEN IF ch = "*" /\ nx = "/" THEN F(s, i + 2, ln, cl + 2, nst - 1, pv, ts)
                    ELSE IF ch = "/" /\ nx = "*" THEN F(s, i + 2, ln, cl + 2, nst + 1, pv, ts)
                    ELSE F(s, i + 1, ln, cl + 1, nst, pv, ts)
          ELSE IF ch = "-" /\ nx = "-" THEN F(s, EndOfLine(s, i), ln, cl, nst, pv, ts)
          ELSE IF ch = "/" /\ nx = "*"
               THEN IF "BlockCommentKeepsPending" \in Dev
                    THEN F(s, i + 2, ln, cl + 2, 1, pv, ts)                         \* the code before the fix
                    ELSE F(s, i + 2, ln, cl + 2, 1, <<>>, Flush(pv, ts))            \* X.680 12.6: a comment separates items
          ELSE IF IsSep(ch) THEN F(s, i + 1, ln, cl + 1, nst, <<>>, Append(Flush(pv, ts), <<<<ch>>, ln, cl, "sep">>))
          ELSE IF IsBlank(ch) THEN F(s, i + 1, ln, cl + 1, nst, <<>>, Flush(pv, ts))
          ELSE IF pv = <<>> THEN F(s, i + 1, ln, cl + 1, nst, <<<<ch>>, ln, cl, "txt">>, ts)
          ELSE F(s, i + 1, ln, cl + 1, nst, <<Append(pv[1], ch), pv[2], pv[3], "txt">>, ts)
TokImpl(s) == F(s, 1, 1, 1, 0, <<>>, <<>>)
=============================================================================
