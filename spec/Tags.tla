--------------------------------- MODULE Tags ---------------------------------
(***************************************************************************)
(* C16.  Tags and the canonical order of SET components (X.680 8.6):       *)
(* class UNIVERSAL (0) < APPLICATION (1) < context-specific (2) <          *)
(* PRIVATE (3), then the tag number.  A component's tag is its explicit    *)
(* tag if given; otherwise the tag of its type: the type's own tag for a   *)
(* tagged (referenced) type, the smallest tag of the root alternatives for *)
(* an untagged CHOICE, the universal tag of a builtin type.  Automatic     *)
(* tagging (context 0..n-1 in textual order) applies only when no          *)
(* component of the list carries a tag.                                    *)
(* A tag is <<class, number>>, "no tag" is <<>>.                           *)
(***************************************************************************)
EXTENDS X691, SequencesExt

CompT(t, mode, dflt, tag) == [t |-> t, mode |-> mode, dflt |-> dflt, tag |-> tag]

UniversalOf(t) ==
  CASE t.k = "bool" -> 1 [] t.k = "int" -> 2 [] t.k = "bits" -> 3 [] t.k = "oct" -> 4 [] t.k = "null" -> 5
    [] t.k = "enum" -> 10 [] t.k = "seq" -> (IF t.set THEN 17 ELSE 16) [] t.k = "seqof" -> 16
    [] t.k = "str" -> (CASE t.cs = "utf8" -> 12 [] t.cs = "num" -> 18 [] t.cs = "prt" -> 19 [] t.cs = "ia5" -> 22 [] t.cs = "vis" -> 26)

\* (TagLess, the canonical order of tags, is X691!TagLess: the CHOICE index needs it, too)

RECURSIVE TypeTag(_)
TypeTag(t) ==
  IF "ttag" \in DOMAIN t /\ t.ttag # <<>> THEN t.ttag
  ELSE IF t.k = "choice"
       THEN LET tags == {IF t.atags[i] # <<>> THEN t.atags[i] ELSE TypeTag(t.alts[i]) : i \in 1..t.nroot}     \* root alternatives only
            IN CHOOSE m \in tags : \A x \in tags : x = m \/ TagLess(m, x)
  ELSE <<0, UniversalOf(t)>>

EffTag(c) == IF c.tag # <<>> THEN c.tag ELSE TypeTag(c.t)

\* wire order of the component indices: root group first, each group in canonical tag order
WireOrder(comps, nroot) ==
  LET n == Len(comps)
      auto == \A i \in 1..n : comps[i].tag = <<>>
      Before(i, j) == TagLess(EffTag(comps[i]), EffTag(comps[j]))
  IN IF auto THEN Ident(n)
     ELSE SortSeq(Ident(nroot), Before) \o SortSeq([j \in 1..(n - nroot) |-> nroot + j], Before)

TSetT(comps, nroot, ext) == TSet(comps, nroot, ext, WireOrder(comps, nroot))
=============================================================================
