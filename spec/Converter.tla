------------------------------- MODULE Converter -------------------------------
(***************************************************************************)
(* The file-level front door of the crate (src/converter.rs, what build.rs *)
(* scripts and the command line tool use) as a state machine.              *)
(*                                                                         *)
(*   Load(f)    reads, tokenizes and parses one file; on success the model *)
(*              is appended to the converter, on failure (no such file /   *)
(*              syntax error) the converter is unchanged and the error     *)
(*              says which of the two it was;                              *)
(*   Generate   resolves ALL loaded modules against each other and writes  *)
(*              one Rust file (and one .proto file) per module; if any     *)
(*              loaded module cannot be resolved nothing is reported as    *)
(*              generated and the converter is unchanged (a later Load can *)
(*              supply the missing module).                                *)
(*                                                                         *)
(* The design rule that ties it to C12 / C08: what Generate writes for a   *)
(* module depends only on the SET of successfully loaded files - not on    *)
(* their order, not on failed loads in between, not on earlier Generates,  *)
(* not on loading a file twice.  TLC enumerates every history of D steps;  *)
(* the harness replays each one on the real Converter and compares result  *)
(* classes, file names and file contents with the reference for that set   *)
(* (a fresh Converter, files loaded once in a fixed order).                *)
(***************************************************************************)
EXTENDS Naturals, Sequences, FiniteSets, SequencesExt, TLC, Json

CONSTANT D

\* the files (texts: tools/props/c12.py)
Good == {"main", "lib", "solo", "orphan"}     \* main imports values and a type from lib; orphan imports from a module nobody has
Files == Good \cup {"bad", "missing"}         \* bad: syntax error; missing: no such file
ModuleOf(f) == CASE f = "main" -> "Main" [] f = "lib" -> "Lib" [] f = "solo" -> "Solo-Two" [] f = "orphan" -> "Orphan"

VARIABLES loaded,    \* files loaded successfully, in order (a file may occur twice)
          hist       \* the steps so far with their results

SetOf(s) == {s[i] : i \in 1..Len(s)}
Resolvable(S) == ("main" \in S => "lib" \in S) /\ "orphan" \notin S

LoadResult(f) == IF f = "missing" THEN "io" ELSE IF f = "bad" THEN "model" ELSE "ok"
Load(f) ==
  /\ loaded' = IF LoadResult(f) = "ok" THEN Append(loaded, f) ELSE loaded
  /\ hist' = Append(hist, [op |-> "load", f |-> f, res |-> LoadResult(f), mods |-> <<>>])
Generate ==
  /\ loaded' = loaded
  /\ hist' = Append(hist, IF Resolvable(SetOf(loaded))
                          THEN [op |-> "gen", f |-> "", res |-> "ok", mods |-> SetToSeq({ModuleOf(f) : f \in SetOf(loaded)})]
                          ELSE [op |-> "gen", f |-> "", res |-> "resolve", mods |-> <<>>])

Init == loaded = <<>> /\ hist = <<>>
Next == Len(hist) < D /\ (Generate \/ \E f \in Files : Load(f))
Spec == Init /\ [][Next]_<<loaded, hist>>

\* design level: a failed step changes nothing; what a successful Generate reports is a function of the set of loaded files
Atomic == \A i \in 1..Len(hist) : hist[i].res \notin {"ok"} => hist[i].mods = <<>>
SetDetermined ==
  \A i \in 1..Len(hist) : hist[i].op = "gen" /\ hist[i].res = "ok" =>
     LET S == {hist[j].f : j \in {k \in 1..(i - 1) : hist[k].op = "load" /\ hist[k].res = "ok"}}
     IN {hist[i].mods[k] : k \in 1..Len(hist[i].mods)} = {ModuleOf(f) : f \in S}
\* one replay line per complete history that ends with a Generate (the others are prefixes of these)
Emit == Len(hist) = D /\ hist[D].op = "gen" => PrintT(<<"REPLAY", ToJson([hist |-> hist])>>)
=============================================================================
