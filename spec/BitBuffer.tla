----------------------------- MODULE BitBuffer -----------------------------
(***************************************************************************)
(* C11.  The growable BitBuffer as a state machine over the functional     *)
(* outcomes of BitOps (used by MC_BitBuffer and by Trace_BitBuffer).       *)
(***************************************************************************)
EXTENDS BitOps

(***************************************************************************)
(* The BitBuffer as a state machine (used by MC_BitBuffer and by           *)
(* Trace_BitBuffer).                                                       *)
(***************************************************************************)
VARIABLES mem, wpos, rpos

bbvars == <<mem, wpos, rpos>>

BBInit == mem = <<>> /\ wpos = 0 /\ rpos = 0

BBWrite(src, so, n, res) ==
  LET o == WriteOutcome(TRUE, src, so, mem, wpos, n)
  IN res = o.res /\ mem' = o.mem /\ wpos' = o.pos /\ rpos' = rpos

\* with_write_position_at(p, |b| b.write_bit(bit)) for a position that was written before
BBPatch(p, bit) ==
  /\ p < wpos
  /\ mem' = Overlay(mem, p, <<bit>>) /\ UNCHANGED <<wpos, rpos>>

BBReadBit(res, bit) ==
  LET o == ReadBitOutcome(mem, wpos, rpos)
  IN res = o.res /\ (o.res = "ok" => bit = o.bit) /\ rpos' = o.pos /\ UNCHANGED <<mem, wpos>>

BBRead(dst, dp, n, res, out) ==
  LET o == ReadOutcome(mem, wpos, rpos, dst, dp, n)
  IN res = o.res /\ out = o.mem /\ rpos' = o.pos /\ UNCHANGED <<mem, wpos>>

BBResetRead == rpos' = 0 /\ UNCHANGED <<mem, wpos>>
BBClear == mem' = <<>> /\ wpos' = 0 /\ rpos' = 0

\* "A growable bit buffer is always exactly ceil(bit_len/8) bytes long with zero padding bits."
GrowableExact == Len(mem) = 8 * CeilDiv8(wpos)
PaddingZero   == \A i \in (wpos + 1)..Len(mem) : mem[i] = 0
=============================================================================
