------------------------------- MODULE MC_Literals -------------------------------
(***************************************************************************)
(* R for C07 (default literals, value assignments): every hstring of up to *)
(* 4 digits over a digit alphabet that has both halves of an octet set and *)
(* clear, every bstring of up to 10 bits, and the bstrings of 15..17 and   *)
(* 23..25 bits built from a few patterns - each with the octets the model  *)
(* must carry - and every character string of up to 4 characters over      *)
(* {a, blank, comma}.  The harness prints each as value assignment and as DEFAULT *)
(* of an OCTET STRING and of a BIT STRING component and compares the       *)
(* parsed model's literal with `octets`.                                   *)
(***************************************************************************)
EXTENDS Literals, TLC, Json, FiniteSets

VARIABLES st, c
Digits == {0, 7, 8, 10, 15}
RECURSIVE SeqsUpTo(_, _)
SeqsUpTo(S, n) == IF n = 0 THEN {<<>>} ELSE LET r == SeqsUpTo(S, n - 1) IN r \cup {Append(s, x) : s \in {t \in r : Len(t) = n - 1}, x \in S}
Patterns(n) == {[i \in 1..n |-> 1], [i \in 1..n |-> 0], [i \in 1..n |-> i % 2], [i \in 1..n |-> IF i = 1 THEN 1 ELSE 0],
                [i \in 1..n |-> IF i = n THEN 1 ELSE 0], [i \in 1..n |-> IF i % 3 = 0 THEN 1 ELSE 0]}
HexCases == {[kind |-> "hex", src |-> d, octets |-> OctetsOfHex(d), whole |-> Whole("hex", d), lower |-> lw]
             : d \in SeqsUpTo(Digits, 4), lw \in BOOLEAN}
BinCases == {[kind |-> "bin", src |-> b, octets |-> OctetsOfBits(b), whole |-> Whole("bin", b), lower |-> lw]
             : b \in SeqsUpTo({0, 1}, 10) \cup UNION {Patterns(n) : n \in {15, 16, 17, 23, 24, 25, 32, 64}}, lw \in BOOLEAN}

\* character strings: every string of up to 4 characters over {a, blank, comma} - blanks are not tokens (the model rebuilds
\* them from token columns), a comma is a separator token of its own; empty, leading, trailing and repeated blanks included
StrCases == {[kind |-> "str", src |-> s, octets |-> s, whole |-> TRUE, lower |-> FALSE] : s \in SeqsUpTo({97, 32, 44}, 4)}

Init == st = "seed" /\ c \in {"hex", "bin", "str"}
Next == st = "seed" /\ st' = "case" /\ c' \in (IF c = "hex" THEN HexCases ELSE IF c = "bin" THEN BinCases ELSE StrCases)
Spec == Init /\ [][Next]_<<st, c>>

\* the reading is a total function with the right number of octets, each an octet, and keeps the number the notation denotes
WellFormed ==
  st = "case" /\ c.kind # "str" =>
    /\ Len(c.octets) = (IF c.kind = "hex" THEN (Len(c.src) + 1) \div 2 ELSE (Len(c.src) + 7) \div 8)
    /\ \A j \in 1..Len(c.octets) : c.octets[j] \in 0..255
    /\ (Len(c.src) <= 6 => NumOf(c.octets, 256) = NumOf(c.src, IF c.kind = "hex" THEN 16 ELSE 2))
Emit == st = "case" => PrintT(<<"REPLAY", ToJson(c)>>)
=============================================================================
