---------------------------------- MODULE Der ----------------------------------
(***************************************************************************)
(* C20.  The implemented part of the basic encoding rules (X.690):         *)
(* identifier octet (8.1.2, tag numbers below 31), length in short and     *)
(* long form (8.1.3), BOOLEAN (8.2; any non-zero octet is TRUE when        *)
(* reading), INTEGER contents as the writer emits them (big endian, the    *)
(* leading all-zero octets removed, at least one octet; negative numbers   *)
(* keep all eight octets).  Octets are integers 0..255.                    *)
(***************************************************************************)
EXTENDS Bits, Big

Octets(m, k) == Bits2Bytes(MagBits(m, 8 * k))            \* magnitude as k octets, big endian

EncTag(cls, num) == <<64 * cls + num>>                    \* cls: 0 UNIVERSAL 1 APPLICATION 2 context 3 PRIVATE; num < 31
DecTag(o) == <<o \div 64, o % 64>>

EncLen(n) ==                                              \* n: Big, 0 <= n < 2^64
  IF BLeq(n, BOfInt(127)) THEN <<BToInt(n)>>
  ELSE LET k == OctetsUnsigned(n) IN <<128 + k>> \o Octets(n.m, k)

EncBool(b) == <<IF b THEN 1 ELSE 0>>
\* identifier, length, contents: what the typed writer (BasicWriter) emits for a primitive value
TLV(cls, num, content) == EncTag(cls, num) \o EncLen(BOfInt(Len(content))) \o content
DecBool(o) == o # 0

\* 64-bit two's complement pattern of v as an unsigned Big
Pattern(v) == IF v.neg THEN BAdd(BPow2(64), v) ELSE v
EncInt(v) == LET p == Pattern(v) IN Octets(p.m, OctetsUnsigned(p))     \* i64 and u64: strip leading zero octets, keep one

\* value of k octets read as the reader does (zero extended into 8 octets, then reinterpreted)
Shift8(x) == Mk(FALSE, [i \in 1..NL |-> ((x.m[i] * 256) % B) + (IF i > 1 THEN x.m[i - 1] \div 256 ELSE 0)])
RECURSIVE UnsignedOf(_, _, _)
UnsignedOf(os, i, acc) == IF i > Len(os) THEN acc ELSE UnsignedOf(os, i + 1, BAdd(Shift8(acc), BOfInt(os[i])))
DecU64(os) == UnsignedOf(os, 1, BZero)
DecI64(os) == LET u == DecU64(os) IN IF BLeq(BPow2(63), u) THEN BSub(u, BPow2(64)) ELSE u
=============================================================================
