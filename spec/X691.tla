-------------------------------- MODULE X691 --------------------------------
(***************************************************************************)
(* C02 (and the oracle of C01, C03, C05, C06, C16): the abstract schema /  *)
(* value universe and the canonical unaligned PER encoding Enc(t, v) of    *)
(* ITU-T X.691, clause by clause, written from the standard.               *)
(*                                                                         *)
(* Types are records discriminated by k:                                   *)
(*   bool | null | int(con) | enum(nroot, nadd, ext) | str(cs, sz) |       *)
(*   oct(sz) | bits(sz) | seqof(of, sz) |                                  *)
(*   seq(set, comps, nroot, ext, ord) | choice(alts, nroot, ext)           *)
(* con = [c: "none"|"rng", lb, ub, ext], sz likewise with c: "none"|"sz".  *)
(* comps[i] = [t, mode: "man"|"opt"|"def", dflt: <<>> | <<value>>]; the    *)
(* first nroot components are the extension root, the others the           *)
(* extension additions; ord is the wire order of the component indices     *)
(* (textual for SEQUENCE, canonical tag order for SET, root first).        *)
(* Values: BOOLEAN | 0 (NULL) | Int | enum index | seq of code points |    *)
(* seq of octets | seq of bits | seq of values | seq over comps of         *)
(* <<>> (absent) / <<v>> | [i, v] for a choice.                            *)
(***************************************************************************)
EXTENDS X691Prim

NoCon == [c |-> "none", lb |-> 0, ub |-> 0, ext |-> FALSE]
Rng(lb, ub, ext) == [c |-> "rng", lb |-> lb, ub |-> ub, ext |-> ext]
\* (lb..MAX): no upper bound - a semi-constrained whole number (13.2.3 -> 11.7), whatever lb is (also 0)
Semi(lb) == [c |-> "semi", lb |-> lb, ub |-> 0, ext |-> FALSE]
NoSz == [c |-> "none", lb |-> 0, ub |-> 0, ext |-> FALSE]
Sz(lb, ub, ext) == [c |-> "sz", lb |-> lb, ub |-> ub, ext |-> ext]
\* SIZE(lb..MAX): an upper bound beyond every length that is explored; any ub >= 64K selects the same
\* (unconstrained) length determinant, 11.9.4.2, and the lower bound stays in force
SzMAX == 1073741823

TBool == [k |-> "bool"]
TNull == [k |-> "null"]
TInt(con) == [k |-> "int", con |-> con]
TEnum(nroot, nadd, ext) == [k |-> "enum", nroot |-> nroot, nadd |-> nadd, ext |-> ext]
\* a CHOICE whose alternatives carry explicit tags atags[i] = <<class, number>> (class 0 UNIVERSAL < 1 APPLICATION < 2 context < 3 PRIVATE)
TChoiceT(alts, atags, nroot, ext) == [k |-> "choice", alts |-> alts, nroot |-> nroot, ext |-> ext, atags |-> atags]
\* X.680 8.6, the canonical order of tags
TagLess(a, b) == a[1] < b[1] \/ (a[1] = b[1] /\ a[2] < b[2])
\* 23.2: the index of a root alternative counts the root alternatives "in the canonical order specified in X.680 8.6"; a value
\* names the alternative by its position in the declaration (as the generated Rust enum does); additions keep their order
ChoiceIndex(t, i) ==
  IF "atags" \in DOMAIN t /\ i < t.nroot /\ (\A j \in 1..t.nroot : t.atags[j] # <<>>)
  THEN Cardinality({j \in 1..t.nroot : TagLess(t.atags[j], t.atags[i + 1])})
  ELSE i
\* ... with explicit enumeration values nums (one per item in the order of declaration; X.680 19: distinct, the additions ascending)
TEnumN(nums, nroot, ext) == [k |-> "enum", nroot |-> nroot, nadd |-> Len(nums) - nroot, ext |-> ext, nums |-> nums]
\* 14.1: "the enumerations in the enumeration root shall be sorted into ascending order by their enumeration value, and shall then
\* be assigned an enumeration index starting with zero"; a value is the item's position in the declaration (0-based), as in the
\* generated Rust enum.  Additions keep their order (they are declared ascending).
EnumIndex(t, v) ==
  IF "nums" \in DOMAIN t /\ v < t.nroot
  THEN LET smaller == {j \in 1..t.nroot : t.nums[j] < t.nums[v + 1]} IN Cardinality(smaller)
  ELSE v
TStr(cs, sz) == [k |-> "str", cs |-> cs, sz |-> sz]
TOct(sz) == [k |-> "oct", sz |-> sz]
TBits(sz) == [k |-> "bits", sz |-> sz]
\* ... declared with a NamedBitList.  16.2 / 16.3: trailing 0 bits are then removed (never below the lower bound of the size)
\* or added (up to it) before the value is encoded - values that differ in trailing 0 bits are the same abstract value
TBitsN(sz) == [k |-> "bits", sz |-> sz, named |-> TRUE]
RECURSIVE StripZeros(_, _)
StripZeros(v, lb) == IF Len(v) > lb /\ v[Len(v)] = 0 THEN StripZeros(SubSeq(v, 1, Len(v) - 1), lb) ELSE v
NamedBits(t, v) ==
  IF "named" \notin DOMAIN t THEN v
  ELSE LET lb == IF t.sz.c = "sz" THEN t.sz.lb ELSE 0
           s == StripZeros(v, lb)
       IN s \o [j \in 1..(lb - Len(s)) |-> 0]
TSeqOf(of, sz) == [k |-> "seqof", of |-> of, sz |-> sz]
Comp(t, mode, dflt) == [t |-> t, mode |-> mode, dflt |-> dflt]
Ident(n) == [i \in 1..n |-> i]
TSeq(comps, nroot, ext) ==
  [k |-> "seq", set |-> FALSE, comps |-> comps, nroot |-> nroot, ext |-> ext, ord |-> Ident(Len(comps))]
TSet(comps, nroot, ext, ord) ==
  [k |-> "seq", set |-> TRUE, comps |-> comps, nroot |-> nroot, ext |-> ext, ord |-> ord]
TChoice(alts, nroot, ext) == [k |-> "choice", alts |-> alts, nroot |-> nroot, ext |-> ext]

(***************************************************************************)
(* 30: restricted character strings                                        *)
(***************************************************************************)
PrintableChars == {32, 39, 40, 41, 61, 63} \cup 43..58 \cup 65..90 \cup 97..122
Alphabet(cs) ==
  CASE cs = "ia5" -> 0..127
    [] cs = "vis" -> 32..126
    [] cs = "prt" -> PrintableChars
    [] cs = "num" -> {32} \cup 48..57
\* 30.5: b bits per character; the character value itself when the largest one fits in b bits,
\* otherwise its index in the canonical order (NumericString: ' ' -> 0, '0'..'9' -> 1..10)
CharBits(cs, ch) == IF cs = "num" THEN NatBits(IF ch = 32 THEN 0 ELSE ch - 47, 4) ELSE NatBits(ch, 7)

\* UTF-8 octets of code points below 65536
Utf8Of(ch) ==
  IF ch < 128 THEN <<ch>>
  ELSE IF ch < 2048 THEN <<192 + (ch \div 64), 128 + (ch % 64)>>
  ELSE <<224 + (ch \div 4096), 128 + ((ch \div 64) % 64), 128 + (ch % 64)>>
Utf8(v) == Concat([j \in 1..Len(v) |-> Utf8Of(v[j])])

(***************************************************************************)
(* 11.2 open type: the encoding padded to whole octets, at least one,      *)
(* carried as an unconstrained octet string                                *)
(***************************************************************************)
OpenType(bits) ==
  LET b == IF bits = <<>> THEN Pad(8) ELSE bits \o Pad(PadTo8(Len(bits)))
      octets == [j \in 1..(Len(b) \div 8) |-> SubSeq(b, 8 * j - 7, 8 * j)]
  IN PlanBits([pre |-> <<>>, segs |-> FragPlan(Len(octets))], octets)

InCon(con, x) == con.c = "none" \/ (x >= con.lb /\ x <= con.ub)

EncSized(sz, items) ==
  LET p == SizedPlan(sz.c = "sz", sz.lb, sz.c = "sz", sz.ub, sz.ext, Len(items))
  IN IF p.ok THEN Ok(PlanBits(p, items)) ELSE Err

(* 13: integer *)
EncInt(con, x) ==
  IF con.c = "none" THEN UnconstrainedB(BOfInt(x))
  ELSE IF con.c = "semi" THEN SemiConstrainedB(BOfInt(con.lb), BOfInt(x))
  ELSE IF ~con.ext THEN Constrained(con.lb, con.ub, x)
  ELSE IF InCon(con, x) THEN Cat(Ok(<<0>>), Constrained(con.lb, con.ub, x))
  ELSE Cat(Ok(<<1>>), UnconstrainedB(BOfInt(x)))

\* the same for values beyond TLC's integers (a type TIntB carries its values as numbers of Big.tla; the bounds stay small)
TIntB(con) == [k |-> "int", con |-> con, big |-> TRUE]
EncIntB(con, xb) ==
  IF con.c = "none" THEN UnconstrainedB(xb)
  ELSE LET lb == BOfInt(con.lb) ub == BOfInt(con.ub) IN
       IF ~con.ext THEN ConstrainedB(lb, ub, xb)
       ELSE IF BLeq(lb, xb) /\ BLeq(xb, ub) THEN Cat(Ok(<<0>>), ConstrainedB(lb, ub, xb))
       ELSE Cat(Ok(<<1>>), UnconstrainedB(xb))

IsRoot(t, i) == i <= t.nroot
\* is component i transmitted? (absent OPTIONAL, or DEFAULT equal to its default: no)
Present(t, v, i) == v[i] # <<>> /\ (t.comps[i].mode = "def" => v[i] # t.comps[i].dflt)
\* the sub-sequence of ord whose components satisfy P
RECURSIVE FilterR(_, _, _, _)
FilterR(s, i, P(_), acc) == IF i > Len(s) THEN acc ELSE FilterR(s, i + 1, P, IF P(s[i]) THEN Append(acc, s[i]) ELSE acc)
Filter(s, P(_)) == FilterR(s, 1, P, <<>>)

RECURSIVE Enc(_, _), EncSeq(_, _), EncChoice(_, _), EncList(_, _)

(* 19 / 21: sequence and set *)
EncSeq(t, v) ==
  LET n == Len(t.comps)
      extPresent == \E i \in 1..n : ~IsRoot(t, i) /\ Present(t, v, i)
      optRoot  == Filter(t.ord, LAMBDA i : IsRoot(t, i) /\ t.comps[i].mode # "man")
      rootPres == Filter(t.ord, LAMBDA i : IsRoot(t, i) /\ Present(t, v, i))
      adds     == Filter(t.ord, LAMBDA i : ~IsRoot(t, i))
      addPres  == Filter(t.ord, LAMBDA i : ~IsRoot(t, i) /\ Present(t, v, i))
      rootEnc  == [j \in 1..Len(rootPres) |-> Enc(t.comps[rootPres[j]].t, v[rootPres[j]][1])]
      addEnc   == [j \in 1..Len(addPres) |-> Enc(t.comps[addPres[j]].t, v[addPres[j]][1])]
  IN IF \E i \in 1..n : IsRoot(t, i) /\ t.comps[i].mode = "man" /\ v[i] = <<>> THEN Err     \* not a value of the type
     ELSE IF (\E j \in 1..Len(rootEnc) : ~rootEnc[j].ok) \/ (\E j \in 1..Len(addEnc) : ~addEnc[j].ok) THEN Err
     ELSE Ok((IF t.ext THEN <<BoolBit(extPresent)>> ELSE <<>>)                                \* 19.1 extension bit
             \o [j \in 1..Len(optRoot) |-> BoolBit(Present(t, v, optRoot[j]))]               \* 19.2 / 19.3 preamble
             \o Concat([j \in 1..Len(rootEnc) |-> rootEnc[j].bits])                          \* 19.4 / 19.5
             \o (IF extPresent
                 THEN NormallySmall(Len(adds) - 1).bits                                      \* 19.8 number of additions
                      \o [j \in 1..Len(adds) |-> BoolBit(Present(t, v, adds[j]))]            \* 19.7 presence bitmap
                      \o Concat([j \in 1..Len(addEnc) |-> OpenType(addEnc[j].bits)])         \* 19.9 open types
                 ELSE <<>>))

(* 23: choice *)
EncChoice(t, v) ==
  IF v.i < 0 \/ v.i >= Len(t.alts) THEN Err
  ELSE LET idx == Index(t.nroot, t.ext, ChoiceIndex(t, v.i))
           body == Enc(t.alts[v.i + 1], v.v)
       IN IF ~idx.ok \/ ~body.ok THEN Err
          ELSE IF v.i < t.nroot THEN Ok(idx.bits \o body.bits) ELSE Ok(idx.bits \o OpenType(body.bits))

(* 20: sequence-of / set-of *)
EncList(t, v) ==
  LET items == [j \in 1..Len(v) |-> Enc(t.of, v[j])]
  IN IF \E j \in 1..Len(v) : ~items[j].ok THEN Err ELSE EncSized(t.sz, [j \in 1..Len(v) |-> items[j].bits])

EncStr(t, v) ==
  IF t.cs = "utf8"
  THEN \* 30.3: not a known-multiplier type, the size constraint is not PER-visible: plain octets, general length
       IF t.sz.c = "sz" /\ ~t.sz.ext /\ (Len(v) < t.sz.lb \/ Len(v) > t.sz.ub) THEN Err
       ELSE LET o == Utf8(v) IN Ok(PlanBits([pre |-> <<>>, segs |-> FragPlan(Len(o))], [j \in 1..Len(o) |-> NatBits(o[j], 8)]))
  ELSE IF \E j \in 1..Len(v) : v[j] \notin Alphabet(t.cs) THEN Err
  ELSE EncSized(t.sz, [j \in 1..Len(v) |-> CharBits(t.cs, v[j])])

Enc(t, v) ==
  CASE t.k = "bool"   -> Ok(<<BoolBit(v)>>)                                       \* 12
    [] t.k = "null"   -> Ok(<<>>)                                                  \* 24
    [] t.k = "int"    -> IF "big" \in DOMAIN t THEN EncIntB(t.con, v) ELSE EncInt(t.con, v)                                          \* 13
    [] t.k = "enum"   -> IF v >= 0 /\ v < t.nroot + t.nadd THEN Index(t.nroot, t.ext, EnumIndex(t, v)) ELSE Err   \* 14
    [] t.k = "oct"    -> EncSized(t.sz, [j \in 1..Len(v) |-> NatBits(v[j], 8)])   \* 17
    [] t.k = "bits"   -> LET w == NamedBits(t, v) IN EncSized(t.sz, [j \in 1..Len(w) |-> <<w[j]>>])   \* 16
    [] t.k = "str"    -> EncStr(t, v)                                              \* 30
    [] t.k = "seqof"  -> EncList(t, v)                                             \* 20
    [] t.k = "seq"    -> EncSeq(t, v)                                              \* 19, 21
    [] t.k = "choice" -> EncChoice(t, v)                                           \* 23

(***************************************************************************)
(* The constants the generated code must carry for a SEQUENCE/SET - the    *)
(* only interface between the front end and the runtime (C03, C08)         *)
(***************************************************************************)
SeqConsts(t) ==
  [stdOptionalFields |-> Cardinality({i \in 1..Len(t.comps) : IsRoot(t, i) /\ t.comps[i].mode # "man"}),
   fieldCount |-> Len(t.comps),
   extendedAfterField |-> IF t.ext THEN t.nroot - 1 ELSE 0 - 1,     \* index of the last root component, -1 = not extensible
   order |-> t.ord]
=============================================================================
