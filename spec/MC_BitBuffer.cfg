SPECIFICATION Spec
CONSTANTS
  Dev = {}
  MaxBits = 12
  SrcSet <- MCSrcSet
INVARIANT Inv
PROPERTIES ErrFrame WriteFrame
CHECK_DEADLOCK FALSE
