------------------------------ MODULE MC_ProtoPrim ------------------------------
(***************************************************************************)
(* M + R: TLC enumerates the boundary families of every protobuf scalar    *)
(* the codec uses (2^k and 2^k +- 1 for all k up to 64, both signs, the    *)
(* type limits, small numbers), checks the round trip of the varint on the *)
(* specification, and prints the octets the real ProtoWrite primitives     *)
(* must emit (and the real ProtoRead primitives must read back,            *)
(* consuming exactly these octets).  u is the unsigned number the varint   *)
(* carries; a writer may emit it in a longer (sign-extended) form as long  *)
(* as it decodes - modulo the width of the scalar - to u.                  *)
(***************************************************************************)
EXTENDS ProtoPrim, TLC, Json

CONSTANTS KS, Small
VARIABLES st, c
One == BOfInt(1)
Around(x) == {BSub(x, One), x, BAdd(x, One)}
Fam == UNION {Around(BPow2(k)) \cup Around(BNeg(BPow2(k))) : k \in KS} \cup {BOfInt(i) : i \in (0 - Small)..Small}
In(x, lo, hi) == BLeq(lo, x) /\ BLeq(x, hi)
U32Max == BSub(BPow2(32), One)
I32Min == BNeg(BPow2(31))
I32Max == BSub(BPow2(31), One)
FieldMax == BSub(BPow2(29), One)

Cases ==
  {[k |-> "varint", v |-> x, a |-> 0, u |-> x, octets |-> Varint(x)] : x \in {y \in Fam : InU64(y)}}
  \cup {[k |-> "uint32", v |-> x, a |-> 0, u |-> x, octets |-> Varint(x)] : x \in {y \in Fam : In(y, BZero, U32Max)}}
  \cup {[k |-> "sint32", v |-> x, a |-> 0, u |-> ZigZag(x), octets |-> Varint(ZigZag(x))] : x \in {y \in Fam : In(y, I32Min, I32Max)}}
  \cup {[k |-> "sint64", v |-> x, a |-> 0, u |-> ZigZag(x), octets |-> Varint(ZigZag(x))] : x \in {y \in Fam : InI64(y)}}
  \cup {[k |-> "sfixed32", v |-> x, a |-> 0, u |-> BZero, octets |-> SFixed32(x)] : x \in {y \in Fam : In(y, I32Min, I32Max)}}
  \cup {[k |-> "tag", v |-> x, a |-> wt, u |-> DecVarint(Tag(x, wt)), octets |-> Tag(x, wt)] : x \in {y \in Fam : In(y, One, FieldMax)}, wt \in {0, 1, 2, 5}}
  \cup {[k |-> "bool", v |-> BOfInt(b), a |-> 0, u |-> BOfInt(b), octets |-> <<b>>] : b \in 0..1}

Init == st = "seed" /\ c \in {"varint", "uint32", "sint32", "sint64", "sfixed32", "tag", "bool"}
Next == st = "seed" /\ st' = "case" /\ c' \in {x \in Cases : x.k = c}
Spec == Init /\ [][Next]_<<st, c>>

RoundTrip ==
  st = "case" =>
    /\ (c.k \in {"varint", "uint32"} => DecVarint(c.octets) = c.v)
    /\ (c.k \in {"sint32", "sint64"} => DecVarint(c.octets) = ZigZag(c.v) /\ ~ZigZag(c.v).neg)
    /\ (c.k \in {"varint", "uint32", "sint32", "sint64", "tag"} =>
          /\ Len(c.octets) >= 1 /\ Len(c.octets) <= 10
          /\ c.octets[Len(c.octets)] < 128 /\ \A j \in 1..(Len(c.octets) - 1) : c.octets[j] >= 128     \* continuation bits
          /\ (Len(c.octets) > 1 => c.octets[Len(c.octets)] # 0))                                     \* minimal
    /\ (c.k = "sfixed32" => Len(c.octets) = 4)
Emit == st = "case" => PrintT(<<"REPLAY", ToJson(c)>>)
=============================================================================
