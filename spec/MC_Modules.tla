------------------------------ MODULE MC_Modules ------------------------------
(***************************************************************************)
(* C07, module level: every module header form x every sequence of at most *)
(* three IMPORTS clauses, each clause with or without an object identifier *)
(* (two different ones), with one or two symbols.  The parsed model must   *)
(* contain exactly the declared header and clauses, in order - nothing may *)
(* carry over from one clause to the next.  One TLC state per module; the  *)
(* orchestrator prints the text and compares the canonical projection.     *)
(***************************************************************************)
EXTENDS Integers, Sequences, TLC, Json

\* object identifier components: [form, name, number], form in {"name", "number", "both"}
OidNone == <<>>
OidA == << <<"both", "iso", 1>>, <<"both", "standard", 0>>, <<"number", "", 42>> >>
OidB == << <<"name", "iso", 0>>, <<"name", "org", 0>>, <<"number", "", 3>> >>
OidC == << <<"both", "iso", 1>>, <<"number", "", 5>> >>
Oids == <<OidNone, OidA, OidB, OidC>>

\* clause j of a module: symbols depend on the position so that every clause is distinguishable
Symbols(j, two) == IF two THEN <<"X" \o ToString(j), "v" \o ToString(j)>> ELSE <<"Y" \o ToString(j)>>
Clause(j, o, two) == [what |-> Symbols(j, two), from |-> "Lib" \o ToString(j), oid |-> Oids[o]]

VARIABLES c
ClauseSeqs(n) == [1..n -> (1..Len(Oids)) \X BOOLEAN]
Init == c \in {[hdr |-> h, n |-> n, f |-> f] : h \in 1..Len(Oids), n \in 0..3, f \in UNION {ClauseSeqs(k) : k \in 0..3}}
Next == FALSE
Spec == Init /\ [][Next]_c

Valid == Len(c.f) = c.n \/ DOMAIN c.f = 1..c.n
Module ==
  [name |-> "Mod", oid |-> Oids[c.hdr],
   imports |-> [j \in 1..c.n |-> Clause(j, c.f[j][1], c.f[j][2])]]
Emit == (DOMAIN c.f = 1..c.n) => PrintT(<<"REPLAY", ToJson(Module)>>)
=============================================================================
