SPECIFICATION Spec
CONSTANTS
  Dev = {}
  M = 3
INVARIANTS FrameOk Emit
CHECK_DEADLOCK FALSE
