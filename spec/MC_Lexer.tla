------------------------------- MODULE MC_Lexer -------------------------------
(***************************************************************************)
(* M + R for C13.  The input is grown one character per step, so the state *)
(* graph has exactly one state per string over Sigma of length <= L and    *)
(* all TLC workers share the enumeration.  In every state:                 *)
(*   Agree      the implementation-shaped machine equals the functional    *)
(*              definition (tokens, order, line/column),                   *)
(*   Relayout   inserting any separator (blank, tab, CR LF, line comment,  *)
(*              block comment, nested block comment) at any item boundary  *)
(*              leaves the location-free token sequence unchanged,         *)
(*   Emit       one replay line: the string and its tokens, executed       *)
(*              against the real Tokenizer.                                *)
(***************************************************************************)
EXTENDS Lexer, TLC, Json

CONSTANTS L,      \* all strings up to this length
          C,      \* context length of the sandwich family
          K       \* interior length of the comment family

VARIABLES inp, ph

\* second family: every separator form between every pair of short contexts (the places where a comment touches items)
RECURSIVE Upto(_)
Upto(n) == IF n = 0 THEN {<<>>} ELSE Upto(n - 1) \cup {Append(u, ch) : u \in {w \in Upto(n - 1) : Len(w) = n - 1}, ch \in Sigma}
SepForms == {<<"S">>, <<"T">>, <<"R", "N">>, <<"N">>, <<"-", "-", "x", "N">>, <<"/", "*", "y", "*", "/">>,
             <<"/", "*", "x", "/", "*", "y", "*", "/", "x", "*", "/">>, <<"/", "*", "N", "*", "/">>, <<"/", "*", "*", "/">>}

\* third family: a block comment with EVERY interior of length <= K over the characters that structure it (line breaks,
\* hyphens, comment brackets, text), between single-character contexts: what a line-oriented implementation can get wrong
\* inside a comment that spans lines ("--" at the start of a line of a block comment is ordinary comment text)
CIn == {"N", "-", "x", "S", "/", "*"}
RECURSIVE Interiors(_)
Interiors(n) == IF n = 0 THEN {<<>>} ELSE Interiors(n - 1) \cup {Append(u, ch) : u \in {w \in Interiors(n - 1) : Len(w) = n - 1}, ch \in CIn}

\* ph = "grow": strings grown character by character; "seed": left context of a sandwich; "done": a complete sandwich
Init == (ph = "grow" /\ inp = <<>>) \/ (ph = "seed" /\ inp \in Upto(C)) \/ (ph = "cseed" /\ inp \in Upto(1))
Next ==
  \/ ph = "grow" /\ Len(inp) < L /\ ph' = "grow" /\ \E ch \in Sigma : inp' = Append(inp, ch)
  \/ ph = "seed" /\ ph' = "done" /\ \E m \in SepForms, w \in Upto(C) : inp' = inp \o m \o w
  \/ ph = "cseed" /\ ph' = "done" /\ \E m \in Interiors(K), w \in Upto(1) : inp' = inp \o <<"/", "*">> \o m \o <<"*", "/">> \o w
Spec == Init /\ [][Next]_<<inp, ph>>

Agree == Unterminated(inp) \/ TokImpl(inp) = LexSpec(inp)

Separators == {<<"S">>, <<"T">>, <<"R", "N">>, <<"N">>, <<"-", "-", "x", "N">>, <<"/", "*", "y", "*", "/">>,
               <<"/", "*", "x", "/", "*", "y", "*", "/", "x", "*", "/">>}
\* boundaries: positions between two characters where at least one side ends/starts an item of LexSpec:
\* we insert only where the insertion cannot split an item: before the first character of an item or after its last
ItemStarts(s) == LET ts == LexSpec(s) pos == Positions(s)
                 IN {i \in 1..Len(s) : \E k \in 1..Len(ts) : pos[i] = <<ts[k][2], ts[k][3]>> /\ ~Marks(s)[1][i]}
InsertAt(s, i, x) == SubSeq(s, 1, i - 1) \o x \o SubSeq(s, i, Len(s))
Relayout ==
  Unterminated(inp) \/
  \A i \in ItemStarts(inp), x \in Separators :
     \* a "--" comment directly behind a hyphen would form "---": the printer never does that
     (x[1] = "-" /\ i > 1 /\ inp[i - 1] = "-") \/
     Strip(LexSpec(InsertAt(inp, i, x))) = Strip(LexSpec(inp))

Emit == ph \in {"seed", "cseed"} \/ PrintT(<<"REPLAY", ToJson([s |-> inp, toks |-> TokImpl(inp), unterminated |-> Unterminated(inp)])>>)
=============================================================================
