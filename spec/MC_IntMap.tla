------------------------------- MODULE MC_IntMap -------------------------------
(***************************************************************************)
(* M + R for C15: all pairs of bounds from the boundary family             *)
(*   B = {0, +-1, +-2^k, +-2^k +-1 : k in KS} u small ints (within i64),    *)
(* each bound optionally MIN / MAX, each range optionally extensible.      *)
(* TLC checks the design-level meaning (Sound) and prints one line per     *)
(* constraint with the acceptable types.                                   *)
(***************************************************************************)
EXTENDS IntMap, TLC, Json, SequencesExt

CONSTANTS Dev, KS, Small

VARIABLES st, c
vars == <<st, c>>

One == BOfInt(1)
Around(x) == {BSub(x, One), x, BAdd(x, One)}
BFam == {x \in UNION {Around(BPow2(k)) \cup Around(BNeg(BPow2(k))) : k \in KS} \cup {BOfInt(i) : i \in (0 - Small)..Small}
            \cup {I64Min, I64Max} : InI64(x)}

TyName(ty) == [signed |-> ty.signed, w |-> ty.w]
InMinClass(hasLb, hasUb, ub, ext) ==
  "MinBoundTreatedAsZero" \in Dev /\ ~hasLb /\ hasUb /\ ub # I64Max /\ (~ext \/ ~ub.neg)
Case(hasLb, lb, hasUb, ub, ext) ==
  [hasLb |-> hasLb, lb |-> lb, hasUb |-> hasUb, ub |-> ub, ext |-> ext,
   types |-> Acceptable(hasLb, lb, hasUb, ub, ext),
   \* input class of the open finding: a MIN lower bound with a finite upper bound is treated like 0
   \* (an extensible range with a negative upper bound is mapped correctly to i64)
   dev |-> IF InMinClass(hasLb, hasUb, ub, ext) THEN "MinBoundTreatedAsZero" ELSE "",
   \* Impl(Dev): what the implementation chooses today inside the class - must persist exactly
   devtypes |-> IF ~InMinClass(hasLb, hasUb, ub, ext) THEN {}
                ELSE IF ext \/ ub.neg THEN {[signed |-> FALSE, w |-> 64]}
                ELSE {Narrowest(BZero, ub)}]

Init == st = "seed" /\ c \in [lb : BFam]
Next ==
  /\ st = "seed" /\ st' = "case"
  /\ \/ \E ub \in {x \in BFam : BLeq(c.lb, x)}, ext \in BOOLEAN : c' = Case(TRUE, c.lb, TRUE, ub, ext)
     \/ \E ext \in BOOLEAN : c' = Case(TRUE, c.lb, FALSE, BZero, ext)            \* (lb..MAX)
     \/ \E ext \in BOOLEAN : c' = Case(FALSE, BZero, TRUE, c.lb, ext)            \* (MIN..ub)
     \/ c.lb = BZero /\ \E ext \in BOOLEAN : c' = Case(FALSE, BZero, FALSE, BZero, ext)   \* (MIN..MAX)
Spec == Init /\ [][Next]_vars

\* design-level meaning of C15 for every case
Sound ==
  st = "case" =>
    /\ c.types # {}
    /\ \A ty \in c.types :
         /\ (c.hasLb => BLeq(TMin(ty), c.lb)) /\ (c.hasUb /\ c.hasLb => BLeq(c.ub, TMax(ty)))        \* wide enough, right signedness
         /\ (~c.hasLb /\ c.hasUb /\ c.ub # I64Max => ty.signed)                                      \* MIN: negative values
         /\ (c.hasLb /\ c.hasUb /\ ~c.ext =>
               \A other \in Types : Contains(other, c.lb, c.ub) /\ other.signed = ty.signed => other.w >= ty.w)   \* narrowest
         /\ (c.ext \/ ~c.hasLb \/ ~c.hasUb => ty.w = 64)

Emit == st = "case" => PrintT(<<"REPLAY", ToJson([c EXCEPT !.types = SetToSeq(c.types), !.devtypes = SetToSeq(c.devtypes)])>>)
=============================================================================
