--------------------------------- MODULE MC_Der ---------------------------------
(***************************************************************************)
(* M + R for C20: TLC enumerates lengths around 2^(7k) and 2^(8k), all     *)
(* tags, the i64 / u64 boundary families, every boolean octet, checks the  *)
(* round trip on the specification (Dec(Enc(x)) = x) and prints one replay *)
(* line per case with the octets the writer must emit.                     *)
(***************************************************************************)
EXTENDS Der, TLC, Json

CONSTANTS KS, Small

VARIABLES st, c
One == BOfInt(1)
Around(x) == {BSub(x, One), x, BAdd(x, One)}
Fam == UNION {Around(BPow2(k)) \cup Around(BNeg(BPow2(k))) : k \in KS} \cup {BOfInt(i) : i \in (0 - Small)..Small} \cup {I64Min, I64Max, U64Max}
LenFam == {x \in Fam : InU64(x)} \cup {BOfInt(i) : i \in 0..300}

Cases ==
  {[k |-> "len", v |-> n, a |-> 0, b |-> 0, octets |-> EncLen(n)] : n \in LenFam}
  \cup {[k |-> "tag", v |-> BZero, a |-> cls, b |-> num, octets |-> EncTag(cls, num)] : cls \in 0..3, num \in 0..30}
  \cup {[k |-> "i64", v |-> x, a |-> 0, b |-> 0, octets |-> EncInt(x)] : x \in {y \in Fam : InI64(y)}}
  \cup {[k |-> "u64", v |-> x, a |-> 0, b |-> 0, octets |-> EncInt(x)] : x \in {y \in Fam : InU64(y)}}
  \cup {[k |-> "bool", v |-> BZero, a |-> o, b |-> 0, octets |-> <<o>>] : o \in 0..255}
  \cup {[k |-> "enum", v |-> BOfInt(i), a |-> 0, b |-> 0, octets |-> EncInt(BOfInt(i))] : i \in 0..300}
  \* the typed layer (BasicWriter / BasicReader): INTEGER, BOOLEAN, ENUMERATED with a = root items, b = all items
  \* (an index >= b is not a value: the reader must refuse its encoding)
  \cup {[k |-> "tint", v |-> x, a |-> 0, b |-> 0, octets |-> TLV(0, 2, EncInt(x))] : x \in {y \in Fam : InI64(y)}}
  \cup {[k |-> "tbool", v |-> BZero, a |-> o, b |-> 0, octets |-> TLV(0, 1, EncBool(o # 0))] : o \in 0..1}
  \cup UNION {{[k |-> "tenum", v |-> BOfInt(i), a |-> sn[1], b |-> sn[2], octets |-> TLV(0, 10, EncInt(BOfInt(i)))] : i \in 0..(sn[2] + 1)}
              : sn \in {<<3, 3>>, <<2, 4>>}}
  \* an item list wide enough for indices of two and three content octets
  \cup {[k |-> "tenum", v |-> BOfInt(i), a |-> 70000, b |-> 70000, octets |-> TLV(0, 10, EncInt(BOfInt(i)))]
        : i \in {0, 127, 128, 255, 256, 257, 32767, 32768, 65535, 65536, 69999, 70000}}

Init == st = "seed" /\ c \in {"len", "tag", "i64", "u64", "bool", "enum", "tint", "tbool", "tenum"}
Next == st = "seed" /\ st' = "case" /\ c' \in {x \in Cases : x.k = c}
Spec == Init /\ [][Next]_<<st, c>>

\* the specification's own round trip
RoundTrip ==
  st = "case" =>
    /\ (c.k = "tag" => DecTag(c.octets[1]) = <<c.a, c.b>>)
    /\ (c.k = "i64" => DecI64(c.octets) = c.v /\ Len(c.octets) >= 1 /\ Len(c.octets) <= 8)
    /\ (c.k \in {"u64", "enum"} => DecU64(c.octets) = c.v)
    /\ (c.k = "len" => IF c.octets[1] < 128 THEN BOfInt(c.octets[1]) = c.v
                       ELSE /\ Len(c.octets) = 1 + (c.octets[1] - 128) /\ DecU64(SubSeq(c.octets, 2, Len(c.octets))) = c.v
                            /\ c.octets[2] # 0)                                        \* minimal number of length octets
    /\ (c.k = "bool" => DecBool(c.a) = (c.a # 0))
    /\ (c.k \in {"tint", "tenum", "tbool"} =>
          \* identifier octet, short-form length, then exactly that many content octets
          /\ c.octets[2] < 128 /\ Len(c.octets) = 2 + c.octets[2]
          /\ (c.k = "tint" => DecI64(SubSeq(c.octets, 3, Len(c.octets))) = c.v /\ DecTag(c.octets[1]) = <<0, 2>>)
          /\ (c.k = "tenum" => DecU64(SubSeq(c.octets, 3, Len(c.octets))) = c.v /\ DecTag(c.octets[1]) = <<0, 10>>))

Emit == st = "case" => PrintT(<<"REPLAY", ToJson(c)>>)
=============================================================================
