-------------------------------- MODULE IntMap --------------------------------
(***************************************************************************)
(* C15.  The Rust integer type for an INTEGER constraint (lb..ub[, ...]).  *)
(* Bounds are Big numbers or the keywords MIN / MAX (hasLb / hasUb FALSE). *)
(* Standard types: u8 u16 u32 u64 i8 i16 i32 i64, written as               *)
(* [signed, width].  Required:                                             *)
(*   - the type contains every permitted value (within 64 bits),           *)
(*   - it is the narrowest standard type that does - except that an        *)
(*     extensible range, or a range without a finite bound on one side,    *)
(*     needs a 64-bit type (of a signedness that contains the root),       *)
(*   - the generated min/max accessors return the declared bounds.         *)
(***************************************************************************)
EXTENDS Big, Sequences, FiniteSets

Widths == {8, 16, 32, 64}
TMin(ty) == IF ty.signed THEN BNeg(BPow2(ty.w - 1)) ELSE BZero
TMax(ty) == IF ty.signed THEN BSub(BPow2(ty.w - 1), BOfInt(1)) ELSE BSub(BPow2(ty.w), BOfInt(1))
Contains(ty, lb, ub) == BLeq(TMin(ty), lb) /\ BLeq(ub, TMax(ty))
Types == [signed : BOOLEAN, w : Widths]

\* the narrowest standard type for a fully bounded, non-extensible range: unsigned iff lb >= 0
Narrowest(lb, ub) ==
  LET signed == lb.neg
      ws == {w \in Widths : Contains([signed |-> signed, w |-> w], lb, ub)}
  IN [signed |-> signed, w |-> CHOOSE w \in ws : \A x \in ws : w <= x]

\* the set of acceptable types
Acceptable(hasLb, lb, hasUb, ub, ext) ==
  IF hasLb /\ hasUb /\ ~ext THEN {Narrowest(lb, ub)}
  ELSE IF hasLb /\ hasUb THEN {ty \in Types : ty.w = 64 /\ Contains(ty, lb, ub)}               \* extensible: 64 bit
  ELSE IF hasLb THEN {ty \in Types : ty.w = 64 /\ BLeq(TMin(ty), lb)}                         \* (lb..MAX)
  ELSE IF hasUb /\ ub # I64Max THEN {[signed |-> TRUE, w |-> 64]}                             \* (MIN..ub): negative values permitted
  \* (MIN..i64::MAX) is, within 64 signed bits, the unconstrained type
  ELSE {ty \in Types : ty.w = 64}                                                             \* unconstrained / (MIN..MAX)
=============================================================================
