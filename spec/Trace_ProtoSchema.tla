----------------------------- MODULE Trace_ProtoSchema -----------------------------
(***************************************************************************)
(* T for C18 (and the bytes side of C17): each event carries the schema    *)
(* PARSED FROM THE GENERATED .proto TEXT (by an independent proto3 reader),*)
(* the bytes the real ProtobufWriter produced for value v of zoo type ti.  *)
(* Accepted iff the declared schema is what the mapping rule demands       *)
(* (field numbers, labels, oneof numbering, kinds, nesting) and the bytes  *)
(* decode under the DECLARED schema to the value, up to proto3 default     *)
(* equivalence.                                                            *)
(***************************************************************************)
EXTENDS ProtoZoo, TLC, Json, IOUtils

Rec == ndJsonDeserialize(IOEnv.TRACE)
VARIABLE l
Init == l = 1
Next ==
  /\ l <= Len(Rec) /\ l' = l + 1
  /\ LET e == Rec[l]
         t == PZoo[e.ti]
         want == SchemaOf(t)
         d == DecMsg(e.schema, e.bytes)
     IN /\ SchemaMatches(e.schema, want)
        /\ d.ok
        /\ Norm(e.schema, d.v) = Norm(want, ToProto(t, e.v))
Spec == Init /\ [][Next]_l
Accepted ==
  LET d == TLCGet("stats").diameter
  IN IF d - 1 = Len(Rec) THEN TRUE
     ELSE PrintT(<<"REJECTED", d, [ti |-> Rec[d].ti, v |-> Rec[d].v, bytes |-> Rec[d].bytes,
                                    schemaOk |-> SchemaMatches(Rec[d].schema, SchemaOf(PZoo[Rec[d].ti])),
                                    decoded |-> DecMsg(Rec[d].schema, Rec[d].bytes)]>>) /\ FALSE
=============================================================================
