------------------------------- MODULE MC_Prim -------------------------------
(***************************************************************************)
(* R (spec -> impl) for C10: TLC enumerates argument tuples of the public  *)
(* PackedWrite/PackedRead primitives - exhaustively for small ranges, and  *)
(* over boundary families around 2^k (as Big numbers) up to the i64/u64    *)
(* extremes, every length threshold +-1 and every fragment-count class -   *)
(* computes the X.691 bits with X691Prim and prints one replay line per    *)
(* case.  Inadmissible tuples are included: the spec says "refuse".        *)
(***************************************************************************)
EXTENDS X691Prim, TLC, Json

CONSTANTS Dev,          \* open findings (deviation switches), see known_findings.jsonl
          LbAbs,        \* exhaustive family: lb in -LbAbs..LbAbs
          WMax,         \*                    ub - lb in 0..WMax, every v in lb-1..ub+1
          KS,           \* exponents of the boundary families (bounds)
          VS            \* exponents of the value family offered to every pair of bounds

VARIABLES st, c
vars == <<st, c>>

One == BOfInt(1)
Around(x) == {BSub(x, One), x, BAdd(x, One)}
BFam == UNION {Around(BPow2(k)) \cup Around(BNeg(BPow2(k))) : k \in KS} \cup {BOfInt(i) : i \in -3..3}
I64Fam == {x \in BFam : InI64(x)} \cup {I64Min, I64Max}
VFam == UNION {Around(BPow2(k)) \cup Around(BNeg(BPow2(k))) : k \in VS} \cup {BOfInt(0), I64Min, I64Max}
U64Fam == {x \in BFam : InU64(x)} \cup {U64Max} \cup {BOfInt(i) : i \in 60..70}

NoB == BZero
Case(k, lb, ub, v, hasLb, hasUb, ext, n, ok, bits, covers, segs) ==
  [k |-> k, lb |-> lb, ub |-> ub, v |-> v, hasLb |-> hasLb, hasUb |-> hasUb, ext |-> ext, n |-> n,
   ok |-> ok, bits |-> bits, covers |-> covers, segs |-> segs]
NumCase(k, lb, ub, v, r) == Case(k, lb, ub, v, FALSE, FALSE, FALSE, 0, r.ok, r.bits, 0, <<>>)

\* ---- size / length forms ------------------------------------------------
Form(hasLb, lb, hasUb, ub) == [hasLb |-> hasLb, lb |-> lb, hasUb |-> hasUb, ub |-> ub]
FormSeq ==
  <<Form(FALSE, 0, FALSE, 0),
    Form(TRUE, 0, TRUE, 0), Form(TRUE, 1, TRUE, 1), Form(TRUE, 2, TRUE, 2), Form(TRUE, 3, TRUE, 3), Form(TRUE, 100, TRUE, 100),
    Form(TRUE, 65535, TRUE, 65535), Form(TRUE, 65536, TRUE, 65536),
    Form(TRUE, 0, TRUE, 3), Form(TRUE, 2, TRUE, 5), Form(TRUE, 0, TRUE, 255), Form(TRUE, 1, TRUE, 256),
    Form(TRUE, 0, TRUE, 65535), Form(TRUE, 0, TRUE, 65536), Form(TRUE, 1, TRUE, 70000),
    Form(TRUE, 70000, TRUE, 80000), Form(FALSE, 0, TRUE, 7), Form(TRUE, 2, FALSE, 0)>>
LensGeneral == {0, 1, 2, 3, 5, 126, 127, 128, 129, 16382, 16383, 16384, 16385, 32767, 32768, 32769, 49152,
                65535, 65536, 65537, 81920, 98304, 131072, 147456, 200000}
LensOf(f) == {n \in LensGeneral \cup (IF f.hasLb THEN {f.lb - 1, f.lb, f.lb + 1} ELSE {})
                        \cup (IF f.hasUb THEN {f.ub - 1, f.ub, f.ub + 1} ELSE {}) : n >= 0}

Seeds ==
  [fam : {"cwnS"}, x : {BOfInt(i) : i \in (0 - LbAbs)..LbAbs}]
  \cup [fam : {"cwnB", "ucwn", "scwn"}, x : I64Fam]
  \cup [fam : {"nsnn"}, x : U64Fam]
  \* reader only: X.691 encodings of numbers the 64-bit API cannot hold (9 octets) - "never a wrapped value"
  \cup [fam : {"rdbig"}, x : {BPow2(64), BAdd(BPow2(64), BOfInt(1)), BAdd(BPow2(64), BPow2(8)), BPow2(71)}]
  \cup [fam : {"idx"}, x : {BOfInt(i) : i \in {0, 1, 2, 3, 4, 5, 8, 9, 64, 65, 256, 257}}]
  \cup [fam : {"len", "oct", "bits"}, x : {BOfInt(i) : i \in 1..Len(FormSeq)}]


Expand(s) ==
  CASE s.fam = "cwnS" ->
         LET lb == BToInt(s.x)
         IN UNION {{NumCase("cwn", s.x, BOfInt(lb + w), BOfInt(v), Constrained(lb, lb + w, v)) : v \in (lb - 1)..(lb + w + 1)} : w \in 0..WMax}
    [] s.fam = "cwnB" ->
         {NumCase("cwn", s.x, ub, v, ConstrainedB(s.x, ub, v)) :
            ub \in I64Fam, v \in {y \in Around(s.x) \cup VFam : InI64(y)}}
         \cup UNION {{NumCase("cwn", s.x, ub, v, ConstrainedB(s.x, ub, v)) : v \in {y \in Around(ub) : InI64(y)}} : ub \in I64Fam}
    [] s.fam = "ucwn" -> {NumCase("ucwn", NoB, NoB, s.x, UnconstrainedB(s.x))}
    [] s.fam = "scwn" ->
         {NumCase("scwn", s.x, NoB, v, IF InU64(BSub(v, s.x)) \/ BLess(v, s.x) THEN SemiConstrainedB(s.x, v) ELSE Err) : v \in I64Fam}
    [] s.fam = "nsnn" -> {NumCase("nsnn", NoB, NoB, s.x, NormallySmallB(s.x))}
    [] s.fam = "rdbig" -> {NumCase("rdscwn", BZero, NoB, s.x, SemiConstrainedB(BZero, s.x)),
                           NumCase("rdnsnn", NoB, NoB, s.x, NormallySmallB(s.x))}
    [] s.fam = "idx" ->
         LET std == BToInt(s.x)
         IN {Case("idx", NoB, NoB, NoB, FALSE, FALSE, ext, std, Index(std, ext, i).ok, Index(std, ext, i).bits, i, <<>>) :
               ext \in BOOLEAN, i \in {j \in {0, 1, std - 1, std, std + 1, std + 62, std + 63, std + 64, std + 65, std + 255, std + 256} : j >= 0}}
    [] s.fam = "len" ->
         LET f == FormSeq[BToInt(s.x)]
         IN {LET r == LenDet(f.hasLb, f.lb, f.hasUb, f.ub, n)
             IN Case("len", BOfInt(f.lb), BOfInt(f.ub), NoB, f.hasLb, f.hasUb, FALSE, n, r.ok, r.bits, r.covers, <<>>) : n \in LensOf(f)}
    [] s.fam \in {"oct", "bits"} ->
         LET f == FormSeq[BToInt(s.x)]
         IN {LET p == SizedPlan(f.hasLb, f.lb, f.hasUb, f.ub, ext, n)
             IN Case(s.fam, BOfInt(f.lb), BOfInt(f.ub), NoB, f.hasLb, f.hasUb, ext, n, p.ok, p.pre, 0, p.segs) :
               n \in LensOf(f), ext \in (IF f.hasLb \/ f.hasUb THEN BOOLEAN ELSE {FALSE})}

(* Input classes of the open findings: inside such a class the code is known to deviate; the  *)
(* replay then only requires that the recorded kind of outcome persists (devout).              *)
DevOf(x) ==
  IF "LenDetUbGe64K" \in Dev /\ x.k \in {"len", "oct", "bits"} /\ x.ok
     /\ (x.hasLb \/ x.hasUb) /\ (~x.hasUb \/ BToInt(x.ub) >= 65536)
  THEN "LenDetUbGe64K"
  ELSE IF "BitStringFragmentation" \in Dev /\ x.k = "bits" /\ x.ok /\ Len(x.segs) >= 2
  THEN "BitStringFragmentation"
  ELSE ""
WithDev(x) == [f \in DOMAIN x \cup {"dev", "devout"} |->
                 IF f = "dev" THEN DevOf(x) ELSE IF f = "devout" THEN "any" ELSE x[f]]

Init == st = "seed" /\ c \in Seeds
Next == st = "seed" /\ st' = "case" /\ c' \in {WithDev(x) : x \in Expand(c)}
Spec == Init /\ [][Next]_vars

\* ---- model-level sanity of the reference itself (checked on every case) --
RefOk ==
  st = "case" =>
    /\ c.k = "cwn" /\ c.ok => Len(c.bits) = MagBitLen(BSub(c.ub, c.lb).m)           \* 11.5.6: fixed field width
    /\ c.k = "cwn" /\ c.ok /\ BIsSmall(c.lb) /\ BIsSmall(c.ub) /\ BIsSmall(c.v)
         => c.bits = Constrained(BToInt(c.lb), BToInt(c.ub), BToInt(c.v)).bits       \* Big and native arithmetic agree
    /\ c.k \in {"ucwn", "scwn"} /\ c.ok => (Len(c.bits) - 8) % 8 = 0 /\ Len(c.bits) >= 16 /\ Len(c.bits) <= 80
    /\ c.k \in {"oct", "bits"} /\ c.ok =>
         /\ c.segs[Len(c.segs)].to = c.n /\ c.segs[1].from = 0
         /\ \A j \in 1..(Len(c.segs) - 1) : c.segs[j].to = c.segs[j + 1].from          \* the segments tile 0..n

Emit == st = "case" => PrintT(<<"REPLAY", ToJson(c)>>)
=============================================================================
