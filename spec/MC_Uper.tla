------------------------------- MODULE MC_Uper -------------------------------
(***************************************************************************)
(* R (spec -> impl) for the type-level codec properties: for every type of *)
(* the zoo and every value of its bounded family TLC computes the X.691    *)
(* encoding (or "must be refused") and prints                              *)
(*   <<"ZOO", json>>     once per type (index + structure; compiled into   *)
(*                        real generated Rust code by tools/zoogen.py),    *)
(*   <<"REPLAY", json>>  once per (type, value).                           *)
(***************************************************************************)
EXTENDS Zoo, UperSM, TLC, Json

CONSTANT Dev        \* open findings (deviation switches)

VARIABLES st, c
vars == <<st, c>>

\* a value that is a legal value of the type but carries the pattern the implementation documents
\* it refuses (C03): first extension addition absent while a later one is present
Inconsistent(t, v) ==
  /\ t.k = "seq" /\ t.ext /\ Len(t.comps) > t.nroot + 1
  /\ ~Present(t, v, t.ord[t.nroot + 1])
  /\ \E j \in (t.nroot + 2)..Len(t.comps) : Present(t, v, t.ord[j])

(* Input classes of the open findings (only the persistence of a deviation is required inside) *)
GeneralLength(sz, n) == sz.c = "none" \/ sz.ub >= 65536 \/ (sz.ext /\ (n < sz.lb \/ n > sz.ub))
\* the fragmentation findings concern VALUES of the type; a length outside a non-extensible SIZE must be refused as ever
InSz(sz, n) == sz.c = "none" \/ sz.ext \/ (n >= sz.lb /\ n <= sz.ub)
\* the root items of an ENUMERATED are not declared in ascending order of their values
UnsortedEnum(t) == t.k = "enum" /\ "nums" \in DOMAIN t /\ \E i, j \in 1..t.nroot : i < j /\ t.nums[i] > t.nums[j]
\* the root alternatives of a CHOICE carry explicit tags that are not declared in canonical order
UnsortedChoice(t) == t.k = "choice" /\ "atags" \in DOMAIN t /\ \E i, j \in 1..t.nroot : i < j /\ TagLess(t.atags[j], t.atags[i])
DevOf(t, v) ==
  IF "EnumIndexByDeclaration" \in Dev /\ UnsortedEnum(t) THEN "EnumIndexByDeclaration"
  ELSE IF "ChoiceIndexByDeclaration" \in Dev /\ UnsortedChoice(t) THEN "ChoiceIndexByDeclaration"
  ELSE IF "IntegerMaxAsBound" \in Dev /\ t.k = "int" /\ t.con.c = "semi" THEN "IntegerMaxAsBound"
  ELSE IF "NamedBitsTrailingZeros" \in Dev /\ t.k = "bits" /\ "named" \in DOMAIN t THEN "NamedBitsTrailingZeros"
  \* an unconstrained INTEGER lives in a u64; its values from 2^63 on
  ELSE IF "UnsignedAboveI64Max" \in Dev /\ t.k = "int" /\ "big" \in DOMAIN t /\ t.con.c = "none" /\ BLeq(BPow2(63), v) THEN "UnsignedAboveI64Max"
  ELSE IF "CountNotFragmented" \in Dev /\ (t.k = "seqof" \/ (t.k = "str" /\ t.cs # "utf8"))
     /\ Len(v) >= 16384 /\ GeneralLength(t.sz, Len(v)) /\ InSz(t.sz, Len(v))
  THEN "CountNotFragmented"
  ELSE IF "BitStringFragmentation" \in Dev /\ t.k = "bits" /\ Len(v) >= 16384 /\ GeneralLength(t.sz, Len(v)) /\ InSz(t.sz, Len(v))
  THEN "BitStringFragmentation"
  ELSE ""

Case(i, v) ==
  LET t == Zoo[i]
      e == Enc(t, v)
      \* Impl(Dev), exactly, where the deviation is deterministic: the enumeration index is the position in the declaration
      \* (= the encoding of the same type without explicit values); everything else - round trip, refusals - must hold as usual
      devbits == IF DevOf(t, v) = "EnumIndexByDeclaration" THEN Enc(TEnum(t.nroot, t.nadd, t.ext), v).bits
                 ELSE IF DevOf(t, v) = "ChoiceIndexByDeclaration" THEN Enc(TChoice(t.alts, t.nroot, t.ext), v).bits
                 \* MAX is carried as the number 2^63 - 1: a constrained whole number of 63 / 64 bits; (0..MAX) is carried as
                 \* "no constraint": an unconstrained (two's complement) whole number
                 ELSE IF DevOf(t, v) = "IntegerMaxAsBound" /\ v >= t.con.lb
                 THEN (IF t.con.lb = 0 THEN UnconstrainedB(BOfInt(v)).bits ELSE ConstrainedB(BOfInt(t.con.lb), I64Max, BOfInt(v)).bits)
                 \* the value is transmitted as it stands, with its trailing 0 bits (and refused where it is shorter than the lower bound)
                 ELSE IF DevOf(t, v) = "NamedBitsTrailingZeros" /\ Enc(TBits(t.sz), v).ok THEN Enc(TBits(t.sz), v).bits
                 \* the u64 goes through an i64: the two's complement encoding of v - 2^64 (a negative number for a conforming reader)
                 ELSE IF DevOf(t, v) = "UnsignedAboveI64Max" THEN UnconstrainedB(BSub(v, BPow2(64))).bits
                 ELSE <<>>
  IN [ti |-> i, v |-> v, ok |-> e.ok, bits |-> e.bits, incons |-> Inconsistent(t, v), dev |-> DevOf(t, v), devbits |-> devbits]

Init == st = "type" /\ c \in {[ti |-> i] : i \in 1..Len(Zoo)}
Next ==
  /\ st = "type" /\ st' = "case"
  /\ \/ LET vs == Values(Zoo[c.ti]) \o ExtraVals(Zoo[c.ti]) IN \E j \in 1..Len(vs) : c' = Case(c.ti, vs[j])
     \/ IsBig(c.ti) /\ \E j \in 1..Len(BigLens) : c' = Case(c.ti, ListOfLen(Zoo[c.ti], BigLens[j]))
Spec == Init /\ [][Next]_vars

\* design-level sanity of the reference on every case
RefOk ==
  st = "case" =>
    LET t == Zoo[c.ti]
    IN /\ (t.k = "bool" => Len(c.bits) = 1)
       /\ (t.k = "seq" /\ c.ok => Len(c.bits) >= (IF t.ext THEN 1 ELSE 0) + SeqConsts(t).stdOptionalFields)
       \* C03, stated on the bits: the preamble is the extension bit followed by one presence bit per
       \* OPTIONAL/DEFAULT root component in order
       /\ (t.k = "seq" /\ c.ok =>
             LET opt == Filter(t.ord, LAMBDA i : IsRoot(t, i) /\ t.comps[i].mode # "man")
                 off == IF t.ext THEN 1 ELSE 0
             IN /\ (t.ext => c.bits[1] = BoolBit(\E i \in 1..Len(t.comps) : ~IsRoot(t, i) /\ Present(t, c.v, i)))
                /\ \A j \in 1..Len(opt) : c.bits[off + j] = BoolBit(Present(t, c.v, opt[j])))

\* M for the writer machine (UperSM): back-patched presence bits, call counter, lazily written extension header and
\* the open-type wrap rule together produce exactly the bits of the clause-by-clause definition, and the machine
\* refuses exactly the values the definition refuses plus the documented inconsistent patterns
Refines ==
  st = "case" /\ ~IsBig(c.ti) =>
    LET r == Write(Zoo[c.ti], c.v)
    IN /\ r.ok = (c.ok /\ ~c.incons)
       /\ (r.ok => r.buf = c.bits)

Emit ==
  /\ (st = "type" => PrintT(<<"ZOO", ToJson([ti |-> c.ti, t |-> Zoo[c.ti]])>>))
  /\ (st = "case" => PrintT(<<"REPLAY", ToJson(c)>>))
=============================================================================
