------------------------------- MODULE Versions -------------------------------
(***************************************************************************)
(* C05.  Schema evolution by appending extension additions (SEQUENCE/SET), *)
(* extension alternatives (CHOICE) or extension items (ENUMERATED).        *)
(* Extends(t1, t2): t2 differs from t1 only by such appended items         *)
(* (recursively inside components).  Conv(tw, tr, v): what a reader of     *)
(* version tr must obtain from the encoding of value v of version tw:      *)
(*   - known components/alternatives/items unchanged,                      *)
(*   - additions the reader knows but the writer did not have: absent      *)
(*     (DEFAULT: the default value),                                       *)
(*   - additions the reader does not know: skipped,                        *)
(*   - an unknown CHOICE alternative / ENUMERATED item: no value           *)
(*     (the reader may only report an error).                              *)
(***************************************************************************)
EXTENDS X691

\* Conv returns [ok, v]; ok = FALSE: the reader cannot have a value (unknown alternative / item somewhere inside)
Known(x) == [ok |-> TRUE, v |-> x]
Unknown == [ok |-> FALSE, v |-> 0]

RECURSIVE Conv(_, _, _)
Conv(tw, tr, v) ==
  CASE tw.k = "seq" ->
         LET sub == [i \in 1..Min(Len(tw.comps), Len(tr.comps)) |->
                       IF v[i] = <<>> THEN Known(0) ELSE Conv(tw.comps[i].t, tr.comps[i].t, v[i][1])]
         IN IF \E i \in 1..Len(sub) : ~sub[i].ok THEN Unknown
            ELSE Known([i \in 1..Len(tr.comps) |->
                          IF i > Len(tw.comps)
                          THEN (IF tr.comps[i].mode = "def" THEN tr.comps[i].dflt ELSE <<>>)
                          ELSE IF v[i] = <<>> THEN <<>> ELSE <<sub[i].v>>])
    [] tw.k = "choice" ->
         IF v.i >= Len(tr.alts) THEN Unknown
         ELSE LET x == Conv(tw.alts[v.i + 1], tr.alts[v.i + 1], v.v) IN IF x.ok THEN Known([i |-> v.i, v |-> x.v]) ELSE Unknown
    [] tw.k = "enum" -> IF v >= tr.nroot + tr.nadd THEN Unknown ELSE Known(v)
    [] tw.k = "seqof" -> LET xs == [j \in 1..Len(v) |-> Conv(tw.of, tr.of, v[j])]
                         IN IF \E j \in 1..Len(v) : ~xs[j].ok THEN Unknown ELSE Known([j \in 1..Len(v) |-> xs[j].v])
    [] OTHER -> Known(v)

\* does the writer's value carry a present extension addition of a SEQUENCE that the reader's version of that
\* SEQUENCE does not know, at a place that is NOT inside an open type (top level or root component)?
RECURSIVE UnknownAdditionOutsideOpenType(_, _, _)
UnknownAdditionOutsideOpenType(tw, tr, v) ==
  CASE tw.k = "seq" ->
         \/ \E i \in 1..Len(tw.comps) : i > Len(tr.comps) /\ Present(tw, v, i)
         \/ \E i \in 1..Min(Len(tw.comps), Len(tr.comps)) :
               IsRoot(tw, i) /\ v[i] # <<>> /\ UnknownAdditionOutsideOpenType(tw.comps[i].t, tr.comps[i].t, v[i][1])
    [] tw.k = "choice" ->
         v.i < Len(tr.alts) /\ v.i < tw.nroot /\ UnknownAdditionOutsideOpenType(tw.alts[v.i + 1], tr.alts[v.i + 1], v.v)
    [] tw.k = "seqof" -> \E j \in 1..Len(v) : UnknownAdditionOutsideOpenType(tw.of, tr.of, v[j])
    [] OTHER -> FALSE
=============================================================================
