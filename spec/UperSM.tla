------------------------------- MODULE UperSM -------------------------------
(***************************************************************************)
(* The writer of src/rw/uper.rs as the state machine it is: a bit buffer,  *)
(* an optional Scope, and the rule when a payload is wrapped into an open  *)
(* type.  One operator per critical section of the code:                   *)
(*   Entry         Scope::write_into_field / write_bit_field_entry         *)
(*   OpenScope     Scope::encode_as_open_type_field (tested by with_buffer)*)
(*   OpenWrap      the exit of with_buffer / of an extension alternative   *)
(*   SeqPrologue / SeqScope   the first half of write_sequence             *)
(*   Exhausted     the debug assertion of scope_pushed                     *)
(* and, built from them, Run(t, v) - the whole writer as a recursive       *)
(* function over the type structure exactly along the calls the generated  *)
(* code makes (write_sequence -> fields in wire order -> write_opt /       *)
(* write_default / leaf calls; scope_stashed below OPTIONAL, DEFAULT,      *)
(* SEQUENCE OF and CHOICE).                                                *)
(*                                                                         *)
(* M:  MC_Uper checks  Run(t, v) = X691!Enc(t, v)  on every case of the    *)
(*     zoo (Refines) - the machine, with its back-patched presence bits,   *)
(*     its call counter and its lazily written extension header, produces  *)
(*     the bits the clause-by-clause definition demands, and refuses       *)
(*     exactly the inconsistent patterns.                                  *)
(* T:  Trace_Uper replays the per-call events of the real writer through   *)
(*     the same operators.                                                 *)
(* Positions are 1-based indices into the buffer; a range lo..hi is        *)
(* half open (hi exclusive) like the Range<usize> of the code.             *)
(***************************************************************************)
EXTENDS X691

NoScope == [k |-> "none", bitPos |-> 0, lo |-> 0, hi |-> 0, calls |-> 0, nExt |-> 0]
OptScope(lo, hi) == [k |-> "opt", bitPos |-> 0, lo |-> lo, hi |-> hi, calls |-> 0, nExt |-> 0]
AllScope(lo, hi) == [k |-> "all", bitPos |-> 0, lo |-> lo, hi |-> hi, calls |-> 0, nExt |-> 0]
ExtSeqScope(bitPos, lo, hi, calls, nExt) == [k |-> "extseq", bitPos |-> bitPos, lo |-> lo, hi |-> hi, calls |-> calls, nExt |-> nExt]
ExtEmptyScope == [k |-> "extempty", bitPos |-> 0, lo |-> 0, hi |-> 0, calls |-> 0, nExt |-> 0]

\* with_write_position_at(p, write_bit(x)) inside the written part of the buffer
Patch(b, p, x) == [i \in 1..Len(b) |-> IF i = p THEN x ELSE b[i]]

Res(b, sc, ok) == [buf |-> b, sc |-> sc, ok |-> ok]

\* Scope::write_into_field, and the scope-less branch of write_bit_field_entry
Entry(b, sc, isOpt, present) ==
  CASE sc.k = "none" -> IF isOpt THEN Res(Append(b, BoolBit(present)), sc, TRUE) ELSE Res(b, sc, TRUE)
    [] sc.k = "opt" -> IF isOpt THEN Res(Patch(b, sc.lo, BoolBit(present)), [sc EXCEPT !.lo = @ + 1], TRUE) ELSE Res(b, sc, TRUE)
    [] sc.k = "all" -> Res(Patch(b, sc.lo, BoolBit(present)), [sc EXCEPT !.lo = @ + 1], TRUE)
    [] sc.k = "extseq" /\ sc.calls > 0 ->
         IF isOpt THEN Res(Patch(b, sc.lo, BoolBit(present)), [sc EXCEPT !.lo = @ + 1, !.calls = @ - 1], TRUE)
         ELSE Res(b, [sc EXCEPT !.calls = @ - 1], TRUE)
    [] sc.k = "extseq" /\ sc.calls = 0 ->          \* the first extension addition: the header is written now
         LET b1 == Patch(b, sc.bitPos, BoolBit(present))
         IN IF present
            THEN LET b2 == b1 \o NormallySmall(sc.nExt - 1).bits
                     b3 == b2 \o Ones(sc.nExt)                      \* bitmap pre-set, later entries patch it
                 IN Res(b3, AllScope(Len(b2) + 2, Len(b3) + 1), TRUE)
            ELSE Res(b1, ExtEmptyScope, TRUE)
    [] sc.k = "extempty" -> Res(b, sc, ~present)                    \* ExtensionFieldsInconsistent

\* design invariant of the presence bit-fields (not checked by the code): an entry that patches a bit stays inside the
\* range reserved by the prologue / the extension header
InRange(sc, isOpt) ==
  CASE sc.k = "opt" -> isOpt => sc.lo < sc.hi
    [] sc.k = "all" -> sc.lo < sc.hi
    [] sc.k = "extseq" -> (sc.calls > 0 /\ isOpt) => sc.lo < sc.hi
    [] OTHER -> TRUE
\* ... and at the end of a SEQUENCE every announced field has made its entry
Counted(sc) == sc.k = "extseq" => sc.calls = 0 /\ sc.nExt = 0

OpenScope(sc) == sc.k \in {"all", "extempty"}
Exhausted(sc) == sc.k \in {"opt", "all", "extseq"} => sc.lo = sc.hi

\* 11.2: what with_buffer appends to the outer buffer for the content of its sub-writer
OpenWrap(bits) == OpenType(bits)

\* the first half of write_sequence on a buffer of length base: extension bit, zeroed presence bits, the scope
SeqPrologue(ext, nOpt) == (IF ext THEN <<0>> ELSE <<>>) \o Pad(nOpt)
SeqScope(base, ext, nOpt, nRoot, n) ==
  LET lo == base + (IF ext THEN 1 ELSE 0) + 1
  IN IF ext THEN ExtSeqScope(base + 1, lo, lo + nOpt, nRoot, n - nRoot) ELSE OptScope(lo, lo + nOpt)

NOpt(t) == SeqConsts(t).stdOptionalFields

(***************************************************************************)
(* The whole writer.  Run(t, v, b, sc) = the call T::write_value(w, v) on  *)
(* a writer with buffer b and scope sc; the result is the writer after the *)
(* call (scope included: the caller's scope moves on by one entry).        *)
(***************************************************************************)
RECURSIVE Run(_, _, _, _), RunFields(_, _, _, _, _), RunItems(_, _, _, _)

\* with_buffer(f): f runs on a fresh sub-writer when the scope (after the entry) says open type, else in place
\* body(b0) must return Res; its scope is discarded (scope_pushed / scope_stashed restore the caller's)
WithBuffer(r, body(_)) ==
  IF OpenScope(r.sc)
  THEN LET s == body(<<>>) IN IF s.ok THEN Res(r.buf \o OpenWrap(s.buf), r.sc, TRUE) ELSE Res(r.buf, r.sc, FALSE)
  ELSE LET s == body(r.buf) IN Res(s.buf, r.sc, s.ok)

\* a leaf: entry, then the X.691 encoding of the value through with_buffer (NULL: entry only)
RunLeaf(t, v, b, sc) ==
  LET r == Entry(b, sc, FALSE, TRUE)
      e == Enc(t, v)
  IN IF ~r.ok THEN r
     ELSE IF t.k = "null" THEN r
     ELSE WithBuffer(r, LAMBDA b0 : Res(b0 \o e.bits, NoScope, e.ok))

\* write_opt / write_default: entry with the presence, then the value below a stashed scope through with_buffer
RunOpt(t, v, present, b, sc) ==
  LET r == Entry(b, sc, TRUE, present)
  IN IF ~r.ok \/ ~present THEN r
     ELSE WithBuffer(r, LAMBDA b0 : Run(t, v, b0, NoScope))

RunFields(t, v, j, b, sc) ==
  IF j > Len(t.ord) THEN Res(b, sc, Exhausted(sc))
  ELSE LET i == t.ord[j]
           c == t.comps[i]
           \* a mandatory extension addition is an Option in the generated struct
           r == IF c.mode = "man" /\ IsRoot(t, i) THEN Run(c.t, v[i][1], b, sc)
                ELSE IF v[i] = <<>> THEN RunOpt(c.t, <<>>, FALSE, b, sc)
                ELSE RunOpt(c.t, v[i][1], Present(t, v, i), b, sc)
       IN IF ~r.ok THEN r ELSE RunFields(t, v, j + 1, r.buf, r.sc)

RunSeq(t, v, b, sc) ==
  LET r == Entry(b, sc, FALSE, TRUE)
  IN IF ~r.ok THEN r
     ELSE IF \E i \in 1..Len(t.comps) : IsRoot(t, i) /\ t.comps[i].mode = "man" /\ v[i] = <<>> THEN Res(r.buf, r.sc, FALSE)
     ELSE WithBuffer(r, LAMBDA b0 :
            RunFields(t, v, 1, b0 \o SeqPrologue(t.ext, NOpt(t)), SeqScope(Len(b0), t.ext, NOpt(t), t.nroot, Len(t.comps))))

RunItems(t, v, j, b) ==
  IF j > Len(v) THEN Res(b, NoScope, TRUE)
  ELSE LET r == Run(t.of, v[j], b, NoScope) IN IF ~r.ok THEN r ELSE RunItems(t, v, j + 1, r.buf)

\* write_sequence_of: entry, scope stashed, length, items - never through with_buffer.  Below 16K items there is one
\* length determinant in front (the fragmented forms are the open finding CountNotFragmented and are left to X691!Enc)
RunList(t, v, b, sc) ==
  LET r == Entry(b, sc, FALSE, TRUE)
      hdr == EncSized(t.sz, [j \in 1..Len(v) |-> <<>>])
  IN IF ~r.ok THEN r
     ELSE IF ~hdr.ok THEN Res(r.buf, r.sc, FALSE)
     ELSE LET s == RunItems(t, v, 1, r.buf \o hdr.bits) IN Res(s.buf, r.sc, s.ok)

\* write_choice: entry, scope stashed, index, then the alternative in place or (extension) in a sub-writer
RunChoice(t, v, b, sc) ==
  LET r == Entry(b, sc, FALSE, TRUE)
  IN IF ~r.ok THEN r
     ELSE IF v.i < 0 \/ v.i >= Len(t.alts) THEN Res(r.buf, r.sc, FALSE)
     ELSE LET idx == Index(t.nroot, t.ext, ChoiceIndex(t, v.i))      \* 23.2 (canonical order of the alternatives' tags)
          IN IF ~idx.ok THEN Res(r.buf, r.sc, FALSE)
             ELSE IF v.i < t.nroot
             THEN LET s == Run(t.alts[v.i + 1], v.v, r.buf \o idx.bits, NoScope) IN Res(s.buf, r.sc, s.ok)
             ELSE LET s == Run(t.alts[v.i + 1], v.v, <<>>, NoScope)
                  IN IF s.ok THEN Res(r.buf \o idx.bits \o OpenWrap(s.buf), r.sc, TRUE) ELSE Res(r.buf, r.sc, FALSE)

Run(t, v, b, sc) ==
  CASE t.k = "seq" -> RunSeq(t, v, b, sc)
    [] t.k = "seqof" -> RunList(t, v, b, sc)
    [] t.k = "choice" -> RunChoice(t, v, b, sc)
    [] OTHER -> RunLeaf(t, v, b, sc)

Write(t, v) == Run(t, v, <<>>, NoScope)
=============================================================================
