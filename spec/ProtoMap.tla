-------------------------------- MODULE ProtoMap --------------------------------
(***************************************************************************)
(* C17 / C18.  The mapping of an ASN.1 SEQUENCE type (X691 / Zoo records)  *)
(* to a protobuf message, as the generated .proto declares it:             *)
(*   component i is field number i; OPTIONAL: singular, possibly absent;   *)
(*   SEQUENCE OF: repeated; SEQUENCE: nested message; CHOICE: a message    *)
(*   with a oneof whose alternative j is field number j; ENUMERATED:       *)
(*   enum numbered from 0; INTEGER: uint32/uint64/sint32/sint64 by range;  *)
(*   NULL: an (empty) bytes field; BIT STRING: bytes = content octets      *)
(*   followed by the bit length as 8 octets big endian.                    *)
(* ToProto(t, v) is the decoded form (Proto!DecMsg shape) that the bytes   *)
(* of value v must decode to under that schema; SchemaOf(t) the schema.    *)
(***************************************************************************)
EXTENDS Proto, X691

IntKind(con) ==
  IF con.c = "none" THEN "uint64"
  ELSE IF con.lb >= 0 THEN "uint32"          \* all zoo bounds are below 2^32
  ELSE "sint32"
\* 32 / 64 bit variants of one signedness are the same on the wire for the values concerned
KindClass(kind) == CASE kind \in {"uint32", "uint64"} -> "uint" [] kind \in {"sint32", "sint64"} -> "sint" [] OTHER -> kind

BitsPayload(v) == PaddedBytes(v) \o Pad(4) \o <<(Len(v) \div 16777216) % 256, (Len(v) \div 65536) % 256, (Len(v) \div 256) % 256, Len(v) % 256>>

RECURSIVE SchemaOf(_), FieldOf(_, _, _, _), ToProto(_, _), Occ(_, _)

\* declaration of a field of type t with number num
FieldOf(t, num, label, oneof) ==
  CASE t.k = "seqof" -> [FieldOf(t.of, num, "rep", oneof) EXCEPT !.label = "rep"]
    [] t.k = "seq"   -> [num |-> num, label |-> label, kind |-> "msg", sub |-> SchemaOf(t), oneof |-> oneof]
    [] t.k = "choice" -> [num |-> num, label |-> label, kind |-> "msg", oneof |-> oneof,
                          sub |-> [a \in 1..Len(t.alts) |-> FieldOf(t.alts[a], a, "one", TRUE)]]
    [] OTHER -> [num |-> num, label |-> label, oneof |-> oneof, sub |-> <<>>,
                 kind |-> CASE t.k = "int" -> IntKind(t.con) [] t.k = "bool" -> "bool" [] t.k = "enum" -> "enum"
                            [] t.k = "str" -> "string" [] t.k \in {"oct", "bits", "null"} -> "bytes"]
SchemaOf(t) == [i \in 1..Len(t.comps) |-> FieldOf(t.comps[i].t, i, "one", FALSE)]

\* occurrences of one present value x of type t
Occ(t, x) ==
  CASE t.k = "int"  -> IF "big" \in DOMAIN t THEN <<x>> ELSE <<BOfInt(x)>>     \* (X691!TIntB: the value is a number of Big.tla already)
    [] t.k = "bool" -> <<IF x THEN BOfInt(1) ELSE BZero>>
    [] t.k = "enum" -> <<BOfInt(x)>>
    [] t.k = "str"  -> <<Utf8(x)>>
    [] t.k = "oct"  -> <<x>>
    [] t.k = "bits" -> <<BitsPayload(x)>>
    [] t.k = "null" -> << <<>> >>
    [] t.k = "seq"  -> <<ToProto(t, x)>>
    [] t.k = "choice" -> << [a \in 1..Len(t.alts) |-> IF a = x.i + 1 THEN Occ(t.alts[a], x.v) ELSE <<>>] >>
    [] t.k = "seqof" -> Concat([j \in 1..Len(x) |-> Occ(t.of, x[j])])
ToProto(t, v) == [i \in 1..Len(t.comps) |-> IF v[i] = <<>> THEN <<>> ELSE Occ(t.comps[i].t, v[i][1])]

\* what the schema parsed from the generated .proto must look like
RECURSIVE SchemaMatches(_, _)
SchemaMatches(decl, want) ==
  /\ Len(decl) = Len(want)
  /\ \A j \in 1..Len(want) :
       /\ decl[j].num = want[j].num /\ decl[j].label = want[j].label /\ decl[j].oneof = want[j].oneof
       /\ KindClass(decl[j].kind) = KindClass(want[j].kind)
       /\ (want[j].kind = "msg" => SchemaMatches(decl[j].sub, want[j].sub))
=============================================================================
