//! Per-case watchdog and progress marker for replays of possibly hanging / aborting code (C04, C14).
//! The index of the running case is written to a side file before the case starts, so an abort (allocation failure
//! under the address-space limit) or a watchdog exit identifies its input; the orchestrator restarts after it.
use std::io::{Seek, SeekFrom, Write};
use std::sync::atomic::{AtomicU64, Ordering};
use std::sync::Arc;
use std::time::{Duration, Instant};

pub struct Progress {
    file: std::fs::File,
    started: Arc<AtomicU64>, // case index + 1, 0 = idle
    since: Arc<std::sync::Mutex<Instant>>,
}

pub const EXIT_HANG: i32 = 3;

impl Progress {
    pub fn new(path: &str, limit: Duration) -> Self {
        let file = std::fs::File::create(path).expect("progress file");
        let started = Arc::new(AtomicU64::new(0));
        let since = Arc::new(std::sync::Mutex::new(Instant::now()));
        let (s2, t2) = (started.clone(), since.clone());
        std::thread::spawn(move || loop {
            std::thread::sleep(Duration::from_millis(100));
            let cur = s2.load(Ordering::SeqCst);
            if cur != 0 && t2.lock().unwrap().elapsed() > limit {
                // the case is still the same one and over time: report and leave
                eprintln!("WATCHDOG case {}", cur - 1);
                std::process::exit(EXIT_HANG);
            }
        });
        Progress { file, started, since }
    }

    pub fn begin(&mut self, index: usize) {
        let _ = self.file.seek(SeekFrom::Start(0));
        let _ = self.file.write_all(format!("{:>12}", index).as_bytes());
        *self.since.lock().unwrap() = Instant::now();
        self.started.store(index as u64 + 1, Ordering::SeqCst);
    }

    pub fn end(&mut self) {
        self.started.store(0, Ordering::SeqCst);
    }
}
