//! Canonical projection of the resolved ASN.1 model (public fields only) to JSON - the shape Grammar.tla's Canon prints.
use asn1rs_model::asn::{Asn, Charset, ObjectIdentifier, ObjectIdentifierComponent, Size, Tag, Type};
use asn1rs_model::resolve::Resolved;
use asn1rs_model::{LiteralValue, Model};
use serde_json::{json, Value};

pub fn tag(t: &Option<Tag>) -> Value {
    match t {
        None => json!([]),
        Some(Tag::Universal(n)) => json!([0, n]),
        Some(Tag::Application(n)) => json!([1, n]),
        Some(Tag::ContextSpecific(n)) => json!([2, n]),
        Some(Tag::Private(n)) => json!([3, n]),
    }
}

pub fn size(s: &Size<usize>) -> Value {
    match s {
        Size::Any => json!({"c": "none", "lb": 0, "ub": 0, "ext": false}),
        Size::Fix(n, e) => json!({"c": "sz", "lb": n, "ub": n, "ext": e}),
        // an upper bound of MAX (carried as i64::MAX) is printed as -1: Grammar!GSz(.., "lbMax")
        Size::Range(a, b, e) if *b >= i64::MAX as usize => json!({"c": "sz", "lb": a, "ub": -1, "ext": e}),
        Size::Range(a, b, e) => json!({"c": "sz", "lb": a, "ub": b, "ext": e}),
    }
}

pub fn charset(c: &Charset) -> &'static str {
    match c {
        Charset::Utf8 => "utf8",
        Charset::Numeric => "num",
        Charset::Printable => "prt",
        Charset::Ia5 => "ia5",
        Charset::Visible => "vis",
    }
}

pub fn literal(l: &LiteralValue) -> Value {
    match l {
        LiteralValue::Boolean(b) => json!({"k": "bool", "v": b}),
        LiteralValue::String(s) => json!({"k": "str", "v": s.chars().map(|c| c as u32).collect::<Vec<_>>()}),
        LiteralValue::Integer(i) => json!({"k": "int", "v": i}),
        LiteralValue::OctetString(v) => json!({"k": "oct", "v": v}),
        LiteralValue::EnumeratedVariant(t, v) => json!({"k": "enum", "ty": t, "v": v}),
    }
}

pub fn oid(o: &Option<ObjectIdentifier>) -> Value {
    match o {
        None => json!([]),
        Some(o) => Value::Array(
            o.0.iter()
                .map(|c| match c {
                    ObjectIdentifierComponent::NameForm(n) => json!(["name", n, 0]),
                    ObjectIdentifierComponent::NumberForm(x) => json!(["number", "", x]),
                    ObjectIdentifierComponent::NameAndNumberForm(n, x) => json!(["both", n, x]),
                })
                .collect(),
        ),
    }
}

/// A component / alternative type: OPTIONAL and DEFAULT are folded into (mode, dflt).
fn component(name: &str, role: &Asn<Resolved>) -> Value {
    let mut mode = "man";
    let mut dflt: Vec<Value> = Vec::new();
    let mut ty = &role.r#type;
    loop {
        match ty {
            Type::Optional(inner) => {
                mode = "opt";
                ty = inner;
            }
            Type::Default(inner, lit) => {
                mode = "def";
                dflt = vec![literal(lit)];
                ty = inner;
            }
            _ => break,
        }
    }
    if let Some(d) = &role.default {
        mode = "def";
        dflt = vec![literal(d)];
    }
    json!({"name": name, "tag": tag(&role.tag), "t": typ(ty), "mode": mode, "dflt": dflt})
}

pub fn typ(t: &Type<Resolved>) -> Value {
    match t {
        Type::Boolean => json!({"k": "bool"}),
        Type::Null => json!({"k": "null"}),
        Type::Integer(i) => json!({"k": "int",
            "hasLb": i.range.0.is_some(), "lb": i.range.0.unwrap_or(0), "hasUb": i.range.1.is_some(), "ub": i.range.1.unwrap_or(0),
            "ext": i.range.2, "named": i.constants.iter().map(|(n, v)| json!([n, v])).collect::<Vec<_>>()}),
        Type::String(s, c) => json!({"k": "str", "cs": charset(c), "sz": size(s)}),
        Type::OctetString(s) => json!({"k": "oct", "sz": size(s)}),
        Type::BitString(b) => json!({"k": "bits", "sz": size(&b.size), "named": b.constants.iter().map(|(n, v)| json!([n, v])).collect::<Vec<_>>()}),
        Type::Optional(inner) => json!({"k": "optional", "t": typ(inner)}),
        Type::Default(inner, lit) => json!({"k": "default", "t": typ(inner), "v": literal(lit)}),
        Type::Sequence(l) | Type::Set(l) => json!({"k": "seq", "set": matches!(t, Type::Set(_)),
            "comps": l.fields.iter().map(|f| component(&f.name, &f.role)).collect::<Vec<_>>(),
            "extAfter": l.extension_after.map(|x| x as i64).unwrap_or(-1)}),
        Type::SequenceOf(inner, s) | Type::SetOf(inner, s) => json!({"k": "seqof", "set": matches!(t, Type::SetOf(..)), "of": typ(inner), "sz": size(s)}),
        Type::Enumerated(e) => json!({"k": "enum",
            "items": e.variants().map(|v| json!([v.name(), v.number().is_some(), v.number().unwrap_or(0)])).collect::<Vec<_>>(),
            "extAfter": e.extension_after_index().map(|x| x as i64).unwrap_or(-1)}),
        Type::Choice(c) => json!({"k": "choice",
            "alts": c.variants().map(|v| json!({"name": v.name(), "tag": tag(&v.tag), "t": typ(v.r#type())})).collect::<Vec<_>>(),
            "extAfter": c.extension_after_index().map(|x| x as i64).unwrap_or(-1)}),
        Type::TypeReference(name, _) => json!({"k": "ref", "name": name}),
    }
}

pub fn model(m: &Model<Asn<Resolved>>) -> Value {
    json!({
        "name": m.name,
        "oid": oid(&m.oid),
        "imports": m.imports.iter().map(|i| json!({"what": i.what, "from": i.from, "oid": oid(&i.from_oid)})).collect::<Vec<_>>(),
        "defs": m.definitions.iter().map(|d| json!({"name": d.0, "tag": tag(&d.1.tag), "t": typ(&d.1.r#type),
            "dflt": d.1.default.as_ref().map(|l| vec![literal(l)]).unwrap_or_default()})).collect::<Vec<_>>(),
        "values": m.value_references.iter().map(|v| json!({"name": v.name, "t": typ(&v.role.r#type), "v": literal(&v.value)})).collect::<Vec<_>>(),
    })
}
