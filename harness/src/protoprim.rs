//! C17 / C18 at the primitive level: ProtoWrite / ProtoRead (on Vec<u8> / &[u8]) against ProtoPrim.tla.
use crate::prim::big;
use crate::util::*;
use asn1rs::protocol::protobuf::{Format, ProtoRead, ProtoWrite};
use serde_json::json;

fn format_of(wt: u64) -> Format {
    match wt {
        0 => Format::VarInt,
        1 => Format::Fixed64,
        2 => Format::LengthDelimited,
        _ => Format::Fixed32,
    }
}

pub fn replay(input: &str, out: &mut Out) {
    let (mut n, mut bad) = (0u64, 0u64);
    let mut noncanonical = 0u64;
    for (i, c) in read_lines(input) {
        n += 1;
        let k = c["k"].as_str().unwrap().to_string();
        let exp = bytes_of(&c["octets"]);
        let v = big(&c["v"]);
        let a = c["a"].as_u64().unwrap();
        let r = guarded(|| -> Result<(), String> {
            let mut w: Vec<u8> = Vec::new();
            let wr = match k.as_str() {
                "varint" => w.write_varint(v as u64),
                "uint32" => w.write_uint32(v as u32),
                "sint32" => w.write_sint32(v as i32),
                "sint64" => w.write_sint64(v as i64),
                "sfixed32" => w.write_sfixed32(v as i32),
                "tag" => w.write_tag(v as u32, format_of(a)),
                "bool" => w.write_bool(v != 0),
                _ => unreachable!(),
            };
            wr.map_err(|e| format!("writer failed: {:?}", e))?;
            let u = big(&c["u"]) as u128;
            let width: u32 = if matches!(k.as_str(), "uint32" | "sint32" | "tag" | "bool") { 32 } else { 64 };
            if k == "sfixed32" {
                if w != exp {
                    return Err(format!("writer emitted {:02x?}, ProtoPrim.tla says {:02x?}", w, exp));
                }
            } else {
                // the writer's octets must be a well-formed varint that carries u (modulo the width of the scalar: a
                // sign-extended, longer form is legal protobuf); the canonical form is counted, not demanded
                if w.is_empty() || w.len() > 10 || w[w.len() - 1] >= 128 || w[..w.len() - 1].iter().any(|b| *b < 128) {
                    return Err(format!("writer emitted {:02x?}: not one well-formed varint", w));
                }
                let carried = w.iter().enumerate().fold(0u128, |acc, (j, b)| acc | (((*b & 0x7f) as u128) << (7 * j)));
                let mask = if width == 32 { (1u128 << 32) - 1 } else { (1u128 << 64) - 1 };
                if carried & mask != u & mask {
                    return Err(format!("writer emitted {:02x?} which carries {}, ProtoPrim.tla says {}", w, carried & mask, u));
                }
                if w != exp {
                    noncanonical += 1;
                }
            }
            // both the writer's own octets and the canonical octets are read back, each followed by a sentinel octet: the value
            // comes back and exactly these octets are consumed
            for (what, octets) in [("the writer's octets", w.clone()), ("the canonical octets", exp.clone())] {
                let mut bytes = octets.clone();
                bytes.push(0x5A);
                let mut r = &bytes[..];
                let ok = match k.as_str() {
                    "varint" => r.read_varint().map(|x| x as i128 == v),
                    "uint32" => r.read_uint32().map(|x| x as i128 == v),
                    "sint32" => r.read_sint32().map(|x| x as i128 == v),
                    "sint64" => r.read_sint64().map(|x| x as i128 == v),
                    "sfixed32" => r.read_sfixed32().map(|x| x as i128 == v),
                    "tag" => r.read_tag().map(|(f, fmt)| f as i128 == v && fmt == format_of(a)),
                    "bool" => r.read_bool().map(|x| x == (v != 0)),
                    _ => unreachable!(),
                }
                .map_err(|e| format!("reader failed on {} {:02x?}: {:?}", what, octets, e))?;
                if !ok {
                    return Err(format!("read back a different value from {} {:02x?}", what, octets));
                }
                if r != [0x5A] {
                    return Err(format!("reader consumed {} octets of {} {:02x?}", bytes.len() - r.len(), what, octets));
                }
            }
            Ok(())
        });
        let why = match r {
            Ok(Ok(())) => continue,
            Ok(Err(e)) => e,
            Err(p) => format!("panic: {}", p),
        };
        bad += 1;
        if bad <= 30 {
            out.line(&json!({"line": i, "case": c, "v_dec": v.to_string(), "why": why}));
        }
    }
    out.line(&json!({"summary": true, "cases": n, "mismatches": bad, "noncanonical_but_equivalent": noncanonical}));
}
