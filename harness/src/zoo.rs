//! Replay of type-level vectors against the compiled zoo (real macro-generated types).
use crate::prim::Sink;
use crate::util::*;
use asn1rs::prelude::*;
use serde_json::{json, Value};

pub struct Api {
    pub write: fn(usize, &Value, &mut UperWriter) -> Option<Result<(), asn1rs::protocol::per::Error>>,
    pub read: fn(usize, &mut UperReader<Bits<'_>>) -> Result<Value, asn1rs::protocol::per::Error>,
    pub twrite: fn(usize, &Value, &mut crate::uptrace::Tw) -> Option<Result<(), asn1rs::protocol::per::Error>>,
    pub tread: fn(usize, &mut crate::uptrace_read::Tr<'_>) -> Result<Value, asn1rs::protocol::per::Error>,
    pub pwrite: fn(usize, &Value, &mut ProtobufWriter<'_>) -> Option<Result<(), asn1rs::protocol::protobuf::Error>>,
    pub pread: fn(usize, &mut ProtobufReader<'_>) -> Result<Value, asn1rs::protocol::protobuf::Error>,
    pub pcheck: fn(usize, &mut ProtobufReader<'_>) -> Result<(), asn1rs::protocol::protobuf::Error>,
    pub types: &'static [usize],
}

pub fn main(api: Api) {
    let args: Vec<String> = std::env::args().collect();
    if args.len() < 4 {
        eprintln!("usage: vzoo <domain> <in.ndjson> <out.ndjson> [key=value..]");
        std::process::exit(2);
    }
    let kv: Kv = args[4..].iter().filter_map(|a| a.split_once('=').map(|(k, v)| (k.to_string(), v.to_string()))).collect();
    install_panic_hook();
    let mut out = Out::create(&args[3]);
    match args[1].as_str() {
        "uper" => {
            uper(&api, &args[2], &mut out);
            stream(&api, &args[2], &mut out);
        }
        "uptrace" => uptrace(&api, &args[2], &mut out, &kv),
        "uptrace_read" => uptrace_read(&api, &args[2], &mut out, &kv),
        "versions" => versions(&api, &args[2], &mut out),
        "decode" => decode(&api, &args[2], &mut out, &kv),
        "proto" => proto(&api, &args[2], &mut out, &kv),
        "pdecode" => pdecode(&api, &args[2], &mut out, &kv),
        other => {
            eprintln!("unknown domain {}", other);
            std::process::exit(2);
        }
    }
    out.flush();
}

fn image(bits: &Value) -> (Vec<u8>, usize) {
    let mut s = Sink::default();
    s.push_bits(bits);
    (s.bytes, s.len)
}

/// One (type, value) vector: encode with the real writer, compare with X.691, decode the writer's own output
/// (C01) and the reference bits (C02) with the real reader, always followed by a sentinel to see exact consumption.
fn uper(api: &Api, input: &str, out: &mut Out) {
    let mut n = 0u64;
    let mut stats: std::collections::BTreeMap<String, u64> = Default::default();
    let mut bump = |k: &str| *stats.entry(k.to_string()).or_insert(0) += 1;
    let mut shown: std::collections::BTreeMap<String, u64> = Default::default();
    for (i, c) in read_lines(input) {
        n += 1;
        let ti = usize_of(&c["ti"]);
        let v = &c["v"];
        let exp_ok = c["ok"].as_bool().unwrap();
        let incons = c["incons"].as_bool().unwrap();
        let mut problems: Vec<(String, String)> = Vec::new(); // (class, text)
        // ---- write
        let mut api_variant: Option<String> = None;
        let wr = guarded(|| {
            let mut w = UperWriter::default();
            let r = (api.write)(ti, v, &mut w).map(|r| r.map(|_| (w.byte_content().to_vec(), w.bit_len())));
            if let Some(Ok((bytes, len))) = &r {
                // the other ways in and out of a writer: a reader on the writer itself, a pre-sized writer, the owned octets
                match (api.read)(ti, &mut w.as_reader()) {
                    Ok(x) if x == *v || !exp_ok => {}
                    Ok(x) => api_variant = Some(format!("UperWriter::as_reader decodes {}", x)),
                    Err(e) => api_variant = Some(format!("UperWriter::as_reader fails with {}", per_err_name(&e))),
                }
                let mut w2 = UperWriter::with_capacity(i as usize % 7);
                let r2 = (api.write)(ti, v, &mut w2);
                if !matches!(r2, Some(Ok(()))) || w2.bit_len() != *len || w2.byte_content() != &bytes[..] {
                    api_variant = Some(format!("UperWriter::with_capacity({}) wrote {} bits: {}", i as usize % 7, w2.bit_len(), hex(w2.byte_content())));
                }
                let owned = w.into_bytes_vec();
                if owned != *bytes {
                    api_variant = Some(format!("UperWriter::into_bytes_vec gives {} for the content {}", hex(&owned), hex(bytes)));
                }
            }
            r
        });
        let wr_unrep = matches!(wr, Ok(None));
        let written: Option<(Vec<u8>, usize)> = match wr {
            Err(p) => {
                problems.push(("write-panic".into(), format!("writer panicked: {}", p)));
                None
            }
            Ok(None) => {
                // the properties quantify over the values of the generated Rust type: counted, not judged here (C15 judges the type)
                bump(if exp_ok { "unrepresentable-valid" } else { "unrepresentable-invalid" });
                None
            }
            Ok(Some(Err(e))) => {
                let name = per_err_name(&e);
                if incons {
                    bump("refused-inconsistent");
                    if name != "ExtensionFieldsInconsistent" {
                        problems.push(("refuse-kind".into(), format!("inconsistent extension pattern refused with {} instead of ExtensionFieldsInconsistent", name)));
                    }
                } else if exp_ok {
                    problems.push(("refused-valid".into(), format!("writer refused a valid value: {}", name)));
                } else {
                    bump("refused-invalid");
                }
                None
            }
            Ok(Some(Ok(x))) => Some(x),
        };
        if let Some((bytes, len)) = &written {
            if incons {
                problems.push(("accepted-inconsistent".into(), "writer accepted the inconsistent extension pattern it documents to refuse".into()));
            } else if !exp_ok {
                // C06: accepted a value outside the constraint; what does it decode to?
                let back = guarded(|| {
                    let mut r = UperReader::from((&bytes[..], *len));
                    (api.read)(ti, &mut r)
                });
                let what = match back {
                    Ok(Ok(x)) if x == *v => "decodes to the same value".to_string(),
                    Ok(Ok(x)) => format!("decodes to a different value {}", x),
                    Ok(Err(e)) => format!("reader fails with {}", per_err_name(&e)),
                    Err(p) => format!("reader panics: {}", p),
                };
                problems.push(("accepted-invalid".into(), format!("writer accepted a value outside the constraint ({} bits written; {})", len, what)));
            } else {
                bump("encoded");
                let (eb, el) = image(&c["bits"]);
                if *len != el || *bytes != eb {
                    problems.push(("bits".into(), format!("writer produced {} bits, X.691 demands {}{}", len, el, if *len == el { " (content differs)" } else { "" })));
                }
                // C01: decode the writer's own output, followed by a sentinel value in the same stream
                if let Some(p) = read_with_sentinel(api, ti, v, bytes, *len) {
                    problems.push(("roundtrip".into(), p));
                }
                if let Some(p) = api_variant.take() {
                    problems.push(("roundtrip".into(), p));
                }
            }
        }
        // ---- C02: the reader must decode the canonical encoding (independent of what the writer did)
        // (also for the patterns the writer refuses: they are valid encodings a peer may send - C03 "absent components decode as absent")
        if exp_ok && !matches!(wr_unrep, true) {
            let (eb, el) = image(&c["bits"]);
            if let Some(p) = read_with_sentinel(api, ti, v, &eb, el) {
                problems.push(("read-reference".into(), format!("reference bits: {}", p)));
            }
        }
        let devname = c.get("dev").and_then(|d| d.as_str()).unwrap_or("");
        if !devname.is_empty() && c.get("devbits").and_then(|b| b.as_array()).map(|b| !b.is_empty()).unwrap_or(false) {
            // the deviation of this finding is predicted exactly (Impl(Dev)): either the ideal behaviour, or the writer's bits are
            // the predicted ones and nothing but the two comparisons with the X.691 bits differs; anything else is a violation
            let (db, dl) = image(&c["devbits"]);
            let exact = written.as_ref().map(|(b, l)| *l == dl && *b == db).unwrap_or(false);
            let other: Vec<String> = problems.iter().filter(|(cl, _)| cl != "bits" && cl != "read-reference").map(|(cl, t)| format!("{}: {}", cl, t)).collect();
            if problems.is_empty() {
                // the behaviour of the ideal specification: fine as well (the finding is repaired, or does not show on this value)
                bump("dev-class-ideal");
            } else if exact && other.is_empty() {
                bump(&format!("dev:{}", devname));
            } else {
                bump("bad:dev-mismatch");
                out.line(&json!({"line": i, "class": "dev-mismatch", "case": c,
                    "why": format!("inside the class of the open finding {} the implementation no longer does what the finding describes: {}", devname,
                        if !exact { "the writer's bits are not the predicted ones".to_string() } else { other.join("; ") }),
                    "got_bits": written.as_ref().map(|(b, l)| json!({"len": l, "hex": hex(b)})).unwrap_or(Value::Null)}));
            }
            continue;
        }
        if !devname.is_empty() {
            // input class of a listed open finding: a deviation here is that finding (counted), agreement is fine too
            if !problems.is_empty() {
                bump(&format!("dev:{}", devname));
            }
            continue;
        }
        for (class, text) in problems {
            bump(&format!("bad:{}", class));
            let cnt = shown.entry(format!("{}/{}", class, ti)).or_insert(0);
            *cnt += 1;
            if *cnt <= 2 {
                let mut cc = c.clone();
                if cc["bits"].as_array().map(|b| b.len() > 400).unwrap_or(false) {
                    cc["bits"] = json!("(long)");
                }
                out.line(&json!({"line": i, "class": class, "why": text, "case": cc,
                    "got_bits": written.as_ref().map(|(b, l)| json!({"len": l, "hex": hex(b)})).unwrap_or(Value::Null)}));
            }
        }
    }
    out.line(&json!({"summary": true, "cases": n, "stats": stats}));
}

pub fn hex(b: &[u8]) -> String {
    b.iter().take(64).map(|x| format!("{:02x}", x)).collect::<Vec<_>>().join("")
}

/// Appends the sentinel bits 1 0 1 1 after `len` bits, reads the value and then the sentinel.
fn read_with_sentinel(api: &Api, ti: usize, v: &Value, bytes: &[u8], len: usize) -> Option<String> {
    // the message followed by more data in the same stream, and the message as the very last thing of the input
    read_followed_by(api, ti, v, bytes, len, &[true, false, true, true]).or_else(|| {
        read_followed_by(api, ti, v, bytes, len, &[]).map(|p| format!("message at the very end of the input (declared length = message length): {}", p))
    })
}

fn read_followed_by(api: &Api, ti: usize, v: &Value, bytes: &[u8], len: usize, sentinel: &[bool]) -> Option<String> {
    let mut s = Sink { bytes: bytes.to_vec(), len };
    // clear padding bits, then append
    if len % 8 != 0 {
        let last = s.bytes.len() - 1;
        s.bytes[last] &= 0xFFu8 << (8 - len % 8);
    }
    s.bytes.truncate((len + 7) / 8);
    for b in sentinel {
        s.push(*b);
    }
    let total = s.len;
    let r = guarded(|| {
        let mut r = UperReader::from((&s.bytes[..], total));
        let x = (api.read)(ti, &mut r);
        (x, r.bits_remaining())
    });
    match r {
        Err(p) => Some(format!("reader panicked: {}", p)),
        Ok((Err(e), _)) => Some(format!("reader failed: {}", per_err_name(&e))),
        Ok((Ok(x), rem)) => {
            if x != *v {
                Some(format!("decoded a different value: {}", x))
            } else if rem != sentinel.len() {
                Some(format!("reader consumed {} bits instead of {}", total - rem, len))
            } else {
                None
            }
        }
    }
}

fn stream(api: &Api, input: &str, out: &mut Out) {
    let cases: Vec<Value> = read_lines(input)
        .map(|(_, c)| c)
        .filter(|c| c["ok"].as_bool().unwrap() && !c["incons"].as_bool().unwrap()
            && c.get("dev").and_then(|d| d.as_str()).unwrap_or("").is_empty()
            && c["bits"].as_array().unwrap().len() < 4000)
        .collect();
    let (mut n, mut bad) = (0u64, 0u64);
    let k = 3usize;
    // every window of k consecutive vectors plus windows with a stride, so that types are mixed
    let mut groups: Vec<Vec<usize>> = Vec::new();
    for i in 0..cases.len().saturating_sub(k) {
        groups.push((i..i + k).collect());
        groups.push(vec![i, (i * 7 + 13) % cases.len(), (i * 31 + 5) % cases.len()]);
    }
    for g in groups {
        n += 1;
        let r = guarded(|| -> Option<String> {
            let mut w = UperWriter::default();
            let mut exp = Sink::default();
            for &i in &g {
                let c = &cases[i];
                match (api.write)(usize_of(&c["ti"]), &c["v"], &mut w) {
                    None => return Some("skip".into()),
                    Some(Err(e)) => return Some(format!("write {} of the history refused: {}", i, per_err_name(&e))),
                    Some(Ok(())) => {}
                }
                exp.push_bits(&c["bits"]);
                if w.bit_len() != exp.len {
                    return Some(format!("after value {} the stream has {} bits, the concatenated reference has {}", i, w.bit_len(), exp.len));
                }
            }
            if w.byte_content() != &exp.bytes[..] {
                return Some("stream content differs from the concatenated reference encodings".into());
            }
            let bytes = w.byte_content().to_vec();
            let mut r = UperReader::from((&bytes[..], w.bit_len()));
            for &i in &g {
                let c = &cases[i];
                match (api.read)(usize_of(&c["ti"]), &mut r) {
                    Err(e) => return Some(format!("read {} of the history failed: {}", i, per_err_name(&e))),
                    Ok(x) => {
                        if x != c["v"] {
                            return Some(format!("read {} of the history returned {}", i, x));
                        }
                    }
                }
            }
            if r.bits_remaining() != 0 {
                return Some(format!("{} bits remain after the last read", r.bits_remaining()));
            }
            None
        });
        let why = match r {
            Ok(None) => continue,
            Ok(Some(s)) if s == "skip" => continue,
            Ok(Some(s)) => s,
            Err(p) => format!("panic: {}", p),
        };
        bad += 1;
        if bad <= 20 {
            out.line(&json!({"class": "stream", "why": why, "history": g.iter().map(|&i| json!({"ti": cases[i]["ti"], "v": cases[i]["v"]})).collect::<Vec<_>>()}));
        }
    }
    out.line(&json!({"summary_stream": true, "histories": n, "bad": bad}));
}

/// C05: value written under schema version tw (followed by the sentinel INTEGER(0..7) = 5 of zoo type 1 in the same
/// stream), read under version tr: the expected value is Versions!Conv, then the sentinel, then nothing.
fn versions(api: &Api, input: &str, out: &mut Out) {
    let mut n = 0u64;
    let mut stats: std::collections::BTreeMap<String, u64> = Default::default();
    let mut shown: std::collections::BTreeMap<String, u64> = Default::default();
    for (i, c) in read_lines(input) {
        n += 1;
        let (tw, tr) = (usize_of(&c["tw"]), usize_of(&c["tr"]));
        let unknown = c["unknown"].as_bool().unwrap();
        let devname = c["dev"].as_str().unwrap_or("");
        let r = guarded(|| -> Result<(), (String, String)> {
            let mut w = UperWriter::default();
            match (api.write)(tw, &c["v"], &mut w) {
                None => return Err(("harness".into(), "value not constructible".into())),
                Some(Err(e)) => return Err(("write".into(), format!("writer refused: {}", per_err_name(&e)))),
                Some(Ok(())) => {}
            }
            let (eb, el) = image(&c["bits"]);
            if w.bit_len() != el || w.byte_content() != &eb[..] {
                return Err(("bits".into(), format!("writer produced {} bits, X.691 demands {}", w.bit_len(), el)));
            }
            (api.write)(1, &json!(5), &mut w).unwrap().map_err(|e| ("write".to_string(), per_err_name(&e)))?;
            let bytes = w.byte_content().to_vec();
            let mut r = UperReader::from((&bytes[..], w.bit_len()));
            match (api.read)(tr, &mut r) {
                Err(e) => {
                    if unknown {
                        return Ok(()); // an unknown alternative / item may be reported as an error
                    }
                    return Err(("read-err".into(), format!("reader failed: {}", per_err_name(&e))));
                }
                Ok(x) => {
                    if unknown {
                        return Err(("wrong-value".into(), format!("unknown alternative/item decoded as a value: {}", x)));
                    }
                    if x != c["exp"] {
                        return Err(("wrong-value".into(), format!("decoded {} instead of {}", x, c["exp"])));
                    }
                }
            }
            if c["devexact"].as_bool().unwrap_or(false) {
                // open finding, modelled exactly: the value is right and precisely the unknown additions stay unread
                let unread = usize_of(&c["unread"]);
                if r.bits_remaining() != unread + 3 {
                    return Err(("dev-mismatch".into(), format!("open finding NoSkipUnknownAdditions predicts {} unread bits before the sentinel, found {}", unread, r.bits_remaining() - 3.min(r.bits_remaining()))));
                }
                return Err(("dev-exact".into(), "unknown extension additions stay unread".into()));
            }
            match (api.read)(1, &mut r) {
                Ok(s) if s == json!(5) => {}
                Ok(s) => return Err(("sentinel".into(), format!("the value following the message was read as {} instead of 5", s))),
                Err(e) => return Err(("sentinel".into(), format!("the value following the message could not be read: {}", per_err_name(&e)))),
            }
            if r.bits_remaining() != 0 {
                return Err(("sentinel".into(), format!("{} bits remain after the sentinel", r.bits_remaining())));
            }
            Ok(())
        });
        let (class, why) = match r {
            Ok(Ok(())) => {
                *stats.entry(if tw == tr { "same-version" } else if unknown { "unknown-reported" } else { "cross-version-ok" }.to_string()).or_insert(0) += 1;
                continue;
            }
            Ok(Err(x)) => x,
            Err(p) => ("panic".to_string(), format!("panic: {}", p)),
        };
        if !devname.is_empty() && class != "dev-mismatch" && (class == "dev-exact" || !c["devexact"].as_bool().unwrap_or(false)) {
            *stats.entry(format!("dev:{}", devname)).or_insert(0) += 1;
            continue;
        }
        *stats.entry(format!("bad:{}", class)).or_insert(0) += 1;
        let cnt = shown.entry(format!("{}/{}/{}", class, tw, tr)).or_insert(0);
        *cnt += 1;
        if *cnt <= 2 {
            let mut cc = c.clone();
            cc["bits"] = json!(format!("({} bits)", c["bits"].as_array().unwrap().len()));
            out.line(&json!({"line": i, "class": class, "why": why, "case": cc}));
        }
    }
    out.line(&json!({"summary": true, "cases": n, "stats": stats}));
}

/// C04 / C19: arbitrary bits into the real reader. Per case: no panic, no hang (watchdog), bounded allocation, never
/// Ok after consuming more than the declared bits, accessors callable after a failure. A compact outcome line per
/// case goes to `outcomes=<file>` so that two builds (feature off / on) can be compared case by case (C19).
fn decode(api: &Api, input: &str, out: &mut Out, kv: &Kv) {
    use std::io::Write;
    let start = kv_u64(kv, "start", 0) as usize;
    let mut progress = crate::sandbox::Progress::new(kv.get("progress").expect("progress=<file>"), std::time::Duration::from_secs(kv_u64(kv, "limit_s", 3)));
    let mut outcomes = kv.get("outcomes").map(|p| {
        std::io::BufWriter::new(std::fs::OpenOptions::new().create(true).append(true).open(p).expect("outcomes file"))
    });
    let mut stats: std::collections::BTreeMap<String, u64> = Default::default();
    let mut shown: std::collections::BTreeMap<String, u64> = Default::default();
    let mut n = 0u64;
    for (i, c) in read_lines(input) {
        if i < start {
            continue;
        }
        n += 1;
        let ti = usize_of(&c["ti"]);
        let (bytes, len) = image(&c["bits"]);
        // variants of the declaration: exact length; whole bytes declared; fewer bits declared than supplied
        let mut variants: Vec<(Vec<u8>, usize, &str)> = vec![(bytes.clone(), len, "exact")];
        if len % 8 != 0 {
            variants.push((bytes.clone(), bytes.len() * 8, "padded"));
        }
        if len >= 3 {
            let mut longer = bytes.clone();
            longer.extend_from_slice(&[0xFF, 0xFF]);
            variants.push((longer, len - 2, "declared-shorter"));
        }
        for (vi, (bytes, len, vname)) in variants.iter().enumerate() {
            progress.begin(i);
            let base = crate::alloc::reset_peak();
            let r = guarded(|| {
                let mut r = UperReader::from((&bytes[..], *len));
                let x = (api.read)(ti, &mut r);
                // accessors must stay callable after a failed read
                let rem = r.bits_remaining();
                (x, rem)
            });
            let peak = crate::alloc::peak_since(base);
            progress.end();
            let mut problems: Vec<(String, String)> = Vec::new();
            let outcome = match &r {
                Err(p) => {
                    problems.push(("panic".into(), format!("panic: {}", p)));
                    "panic".to_string()
                }
                Ok((Ok(x), rem)) => {
                    if *rem > *len {
                        problems.push(("over-read".into(), format!("Ok with {} bits remaining of {} declared", rem, len)));
                    }
                    format!("ok {} {}", x, len.wrapping_sub(*rem))
                }
                Ok((Err(e), rem)) => format!("err {} {}", per_err_name(e), len.wrapping_sub(*rem)),
            };
            let limit = (64usize << 20) + 64 * bytes.len();
            if peak > limit {
                problems.push(("alloc".into(), format!("peak allocation {} bytes for an input of {} bytes", peak, bytes.len())));
            }
            *stats.entry(outcome.split(' ').next().unwrap().to_string()).or_insert(0) += 1;
            if let Some(o) = outcomes.as_mut() {
                let _ = writeln!(o, "{} {} {}", i, vi, outcome);
            }
            for (class, why) in problems {
                *stats.entry(format!("bad:{}", class)).or_insert(0) += 1;
                let key = format!("{}/{}", class, why.chars().take(60).collect::<String>());
                let cnt = shown.entry(key).or_insert(0);
                *cnt += 1;
                if *cnt <= 3 {
                    out.line(&json!({"line": i, "class": class, "why": why, "declared": vname, "declared_bits": len, "hex": hex(bytes), "case": c}));
                out.flush(); // the watchdog may end the process at a later case: nothing found so far may be lost
                }
            }
        }
    }
    if let Some(o) = outcomes.as_mut() {
        let _ = o.flush();
    }
    out.line(&json!({"summary": true, "cases": n, "stats": stats}));
}

/// proto3 default equivalence on the JSON value encoding: an absent OPTIONAL ([]) equals a present default-ish value.
fn proto_eq(a: &Value, b: &Value) -> bool {
    fn defaultish(v: &Value) -> bool {
        match v {
            Value::Number(n) => n.as_i64() == Some(0),
            Value::Bool(b) => !*b,
            Value::Array(a) => a.is_empty(),
            _ => false,
        }
    }
    match (a, b) {
        (Value::Array(x), Value::Array(y)) => {
            if x.len() == y.len() {
                x.iter().zip(y.iter()).all(|(p, q)| proto_eq(p, q))
            } else if x.is_empty() && y.len() == 1 {
                defaultish(&y[0])
            } else if y.is_empty() && x.len() == 1 {
                defaultish(&x[0])
            } else {
                false
            }
        }
        (Value::Object(x), Value::Object(y)) => x.len() == y.len() && x.iter().all(|(k, v)| y.get(k).map(|w| proto_eq(v, w)).unwrap_or(false)),
        _ => a == b,
    }
}

/// C17 (+ bytes for C18): protobuf writer (growable and fixed-slice back end) and reader on the compiled zoo, under a watchdog.
fn proto(api: &Api, input: &str, out: &mut Out, kv: &Kv) {
    use std::io::Write;
    let start = kv_u64(kv, "start", 0) as usize;
    let mut progress = crate::sandbox::Progress::new(kv.get("progress").expect("progress=<file>"), std::time::Duration::from_secs(3));
    let mut events = kv.get("events").map(|p| std::io::BufWriter::new(std::fs::OpenOptions::new().create(true).append(true).open(p).expect("events file")));
    let mut stats: std::collections::BTreeMap<String, u64> = Default::default();
    let mut n = 0u64;
    let mut previous: Option<(usize, Value)> = None;
    for (i, c) in read_lines(input) {
        if i < start {
            continue;
        }
        n += 1;
        let ti = usize_of(&c["ti"]);
        let v = &c["v"];
        let devname = c["dev"].as_str().unwrap_or("");
        progress.begin(i);
        let base = crate::alloc::reset_peak();
        let mut produced: Option<Vec<u8>> = None;
        let prev = previous.take();
        let r = guarded(|| -> Result<Vec<u8>, (String, String)> {
            let mut w = ProtobufWriter::default();
            match (api.pwrite)(ti, v, &mut w) {
                None => return Err(("harness".into(), "value not constructible".into())),
                Some(Err(e)) => return Err(("write".into(), format!("growable writer failed: {:?}", e))),
                Some(Ok(())) => {}
            }
            let bytes = w.as_bytes().to_vec();
            produced = Some(bytes.clone());
            // a writer that has written another message before writes the same octets (messages are split by the caller at the
            // number of octets written so far)
            if let Some((pti, pv)) = &prev {
                let mut w2 = ProtobufWriter::default();
                if let Some(Ok(())) = (api.pwrite)(*pti, pv, &mut w2) {
                    let l1 = w2.as_bytes().len();
                    let second = match (api.pwrite)(ti, v, &mut w2) {
                        Some(Ok(())) => w2.as_bytes()[l1..].to_vec(),
                        other => return Err(("reuse".into(), format!("a writer that wrote another message before fails: {:?}", other.map(|r| r.err().map(|e| format!("{:?}", e)))))),
                    };
                    if second != bytes {
                        return Err(("reuse".into(), format!("as second message of one writer the octets are {}, as first {}", hex(&second), hex(&bytes))));
                    }
                }
            }
            // a reader on the writer itself sees the same message
            match (api.pread)(ti, &mut w.as_reader()) {
                Ok(x) if x == *v || proto_eq(&x, v) => {}
                Ok(x) => return Err(("roundtrip".into(), format!("ProtobufWriter::as_reader reads back {} (bytes {})", x, hex(&bytes)))),
                Err(e) => return Err(("read".into(), format!("ProtobufWriter::as_reader fails on {}: {:?}", hex(&bytes), e))),
            }
            // the fixed-slice back end must produce identical bytes
            let mut buf = vec![0u8; bytes.len() + 16];
            let written = {
                let mut ws = ProtobufWriter::from(&mut buf[..]);
                match (api.pwrite)(ti, v, &mut ws) {
                    Some(Ok(())) => ws.as_bytes().to_vec(),
                    Some(Err(e)) => return Err(("backends".into(), format!("fixed-slice writer failed: {:?}", e))),
                    None => unreachable!(),
                }
            };
            if written != bytes {
                return Err(("backends".into(), format!("fixed-slice back end wrote {} instead of {}", hex(&written), hex(&bytes))));
            }
            // ... on a slice of every capacity: exactly the message fits; on a smaller slice the writer must say so (it has
            // no way to be right) - all capacities up to 48 octets, then the last ones and the middle
            let len = bytes.len();
            let caps = (0..=len.min(48)).chain([len / 2, len.saturating_sub(2), len.saturating_sub(1), len]).filter(|c| *c <= len);
            for cap in caps {
                let mut buf = vec![0u8; cap];
                let mut ws = ProtobufWriter::from(&mut buf[..]);
                let res = (api.pwrite)(ti, v, &mut ws).expect("constructible");
                let got = ws.as_bytes().to_vec();
                match res {
                    Ok(()) if got == bytes => {}
                    Ok(()) => return Err(("backends".into(), format!(
                        "fixed-slice back end reports success on a slice of {} octets with {} where the message is {} ({} octets)", cap, hex(&got), hex(&bytes), len))),
                    Err(_) if cap < len => {}
                    Err(e) => return Err(("backends".into(), format!("fixed-slice writer failed on a slice that fits exactly ({} octets): {:?}", len, e))),
                }
            }
            let mut r = ProtobufReader::from(&bytes[..]);
            match (api.pread)(ti, &mut r) {
                Err(e) => Err(("read".into(), format!("reader failed on the writer's bytes {}: {:?}", hex(&bytes), e))),
                Ok(x) => {
                    if x == *v || proto_eq(&x, v) {
                        Ok(bytes)
                    } else {
                        Err(("roundtrip".into(), format!("read back {} (bytes {})", x, hex(&bytes))))
                    }
                }
            }
        });
        let peak = crate::alloc::peak_since(base);
        progress.end();
        // C18 judges the writer's bytes against the declared schema whether or not the reader copes with them
        if let (Some(bytes), true) = (&produced, devname.is_empty()) {
            if let Some(e) = events.as_mut() {
                let _ = writeln!(e, "{}", json!({"ti": ti, "v": v, "bytes": bytes}));
                let _ = e.flush(); // the process may be ended by the watchdog at the next case
            }
        }
        if matches!(r, Ok(Ok(_))) && devname.is_empty() {
            previous = Some((ti, v.clone()));
        }
        let problem = match r {
            Ok(Ok(bytes)) => {
                if peak > (64usize << 20) {
                    Some(("alloc".to_string(), format!("peak allocation {} bytes", peak)))
                } else {
                    *stats.entry("ok".into()).or_insert(0) += 1;
                    let _ = bytes;
                    None
                }
            }
            Ok(Err(x)) => Some(x),
            Err(p) => Some(("panic".to_string(), format!("panic: {}", p))),
        };
        if let Some((class, why)) = problem {
            if !devname.is_empty() {
                // (a line of its own, flushed: the summary of this process is lost if the watchdog ends it at a later case)
                out.line(&json!({"devhit": devname, "line": i}));
                out.flush();
                continue;
            }
            *stats.entry(format!("bad:{}", class)).or_insert(0) += 1;
            out.line(&json!({"line": i, "class": class, "why": why, "case": c}));
            out.flush(); // the watchdog may end the process at a later case: nothing found so far may be lost
        }
    }
    if let Some(e) = events.as_mut() {
        let _ = e.flush();
    }
    out.line(&json!({"summary": true, "cases": n, "stats": stats}));
}

/// T direction for the writer machine: every vector is written through the tracing wrapper; the events (one reset event per
/// vector, then the per-call events with buffer snapshots) are the trace Trace_Uper.tla validates.
fn uptrace(api: &Api, input: &str, out: &mut Out, kv: &Kv) {
    let max_bits = kv_u64(kv, "maxbits", 400) as usize;
    let stride = kv_u64(kv, "stride", 1);
    let (mut n, mut traced, mut events) = (0u64, 0u64, 0u64);
    for (i, c) in read_lines(input) {
        n += 1;
        if (i as u64) % stride != 0 || c["dev"].as_str().unwrap_or("") != "" || c["bits"].as_array().map(|b| b.len()).unwrap_or(0) > max_bits {
            continue;
        }
        let ti = usize_of(&c["ti"]);
        let mut w = crate::uptrace::Tw::default();
        let _ = crate::uptrace::take_events();
        let r = guarded(|| (api.twrite)(ti, &c["v"], &mut w));
        let evs = crate::uptrace::take_events();
        let (ok, plain) = match r {
            Err(p) => {
                out.line(&json!({"ev": "panic", "line": i, "ti": ti, "why": p}));
                continue;
            }
            Ok(None) => continue, // value not representable in the generated Rust type
            Ok(Some(r)) => {
                // the wrapper must be transparent: same bytes as the plain writer
                let mut p = UperWriter::default();
                let pr = (api.write)(ti, &c["v"], &mut p);
                let same = pr.map(|x| x.is_ok()) == Some(r.is_ok()) && (r.is_err() || (p.bit_len() == w.0.bit_len() && p.byte_content() == w.0.byte_content()));
                (r.is_ok(), same)
            }
        };
        traced += 1;
        events += evs.len() as u64 + 1;
        out.line(&json!({"ev": "reset", "ph": "call", "line": i, "ti": ti, "ok": ok, "transparent": plain}));
        for e in evs {
            out.line(&e);
        }
    }
    out.line(&json!({"ev": "summary", "ph": "call", "cases": n, "traced": traced, "events": events}));
}

/// C04 for the protobuf reader: every fault descriptor of MC_ByteFaults applied to every valid encoding the real writer
/// produces for the protobuf zoo (seeds=<vectors>), decoded as the seed's own type and as the next type of the zoo;
/// raw descriptors are decoded as every type.  Case index = descriptor index * SEEDCAP + seed index (restartable).
fn pdecode(api: &Api, input: &str, out: &mut Out, kv: &Kv) {
    const SEEDCAP: usize = 100_000;
    let start = kv_u64(kv, "start", 0) as usize;
    let stride = kv_u64(kv, "seedstride", 1) as usize;
    let mut progress = crate::sandbox::Progress::new(kv.get("progress").expect("progress=<file>"), std::time::Duration::from_secs(kv_u64(kv, "limit_s", 3)));
    let (tables, descs) = crate::bytefault::load(input);
    // seeds: the real writer's bytes for every vector that can be written
    let mut seeds: Vec<(usize, Vec<u8>)> = Vec::new();
    // types inside the class of an open protobuf finding (no proto3 mapping exists for them) are not decode targets
    let mut devtypes: std::collections::BTreeMap<usize, String> = Default::default();
    for (_i, c) in read_lines(kv.get("seeds").expect("seeds=<vectors>")) {
        if c["dev"].as_str().unwrap_or("") != "" {
            devtypes.insert(usize_of(&c["ti"]), c["dev"].as_str().unwrap().to_string());
            continue;
        }
        let ti = usize_of(&c["ti"]);
        let r = guarded(|| {
            let mut w = ProtobufWriter::default();
            match (api.pwrite)(ti, &c["v"], &mut w) {
                Some(Ok(())) => Some(w.as_bytes().to_vec()),
                _ => None,
            }
        });
        if let Ok(Some(b)) = r {
            if !seeds.iter().any(|(t, x)| *t == ti && *x == b) {
                seeds.push((ti, b));
            }
        }
    }
    assert!(seeds.len() < SEEDCAP);
    // only the classes whose finding covers this property are excluded (exclude=<Dev names>)
    let excluded: Vec<&str> = kv.get("exclude").map(|s| s.split(',').collect()).unwrap_or_default();
    devtypes.retain(|_, d| excluded.contains(&d.as_str()));
    let targets: Vec<usize> = api.types.iter().copied().filter(|t| !devtypes.contains_key(t)).collect();
    let ntypes = targets.len();
    let show = kv.get("show").map(|s| s.parse::<usize>().unwrap());
    let mut stats: std::collections::BTreeMap<String, u64> = Default::default();
    let mut shown: std::collections::BTreeMap<String, u64> = Default::default();
    let mut n = 0u64;
    let mut run = |idx: usize, ti: usize, bytes: &[u8], what: &Value, out: &mut Out, progress: &mut crate::sandbox::Progress| {
        n += 1;
        if show == Some(idx) {
            // identify the input of an incident (hang / abort) for the report
            out.line(&json!({"show": idx, "type": ti, "hex": hex(bytes), "fault": what}));
            out.flush();
        }
        progress.begin(idx);
        let base = crate::alloc::reset_peak();
        let r = guarded(|| {
            let mut r = ProtobufReader::from(bytes);
            (api.pcheck)(ti, &mut r)
        });
        let peak = crate::alloc::peak_since(base);
        progress.end();
        let mut problems: Vec<(String, String)> = Vec::new();
        match &r {
            Err(p) => {
                problems.push(("panic".into(), format!("panic: {}", p)));
                *stats.entry("panic".into()).or_insert(0) += 1;
            }
            Ok(Ok(())) => *stats.entry("ok".into()).or_insert(0) += 1,
            Ok(Err(_)) => *stats.entry("err".into()).or_insert(0) += 1,
        }
        if peak > (64usize << 20) + 64 * bytes.len() {
            problems.push(("alloc".into(), format!("peak allocation {} bytes for an input of {} bytes", peak, bytes.len())));
        }
        for (class, why) in problems {
            *stats.entry(format!("bad:{}", class)).or_insert(0) += 1;
            let key = format!("{}/{}", class, why.chars().take(70).collect::<String>());
            let cnt = shown.entry(key).or_insert(0);
            *cnt += 1;
            if *cnt <= 2 {
                out.line(&json!({"index": idx, "class": class, "why": why, "type": ti, "hex": hex(bytes), "fault": what}));
                out.flush(); // the watchdog may end the process at a later case: nothing found so far may be lost
            }
        }
    };
    for (di, (_line, d)) in descs.iter().enumerate() {
        if (di + 1) * SEEDCAP <= start {
            continue;
        }
        let what = crate::bytefault::describe(d);
        match d {
            crate::bytefault::Desc::Raw(b) => {
                for k in 0..ntypes {
                    let idx = di * SEEDCAP + k;
                    if idx >= start {
                        run(idx, targets[k], b, &what, out, &mut progress);
                    }
                }
            }
            crate::bytefault::Desc::Seq(fs) => {
                for (si, (ti, seed)) in seeds.iter().enumerate() {
                    let idx = di * SEEDCAP + si;
                    if idx < start || (si + di) % stride != 0 {
                        continue;
                    }
                    let m = crate::bytefault::apply_all(seed, fs, &tables);
                    if m == *seed {
                        continue;
                    }
                    run(idx, *ti, &m, &what, out, &mut progress);
                    // the same bytes under a different schema
                    let pos = targets.iter().position(|t| t == ti).unwrap();
                    run(idx, targets[(pos + 1) % ntypes], &m, &what, out, &mut progress);
                }
            }
        }
    }
    out.line(&json!({"summary": true, "cases": n, "seeds": seeds.len(), "descriptors": descs.len(), "stats": stats, "devtypes": devtypes}));
}

/// T direction for the reader machine: the reference bits of every vector are read through the tracing wrapper; one reset
/// event per message (with the message bits), then the per-call events with the number of bits consumed.
fn uptrace_read(api: &Api, input: &str, out: &mut Out, kv: &Kv) {
    let max_bits = kv_u64(kv, "maxbits", 400) as usize;
    let stride = kv_u64(kv, "stride", 1);
    let (mut n, mut traced, mut events) = (0u64, 0u64, 0u64);
    for (i, c) in read_lines(input) {
        n += 1;
        let nbits = c["bits"].as_array().map(|b| b.len()).unwrap_or(0);
        // versions vectors: the bits were written under schema tw and are read under schema tr (also inside the class of
        // the open finding: the trace specification models the deviation); same-version vectors: valid encodings only
        let cross = c.get("tr").is_some();
        if (i as u64) % stride != 0 || nbits > max_bits || nbits == 0 && cross
            || (!cross && (c["dev"].as_str().unwrap_or("") != "" || !c["ok"].as_bool().unwrap_or(false)))
        {
            continue;
        }
        let ti = usize_of(if cross { &c["tr"] } else { &c["ti"] });
        let (bytes, len) = image(&c["bits"]);
        let _ = crate::uptrace::take_events();
        let r = guarded(|| {
            let mut r = crate::uptrace_read::Tr::new(&bytes[..], len);
            (api.tread)(ti, &mut r)
        });
        let evs = crate::uptrace::take_events();
        let (ok, same) = match r {
            Err(p) => {
                out.line(&json!({"ev": "panic", "line": i, "ti": ti, "why": p}));
                continue;
            }
            Ok(r) => {
                // the wrapper must be transparent: same result as the plain reader
                let mut p = UperReader::from((&bytes[..], len));
                let pr = (api.read)(ti, &mut p);
                let same = match (&r, &pr) {
                    (Ok(a), Ok(b)) => a == b,
                    (Err(_), Err(_)) => true,
                    _ => false,
                };
                (r.is_ok(), same)
            }
        };
        traced += 1;
        events += evs.len() as u64 + 1;
        out.line(&json!({"ev": "reset", "ph": "call", "line": i, "ti": ti, "ok": ok, "transparent": same, "bits": c["bits"]}));
        for e in evs {
            out.line(&e);
        }
    }
    out.line(&json!({"ev": "summary", "ph": "call", "cases": n, "traced": traced, "events": events}));
}
