//! C20: DER primitives (BasicWrite on Vec<u8>, BasicRead on &[u8]) against Der.tla.
use crate::prim::big;
use crate::util::*;
use asn1rs::protocol::basic::{BasicRead, BasicWrite};
use asn1rs_model::asn::Tag;
use serde_json::{json, Value};

fn tag_of(cls: u64, num: u64) -> Tag {
    match cls {
        0 => Tag::Universal(num as usize),
        1 => Tag::Application(num as usize),
        2 => Tag::ContextSpecific(num as usize),
        _ => Tag::Private(num as usize),
    }
}

pub fn replay(input: &str, out: &mut Out) {
    let (mut n, mut bad) = (0u64, 0u64);
    for (i, c) in read_lines(input) {
        n += 1;
        let k = c["k"].as_str().unwrap();
        let exp = bytes_of(&c["octets"]);
        let v = big(&c["v"]);
        let (a, b) = (c["a"].as_u64().unwrap(), c["b"].as_u64().unwrap());
        let r = guarded(|| -> Result<(), String> {
            if matches!(k, "tint" | "tbool" | "tenum") {
                return typed(k, v, a, b, &exp);
            }
            let mut w: Vec<u8> = Vec::new();
            // ---- write
            let wr = match k {
                "len" => w.write_length(v as u64),
                "tag" => w.write_identifier(tag_of(a, b)),
                "i64" => w.write_integer_i64(v as i64),
                "u64" | "enum" => w.write_integer_u64(v as u64),
                "bool" => w.write_boolean(a != 0),
                _ => unreachable!(),
            };
            if let Err(e) = wr {
                return Err(format!("writer failed: {:?}", e));
            }
            if k == "bool" {
                // reading accepts every non-zero octet as TRUE
                let octet = [a as u8, 0xAA];
                let mut r = &octet[..];
                let x = r.read_boolean().map_err(|e| format!("reader failed: {:?}", e))?;
                if x != (a != 0) || r.len() != 1 {
                    return Err(format!("octet {:#04x} read as {} (remaining {})", a, x, r.len()));
                }
                if w != vec![if a != 0 { 1 } else { 0 }] {
                    return Err(format!("boolean written as {:?}", w));
                }
                return Ok(());
            }
            if w != exp {
                return Err(format!("writer emitted {:02x?}, Der.tla says {:02x?}", w, exp));
            }
            // ---- the same call into a sink that accepts at most n octets per write call (a socket, a pipe): same octets
            for n in 1..=2usize {
                let mut s = Sink { data: Vec::new(), n };
                let wr = match k {
                    "len" => s.write_length(v as u64),
                    "tag" => s.write_identifier(tag_of(a, b)),
                    "i64" => s.write_integer_i64(v as i64),
                    "u64" | "enum" => s.write_integer_u64(v as u64),
                    _ => unreachable!(),
                };
                if let Err(e) = wr {
                    return Err(format!("writer failed on a sink accepting {} octets per call: {:?}", n, e));
                }
                if s.data != exp {
                    return Err(format!("writer emitted {:02x?} into a sink accepting {} octets per call, Der.tla says {:02x?}", s.data, n, exp));
                }
            }
            // ---- read back, followed by a sentinel octet: exactly the written bytes must be consumed
            let mut bytes = w.clone();
            bytes.push(0x5A);
            let mut r = &bytes[..];
            let ok = match k {
                "len" => r.read_length().map(|x| x as i128 == v).map_err(|e| format!("{:?}", e))?,
                "tag" => r.read_identifier().map(|t| t == tag_of(a, b)).map_err(|e| format!("{:?}", e))?,
                "i64" => r.read_integer_i64(w.len() as u32).map(|x| x as i128 == v).map_err(|e| format!("{:?}", e))?,
                "u64" | "enum" => r.read_integer_u64(w.len() as u32).map(|x| x as i128 == v).map_err(|e| format!("{:?}", e))?,
                _ => unreachable!(),
            };
            if !ok {
                return Err("read back a different value".to_string());
            }
            if r != [0x5A] {
                return Err(format!("reader consumed {} bytes, writer wrote {}", bytes.len() - r.len(), w.len()));
            }
            // ---- the same octets from a source that delivers them in pieces of at most n (socket, BufReader boundary):
            //      the value and the position behind it do not depend on how the octets arrive
            for n in 1..=3usize {
                let mut r = Pieces { data: &bytes[..], n };
                let ok = match k {
                    "len" => r.read_length().map(|x| x as i128 == v).map_err(|e| format!("in pieces of {}: {:?}", n, e))?,
                    "tag" => r.read_identifier().map(|t| t == tag_of(a, b)).map_err(|e| format!("in pieces of {}: {:?}", n, e))?,
                    "i64" => r.read_integer_i64(w.len() as u32).map(|x| x as i128 == v).map_err(|e| format!("in pieces of {}: {:?}", n, e))?,
                    "u64" | "enum" => r.read_integer_u64(w.len() as u32).map(|x| x as i128 == v).map_err(|e| format!("in pieces of {}: {:?}", n, e))?,
                    _ => unreachable!(),
                };
                if !ok {
                    return Err(format!("read back a different value from a source delivering pieces of {}", n));
                }
                if r.data != [0x5A] {
                    return Err(format!("reader consumed {} bytes from a source delivering pieces of {}, writer wrote {}", bytes.len() - r.data.len(), n, w.len()));
                }
            }
            Ok(())
        });
        let why = match r {
            Ok(Ok(())) => continue,
            Ok(Err(e)) => e,
            Err(p) => format!("panic: {}", p),
        };
        bad += 1;
        if bad <= 30 {
            out.line(&json!({"line": i, "case": c, "v_dec": v.to_string(), "why": why}));
        }
    }
    out.line(&json!({"summary": true, "cases": n, "mismatches": bad}));
}

/// A sink that accepts at most `n` octets per write call.
struct Sink {
    data: Vec<u8>,
    n: usize,
}

impl std::io::Write for Sink {
    fn write(&mut self, buf: &[u8]) -> std::io::Result<usize> {
        let k = buf.len().min(self.n);
        self.data.extend_from_slice(&buf[..k]);
        Ok(k)
    }
    fn flush(&mut self) -> std::io::Result<()> {
        Ok(())
    }
}

/// A source that hands out its octets in pieces of at most `n` per read call.
struct Pieces<'a> {
    data: &'a [u8],
    n: usize,
}

impl std::io::Read for Pieces<'_> {
    fn read(&mut self, buf: &mut [u8]) -> std::io::Result<usize> {
        let k = buf.len().min(self.n).min(self.data.len());
        buf[..k].copy_from_slice(&self.data[..k]);
        self.data = &self.data[k..];
        Ok(k)
    }
}

/// The typed layer: BasicWriter / BasicReader for INTEGER, BOOLEAN and ENUMERATED (root-only and extensible item lists).
fn typed(k: &str, v: i128, a: u64, b: u64, exp: &[u8]) -> Result<(), String> {
    use asn1rs::descriptor::{boolean, numbers, Reader, Writer};
    use asn1rs::protocol::basic::DER;
    let mut bytes = exp.to_vec();
    bytes.push(0x5A);
    let check = |w: Vec<u8>| if w != exp { Err(format!("typed writer emitted {:02x?}, Der.tla says {:02x?}", w, exp)) } else { Ok(()) };
    let rest = |r: &[u8]| if r != [0x5A] { Err(format!("typed reader left {} octets, 1 expected", r.len())) } else { Ok(()) };
    match k {
        "tint" => {
            let mut w = DER::writer(Vec::new());
            w.write_number::<i64, numbers::NoConstraint>(v as i64).map_err(|e| format!("typed writer failed: {:?}", e))?;
            check(w.into_inner())?;
            let mut r = DER::reader(&bytes[..]);
            let x = r.read_number::<i64, numbers::NoConstraint>().map_err(|e| format!("typed reader failed: {:?}", e))?;
            if x as i128 != v {
                return Err(format!("typed reader returned {}", x));
            }
            rest(r.into_inner())?;
            for n in 1..=2usize {
                let mut r = DER::reader(Pieces { data: &bytes[..], n });
                let x = r.read_number::<i64, numbers::NoConstraint>().map_err(|e| format!("typed reader failed on pieces of {}: {:?}", n, e))?;
                if x as i128 != v {
                    return Err(format!("typed reader returned {} from a source delivering pieces of {}", x, n));
                }
                rest(r.into_inner().data)?;
            }
            Ok(())
        }
        "tbool" => {
            let mut w = DER::writer(Vec::new());
            w.write_boolean::<boolean::NoConstraint>(a != 0).map_err(|e| format!("typed writer failed: {:?}", e))?;
            check(w.into_inner())?;
            let mut r = DER::reader(&bytes[..]);
            let x = r.read_boolean::<boolean::NoConstraint>().map_err(|e| format!("typed reader failed: {:?}", e))?;
            if x != (a != 0) {
                return Err(format!("typed reader returned {}", x));
            }
            rest(r.into_inner())
        }
        _ => {
            // a = root items, b = all items; (3, 3) is Colour, (2, 4) is the extensible Shade
            let valid = (v as u64) < b;
            fn go<C: asn1rs::descriptor::enumerated::Constraint>(
                v: u64, valid: bool, exp: &[u8], bytes: &[u8], check: &dyn Fn(Vec<u8>) -> Result<(), String>, rest: &dyn Fn(&[u8]) -> Result<(), String>,
            ) -> Result<(), String> {
                use asn1rs::descriptor::{Reader, Writer};
                use asn1rs::protocol::basic::DER;
                if let Some(x) = C::from_choice_index(v) {
                    let mut w = DER::writer(Vec::new());
                    w.write_enumerated(&x).map_err(|e| format!("typed writer failed: {:?}", e))?;
                    check(w.into_inner())?;
                }
                let _ = exp;
                let mut r = DER::reader(bytes);
                match (r.read_enumerated::<C>(), valid) {
                    (Ok(x), true) if x.to_choice_index() == v => rest(r.into_inner()),
                    (Ok(x), _) => Err(format!("typed reader returned item {} for index {}", x.to_choice_index(), v)),
                    (Err(e), true) => Err(format!("typed reader refused item {} of {}: {:?}", v, C::VARIANT_COUNT, e)),
                    (Err(_), false) => Ok(()),
                }
            }
            if (a, b) == (3, 3) {
                go::<Colour>(v as u64, valid, exp, &bytes, &check, &rest)
            } else if b == 70000 {
                go::<Wide>(v as u64, valid, exp, &bytes, &check, &rest)
            } else {
                go::<Shade>(v as u64, valid, exp, &bytes, &check, &rest)
            }
        }
    }
}

// ------------------------------------------------------------------------------------------------
// T: k primitives written into one Vec<u8> and read back from one slice
// ------------------------------------------------------------------------------------------------
use crate::prim::to_big;
use rand::rngs::StdRng;
use rand::{Rng, SeedableRng};

fn boundary_u64(rng: &mut StdRng) -> u64 {
    match rng.gen_range(0..8) {
        0..=2 => rng.gen_range(0..300),
        3 => u64::MAX,
        _ => {
            let k = rng.gen_range(0..64u32);
            (1u64 << k).wrapping_add(rng.gen_range(0..3)).wrapping_sub(1)
        }
    }
}

pub fn record(kv: &Kv, out: &mut Out) {
    let mut rng = StdRng::seed_from_u64(kv_u64(kv, "seed", 1));
    for _ in 0..kv_u64(kv, "histories", 100) {
        out.line(&json!({"op": "new"}));
        let mut w: Vec<u8> = Vec::new();
        let mut written: Vec<Value> = Vec::new();
        for _ in 0..kv_u64(kv, "ops", 10) {
            let before = w.len();
            let mut e = json!({"op": "w", "v": to_big(0), "a": 0, "b": 0});
            let res = match rng.gen_range(0..5) {
                0 => {
                    let v = boundary_u64(&mut rng);
                    e["k"] = json!("len");
                    e["v"] = to_big(v as i128);
                    w.write_length(v).is_ok()
                }
                1 => {
                    let (cls, num) = (rng.gen_range(0..4u64), rng.gen_range(0..31u64));
                    e["k"] = json!("tag");
                    e["a"] = json!(cls);
                    e["b"] = json!(num);
                    w.write_identifier(tag_of(cls, num)).is_ok()
                }
                2 => {
                    let v = boundary_u64(&mut rng) as i64;
                    e["k"] = json!("i64");
                    e["v"] = to_big(v as i128);
                    w.write_integer_i64(v).is_ok()
                }
                3 => {
                    let v = boundary_u64(&mut rng);
                    e["k"] = json!("u64");
                    e["v"] = to_big(v as i128);
                    w.write_integer_u64(v).is_ok()
                }
                _ => {
                    let v = rng.gen_bool(0.5);
                    e["k"] = json!("bool");
                    e["a"] = json!(v as u8);
                    w.write_boolean(v).is_ok()
                }
            };
            e["res"] = json!(if res { "ok" } else { "err" });
            e["app"] = json!(w[before..].to_vec());
            e["len"] = json!(w.len());
            out.line(&e);
            written.push(e);
        }
        let mut r = &w[..];
        for e in written {
            let mut ev = e.clone();
            ev["op"] = json!("r");
            let n = e["app"].as_array().unwrap().len() as u32;
            let before = r.len();
            let k = e["k"].as_str().unwrap();
            let got: Result<Value, String> = match k {
                "len" => r.read_length().map(|x| to_big(x as i128)).map_err(|e| format!("{:?}", e)),
                "tag" => r.read_identifier().map(|t| json!(crate::canon::tag(&Some(t)))).map_err(|e| format!("{:?}", e)),
                "i64" => r.read_integer_i64(n).map(|x| to_big(x as i128)).map_err(|e| format!("{:?}", e)),
                "u64" => r.read_integer_u64(n).map(|x| to_big(x as i128)).map_err(|e| format!("{:?}", e)),
                _ => r.read_boolean().map(|b| json!(b)).map_err(|e| format!("{:?}", e)),
            };
            ev["res"] = json!(if got.is_ok() { "ok" } else { "err" });
            match (k, got) {
                ("tag", Ok(t)) => {
                    ev["a"] = t[0].clone();
                    ev["b"] = t[1].clone();
                }
                ("bool", Ok(b)) => ev["a"] = json!(b.as_bool().unwrap() as u8),
                (_, Ok(x)) => ev["v"] = x,
                _ => {}
            }
            ev["used"] = json!(before - r.len());
            ev["rem"] = json!(r.len());
            out.line(&ev);
        }
        out.line(&json!({"op": "end", "rem": r.len()}));
    }
}

// ------------------------------------------------------------------------------------------------
// C04: the DER reader under the byte-level fault model
// ------------------------------------------------------------------------------------------------
#[derive(Debug, PartialEq)]
enum Colour {
    Red,
    Green,
    Blue,
}
impl asn1rs::descriptor::common::Constraint for Colour {
    const TAG: Tag = Tag::DEFAULT_ENUMERATED;
}
impl asn1rs::descriptor::enumerated::Constraint for Colour {
    const NAME: &'static str = "Colour";
    const VARIANT_COUNT: u64 = 3;
    const STD_VARIANT_COUNT: u64 = 3;
    fn to_choice_index(&self) -> u64 {
        match self {
            Colour::Red => 0,
            Colour::Green => 1,
            Colour::Blue => 2,
        }
    }
    fn from_choice_index(index: u64) -> Option<Self> {
        match index {
            0 => Some(Colour::Red),
            1 => Some(Colour::Green),
            2 => Some(Colour::Blue),
            _ => None,
        }
    }
}

/// ENUMERATED { a, b, ..., c, d }
#[derive(Debug, PartialEq)]
struct Shade(u64);
impl asn1rs::descriptor::common::Constraint for Shade {
    const TAG: Tag = Tag::DEFAULT_ENUMERATED;
}
impl asn1rs::descriptor::enumerated::Constraint for Shade {
    const NAME: &'static str = "Shade";
    const VARIANT_COUNT: u64 = 4;
    const STD_VARIANT_COUNT: u64 = 2;
    const EXTENSIBLE: bool = true;
    fn to_choice_index(&self) -> u64 {
        self.0
    }
    fn from_choice_index(index: u64) -> Option<Self> {
        if index < 4 {
            Some(Shade(index))
        } else {
            None
        }
    }
}

/// an ENUMERATED with 70000 items
#[derive(Debug, PartialEq)]
struct Wide(u64);
impl asn1rs::descriptor::common::Constraint for Wide {
    const TAG: Tag = Tag::DEFAULT_ENUMERATED;
}
impl asn1rs::descriptor::enumerated::Constraint for Wide {
    const NAME: &'static str = "Wide";
    const VARIANT_COUNT: u64 = 70000;
    const STD_VARIANT_COUNT: u64 = 70000;
    fn to_choice_index(&self) -> u64 {
        self.0
    }
    fn from_choice_index(index: u64) -> Option<Self> {
        if index < 70000 {
            Some(Wide(index))
        } else {
            None
        }
    }
}

const OPS: [&str; 12] = ["identifier", "length", "boolean", "i64/0", "i64/1", "i64/len", "i64/8", "i64/9", "u64/len", "u64/max", "tlv", "reader"];

/// one operation on one input; Err(text) = panic text; Ok(consumed octets)
fn der_op(op: &str, bytes: &[u8]) -> Result<usize, String> {
    use asn1rs::descriptor::{boolean, numbers, Reader};
    use asn1rs::protocol::basic::DER;
    guarded(|| {
        let mut r = bytes;
        let n = bytes.len() as u32;
        match op {
            "identifier" => drop(r.read_identifier()),
            "length" => drop(r.read_length()),
            "boolean" => drop(r.read_boolean()),
            "i64/0" => drop(r.read_integer_i64(0)),
            "i64/1" => drop(r.read_integer_i64(1)),
            "i64/len" => drop(r.read_integer_i64(n)),
            "i64/8" => drop(r.read_integer_i64(8)),
            "i64/9" => drop(r.read_integer_i64(9)),
            "u64/len" => drop(r.read_integer_u64(n)),
            "u64/max" => drop(r.read_integer_u64(u32::MAX)),
            "tlv" => {
                // identifier, length, then content of that length the way the typed reader does it
                if r.read_identifier().is_ok() {
                    if let Ok(len) = r.read_length() {
                        let _ = r.read_integer_i64(len as u32);
                    }
                }
            }
            "reader" => {
                let mut rd = DER::reader(bytes);
                let _ = rd.read_number::<i64, numbers::NoConstraint>();
                let _ = rd.read_number::<u8, numbers::NoConstraint>();
                let _ = rd.read_boolean::<boolean::NoConstraint>();
                let _ = rd.read_enumerated::<Colour>();
                r = rd.into_inner();
            }
            _ => unreachable!(),
        }
        bytes.len() - r.len()
    })
}

pub fn fault(input: &str, out: &mut Out, kv: &Kv) {
    const SEEDCAP: usize = 100_000;
    let start = kv_u64(kv, "start", 0) as usize;
    let stride = kv_u64(kv, "seedstride", 1) as usize;
    let mut progress = crate::sandbox::Progress::new(kv.get("progress").expect("progress=<file>"), std::time::Duration::from_secs(3));
    let (tables, descs) = crate::bytefault::load(input);
    let mut seeds: Vec<Vec<u8>> = Vec::new();
    for (_i, c) in read_lines(kv.get("seeds").expect("seeds=<vectors>")) {
        let b = bytes_of(&c["octets"]);
        if !b.is_empty() && !seeds.contains(&b) {
            seeds.push(b);
        }
    }
    assert!(seeds.len() < SEEDCAP);
    let mut stats: std::collections::BTreeMap<String, u64> = Default::default();
    let mut shown: std::collections::BTreeMap<String, u64> = Default::default();
    let mut n = 0u64;
    for (di, (_line, d)) in descs.iter().enumerate() {
        if (di + 1) * SEEDCAP <= start {
            continue;
        }
        let inputs: Vec<(usize, Vec<u8>)> = match d {
            crate::bytefault::Desc::Raw(b) => vec![(0, b.clone())],
            crate::bytefault::Desc::Seq(fs) => seeds
                .iter()
                .enumerate()
                .filter(|(si, _)| (si + di) % stride == 0)
                .map(|(si, s)| (si, crate::bytefault::apply_all(s, fs, &tables)))
                .filter(|(si, m)| *m != seeds[*si])
                .collect(),
        };
        for (si, bytes) in inputs {
            let idx = di * SEEDCAP + si;
            if idx < start {
                continue;
            }
            progress.begin(idx);
            for op in OPS.iter() {
                n += 1;
                let base = crate::alloc::reset_peak();
                let r = der_op(op, &bytes);
                let peak = crate::alloc::peak_since(base);
                let mut problems: Vec<(String, String)> = Vec::new();
                match r {
                    Err(p) => problems.push(("panic".into(), format!("panic: {}", p))),
                    Ok(used) if used > bytes.len() => problems.push(("over-read".into(), format!("{} octets consumed of {}", used, bytes.len()))),
                    Ok(_) => {}
                }
                if peak > (1usize << 20) + 64 * bytes.len() {
                    problems.push(("alloc".into(), format!("peak allocation {} bytes for an input of {} bytes", peak, bytes.len())));
                }
                *stats.entry(if problems.is_empty() { "returned".to_string() } else { "bad".to_string() }).or_insert(0) += 1;
                for (class, why) in problems {
                    let key = format!("{}/{}/{}", class, op, why.chars().take(60).collect::<String>());
                    let cnt = shown.entry(key).or_insert(0);
                    *cnt += 1;
                    if *cnt <= 2 {
                        out.line(&json!({"index": idx, "class": class, "why": why, "op": op, "hex": crate::zoo::hex(&bytes), "fault": crate::bytefault::describe(d)}));
                        out.flush();
                    }
                }
            }
            progress.end();
        }
    }
    out.line(&json!({"summary": true, "cases": n, "seeds": seeds.len(), "descriptors": descs.len(), "stats": stats}));
}
