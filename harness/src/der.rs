//! C20: DER primitives (BasicWrite on Vec<u8>, BasicRead on &[u8]) against Der.tla.
use crate::prim::big;
use crate::util::*;
use asn1rs::protocol::basic::{BasicRead, BasicWrite};
use asn1rs_model::asn::Tag;
use serde_json::{json, Value};

fn tag_of(cls: u64, num: u64) -> Tag {
    match cls {
        0 => Tag::Universal(num as usize),
        1 => Tag::Application(num as usize),
        2 => Tag::ContextSpecific(num as usize),
        _ => Tag::Private(num as usize),
    }
}

pub fn replay(input: &str, out: &mut Out) {
    let (mut n, mut bad) = (0u64, 0u64);
    for (i, c) in read_lines(input) {
        n += 1;
        let k = c["k"].as_str().unwrap();
        let exp = bytes_of(&c["octets"]);
        let v = big(&c["v"]);
        let (a, b) = (c["a"].as_u64().unwrap(), c["b"].as_u64().unwrap());
        let r = guarded(|| -> Result<(), String> {
            let mut w: Vec<u8> = Vec::new();
            // ---- write
            let wr = match k {
                "len" => w.write_length(v as u64),
                "tag" => w.write_identifier(tag_of(a, b)),
                "i64" => w.write_integer_i64(v as i64),
                "u64" | "enum" => w.write_integer_u64(v as u64),
                "bool" => w.write_boolean(a != 0),
                _ => unreachable!(),
            };
            if let Err(e) = wr {
                return Err(format!("writer failed: {:?}", e));
            }
            if k == "bool" {
                // reading accepts every non-zero octet as TRUE
                let octet = [a as u8, 0xAA];
                let mut r = &octet[..];
                let x = r.read_boolean().map_err(|e| format!("reader failed: {:?}", e))?;
                if x != (a != 0) || r.len() != 1 {
                    return Err(format!("octet {:#04x} read as {} (remaining {})", a, x, r.len()));
                }
                if w != vec![if a != 0 { 1 } else { 0 }] {
                    return Err(format!("boolean written as {:?}", w));
                }
                return Ok(());
            }
            if w != exp {
                return Err(format!("writer emitted {:02x?}, Der.tla says {:02x?}", w, exp));
            }
            // ---- read back, followed by a sentinel octet: exactly the written bytes must be consumed
            let mut bytes = w.clone();
            bytes.push(0x5A);
            let mut r = &bytes[..];
            let ok = match k {
                "len" => r.read_length().map(|x| x as i128 == v).map_err(|e| format!("{:?}", e))?,
                "tag" => r.read_identifier().map(|t| t == tag_of(a, b)).map_err(|e| format!("{:?}", e))?,
                "i64" => r.read_integer_i64(w.len() as u32).map(|x| x as i128 == v).map_err(|e| format!("{:?}", e))?,
                "u64" | "enum" => r.read_integer_u64(w.len() as u32).map(|x| x as i128 == v).map_err(|e| format!("{:?}", e))?,
                _ => unreachable!(),
            };
            if !ok {
                return Err("read back a different value".to_string());
            }
            if r != [0x5A] {
                return Err(format!("reader consumed {} bytes, writer wrote {}", bytes.len() - r.len(), w.len()));
            }
            Ok(())
        });
        let why = match r {
            Ok(Ok(())) => continue,
            Ok(Err(e)) => e,
            Err(p) => format!("panic: {}", p),
        };
        bad += 1;
        if bad <= 30 {
            out.line(&json!({"line": i, "case": c, "v_dec": v.to_string(), "why": why}));
        }
    }
    out.line(&json!({"summary": true, "cases": n, "mismatches": bad}));
}

// ------------------------------------------------------------------------------------------------
// T: k primitives written into one Vec<u8> and read back from one slice
// ------------------------------------------------------------------------------------------------
use crate::prim::to_big;
use rand::rngs::StdRng;
use rand::{Rng, SeedableRng};

fn boundary_u64(rng: &mut StdRng) -> u64 {
    match rng.gen_range(0..8) {
        0..=2 => rng.gen_range(0..300),
        3 => u64::MAX,
        _ => {
            let k = rng.gen_range(0..64u32);
            (1u64 << k).wrapping_add(rng.gen_range(0..3)).wrapping_sub(1)
        }
    }
}

pub fn record(kv: &Kv, out: &mut Out) {
    let mut rng = StdRng::seed_from_u64(kv_u64(kv, "seed", 1));
    for _ in 0..kv_u64(kv, "histories", 100) {
        out.line(&json!({"op": "new"}));
        let mut w: Vec<u8> = Vec::new();
        let mut written: Vec<Value> = Vec::new();
        for _ in 0..kv_u64(kv, "ops", 10) {
            let before = w.len();
            let mut e = json!({"op": "w", "v": to_big(0), "a": 0, "b": 0});
            let res = match rng.gen_range(0..5) {
                0 => {
                    let v = boundary_u64(&mut rng);
                    e["k"] = json!("len");
                    e["v"] = to_big(v as i128);
                    w.write_length(v).is_ok()
                }
                1 => {
                    let (cls, num) = (rng.gen_range(0..4u64), rng.gen_range(0..31u64));
                    e["k"] = json!("tag");
                    e["a"] = json!(cls);
                    e["b"] = json!(num);
                    w.write_identifier(tag_of(cls, num)).is_ok()
                }
                2 => {
                    let v = boundary_u64(&mut rng) as i64;
                    e["k"] = json!("i64");
                    e["v"] = to_big(v as i128);
                    w.write_integer_i64(v).is_ok()
                }
                3 => {
                    let v = boundary_u64(&mut rng);
                    e["k"] = json!("u64");
                    e["v"] = to_big(v as i128);
                    w.write_integer_u64(v).is_ok()
                }
                _ => {
                    let v = rng.gen_bool(0.5);
                    e["k"] = json!("bool");
                    e["a"] = json!(v as u8);
                    w.write_boolean(v).is_ok()
                }
            };
            e["res"] = json!(if res { "ok" } else { "err" });
            e["app"] = json!(w[before..].to_vec());
            e["len"] = json!(w.len());
            out.line(&e);
            written.push(e);
        }
        let mut r = &w[..];
        for e in written {
            let mut ev = e.clone();
            ev["op"] = json!("r");
            let n = e["app"].as_array().unwrap().len() as u32;
            let before = r.len();
            let k = e["k"].as_str().unwrap();
            let got: Result<Value, String> = match k {
                "len" => r.read_length().map(|x| to_big(x as i128)).map_err(|e| format!("{:?}", e)),
                "tag" => r.read_identifier().map(|t| json!(crate::canon::tag(&Some(t)))).map_err(|e| format!("{:?}", e)),
                "i64" => r.read_integer_i64(n).map(|x| to_big(x as i128)).map_err(|e| format!("{:?}", e)),
                "u64" => r.read_integer_u64(n).map(|x| to_big(x as i128)).map_err(|e| format!("{:?}", e)),
                _ => r.read_boolean().map(|b| json!(b)).map_err(|e| format!("{:?}", e)),
            };
            ev["res"] = json!(if got.is_ok() { "ok" } else { "err" });
            match (k, got) {
                ("tag", Ok(t)) => {
                    ev["a"] = t[0].clone();
                    ev["b"] = t[1].clone();
                }
                ("bool", Ok(b)) => ev["a"] = json!(b.as_bool().unwrap() as u8),
                (_, Ok(x)) => ev["v"] = x,
                _ => {}
            }
            ev["used"] = json!(before - r.len());
            ev["rem"] = json!(r.len());
            out.line(&ev);
        }
        out.line(&json!({"op": "end", "rem": r.len()}));
    }
}
