//! C09: the real identifier mangling functions against Names.tla.
use crate::util::*;
use asn1rs_model::rust::{rust_constant_name, rust_field_name, rust_struct_or_enum_name, rust_variant_name};
use serde_json::{json, Value};

fn text(v: &Value) -> String {
    v.as_array().unwrap().iter().map(|c| c.as_str().unwrap()).collect()
}

pub fn replay(input: &str, out: &mut Out) {
    let (mut n, mut bad) = (0u64, 0u64);
    for (i, c) in read_lines(input) {
        n += 1;
        let s = text(&c["s"]);
        let r = guarded(|| {
            let f = rust_field_name(&s);
            let g = asn1rs_model::generate::rust::RustCodeGenerator::rust_field_name(&f, true);
            let v = asn1rs_model::generate::rust::RustCodeGenerator::rust_variant_name(&rust_variant_name(&s));
            (f, g, v, rust_struct_or_enum_name(&s), rust_constant_name(&s))
        });
        let why = match r {
            Err(p) => Some(format!("panic: {}", p)),
            Ok((f, g, v, t, k)) => {
                let (ef, eg, ev, et, ek) = (text(&c["field"]), text(&c["genField"]), text(&c["genVariant"]), text(&c["typeName"]), text(&c["const"]));
                if f != ef || g != eg || v != ev || t != et || k != ek {
                    Some(format!(
                        "field {:?} generated field {:?} variant {:?} type {:?} constant {:?}; Names.tla says {:?} {:?} {:?} {:?} {:?}",
                        f, g, v, t, k, ef, eg, ev, et, ek
                    ))
                } else {
                    None
                }
            }
        };
        if let Some(why) = why {
            bad += 1;
            // with what the real functions returned: the check decides whether the difference breaks the property
            // (an illegal identifier, or two identifiers mapped together that the specification keeps apart)
            let real = guarded(|| {
                let f = rust_field_name(&s);
                json!({"genField": asn1rs_model::generate::rust::RustCodeGenerator::rust_field_name(&f, true),
                       "genVariant": asn1rs_model::generate::rust::RustCodeGenerator::rust_variant_name(&rust_variant_name(&s)),
                       "typeName": rust_struct_or_enum_name(&s), "const": rust_constant_name(&s)})
            }).unwrap_or(Value::Null);
            out.line(&json!({"line": i, "identifier": s, "why": why, "real": real,
                "predicted": {"genField": text(&c["genField"]), "genVariant": text(&c["genVariant"]), "typeName": text(&c["typeName"]), "const": text(&c["const"])}}));
        }
    }
    out.line(&json!({"summary": true, "cases": n, "mismatches": bad}));
}
