//! Hook-free tracing wrappers around `UperWriter` / `UperReader`: every trait call made by macro-generated code (also
//! those executed inside the library's private open-type sub-writers) becomes one or more events for Trace_Uper.tla.
//! `Tw` / `Tr` are `repr(transparent)` over the real writer / reader, so the `&mut UperWriter` the library hands to a
//! closure or to a `WritableType` adapter can be re-interpreted as `&mut Tw` without touching the library.
use asn1rs::descriptor::*;
use asn1rs::prelude::*;
use asn1rs::protocol::per::Error;
use asn1rs_model::asn::Tag;
use serde_json::{json, Value};
use std::cell::RefCell;
use std::marker::PhantomData;

thread_local! {
    static EVENTS: RefCell<Vec<Value>> = RefCell::new(Vec::new());
}

pub fn take_events() -> Vec<Value> {
    EVENTS.with(|e| std::mem::take(&mut *e.borrow_mut()))
}

fn log(v: Value) {
    EVENTS.with(|e| e.borrow_mut().push(v));
}

/// Appends an event and returns its index (reader half).
pub fn log_event(v: Value) -> usize {
    EVENTS.with(|e| {
        e.borrow_mut().push(v);
        e.borrow().len() - 1
    })
}

/// Completes an earlier event with something only known once the call has returned.
pub fn patch_event(at: usize, key: &str, v: Value) {
    EVENTS.with(|e| e.borrow_mut()[at][key] = v);
}

fn bits_of(bytes: &[u8], bit_len: usize) -> Vec<u8> {
    (0..bit_len).map(|i| (bytes[i / 8] >> (7 - i % 8)) & 1).collect()
}

pub const SMALL: i64 = 1 << 29;
pub const SZ_MAX: i64 = (1 << 30) - 1;

pub fn size_json(min: Option<u64>, max: Option<u64>, ext: bool) -> Option<Value> {
    match (min, max) {
        (None, None) => Some(json!({"c": "none", "lb": 0, "ub": 0, "ext": false})),
        (lb, Some(ub)) if ub < SMALL as u64 => Some(json!({"c": "sz", "lb": lb.unwrap_or(0), "ub": ub, "ext": ext})),
        // SIZE(lb..MAX): X691!SzMAX stands for every upper bound beyond the lengths that are explored (11.9.4.2)
        (Some(lb), _) if lb < SMALL as u64 => Some(json!({"c": "sz", "lb": lb, "ub": SZ_MAX, "ext": ext})),
        _ => None,
    }
}

// ------------------------------------------------------------------------------------------------ writer

#[repr(transparent)]
pub struct Tw(pub UperWriter);

impl Default for Tw {
    fn default() -> Self {
        Tw(UperWriter::default())
    }
}

impl Tw {
    fn snap(&self) -> Vec<u8> {
        bits_of(self.0.byte_content(), self.0.bit_len())
    }

    /// The library only ever calls closures and adapters with its own `UperWriter`.
    fn cast<W: Writer>(w: &mut W) -> &mut Tw {
        assert!(std::any::type_name::<W>().ends_with("UperWriter"), "unexpected writer {}", std::any::type_name::<W>());
        assert_eq!(std::mem::size_of::<W>(), std::mem::size_of::<Tw>());
        unsafe { &mut *(w as *mut W as *mut Tw) }
    }

    fn leaf(&mut self, tv: Option<(Value, Value)>, r: &Result<(), Error>) {
        let (hastv, t, v) = match tv {
            Some((t, v)) => (true, t, v),
            None => (false, json!({"k": "x"}), json!(0)),
        };
        log(json!({"ev": "leaf", "ph": "call", "hastv": hastv, "t": t, "v": v, "ok": r.is_ok(), "bits": self.snap()}));
    }

    fn sized<F: FnOnce(&mut UperWriter) -> Result<(), Error>>(&mut self, k: &str, cs: &str, sz: Option<Value>, v: Option<Value>, f: F) -> Result<(), Error> {
        let r = f(&mut self.0);
        let tv = match (sz, v) {
            (Some(sz), Some(v)) if cs.is_empty() => Some((json!({"k": k, "sz": sz}), v)),
            (Some(sz), Some(v)) => Some((json!({"k": k, "cs": cs, "sz": sz}), v)),
            _ => None,
        };
        self.leaf(tv, &r);
        r
    }
}

fn chars(value: &str) -> Option<Value> {
    if value.chars().count() <= 64 && value.chars().all(|c| (c as u32) < 65536) {
        Some(Value::Array(value.chars().map(|c| json!(c as u32)).collect()))
    } else {
        None
    }
}

/// Items of SEQUENCE OF, the value below OPTIONAL / DEFAULT: announce the (possibly new) writer, then go on traced.
pub struct Body<T>(PhantomData<T>);
impl<T: WritableType> WritableType for Body<T> {
    type Type = T::Type;
    fn write_value<W: Writer>(writer: &mut W, value: &Self::Type) -> Result<(), W::Error> {
        let tw = Tw::cast(writer);
        log(json!({"ev": "value", "ph": "body", "bits": tw.snap()}));
        let r = T::write_value(tw, value);
        // W::Error is per::Error whenever W is UperWriter
        unsafe { std::mem::transmute_copy::<std::mem::ManuallyDrop<Result<(), Error>>, Result<(), W::Error>>(&std::mem::ManuallyDrop::new(r)) }
    }
}

#[repr(transparent)]
pub struct Alt<C>(C);
impl<C: common::Constraint> common::Constraint for Alt<C> {
    const TAG: Tag = C::TAG;
}
impl<C: choice::Constraint> choice::Constraint for Alt<C> {
    const NAME: &'static str = C::NAME;
    const VARIANT_COUNT: u64 = C::VARIANT_COUNT;
    const STD_VARIANT_COUNT: u64 = C::STD_VARIANT_COUNT;
    const EXTENSIBLE: bool = C::EXTENSIBLE;
    fn to_choice_index(&self) -> u64 {
        self.0.to_choice_index()
    }
    fn write_content<W: Writer>(&self, writer: &mut W) -> Result<(), W::Error> {
        let tw = Tw::cast(writer);
        log(json!({"ev": "choice", "ph": "body", "bits": tw.snap()}));
        let r = self.0.write_content(tw);
        unsafe { std::mem::transmute_copy::<std::mem::ManuallyDrop<Result<(), Error>>, Result<(), W::Error>>(&std::mem::ManuallyDrop::new(r)) }
    }
    fn read_content<R: Reader>(index: u64, reader: &mut R) -> Result<Option<Self>, R::Error> {
        C::read_content(index, reader).map(|o| o.map(Alt))
    }
}

impl Writer for Tw {
    type Error = Error;

    fn write_sequence<C: sequence::Constraint, F: Fn(&mut Self) -> Result<(), Self::Error>>(&mut self, f: F) -> Result<(), Self::Error> {
        let nroot = C::EXTENDED_AFTER_FIELD.map(|x| x + 1).unwrap_or(C::FIELD_COUNT);
        log(json!({"ev": "seq", "ph": "enter", "opt": C::STD_OPTIONAL_FIELDS, "n": C::FIELD_COUNT, "nroot": nroot,
                   "ext": C::EXTENDED_AFTER_FIELD.is_some(), "bits": self.snap()}));
        let r = self.0.write_sequence::<C, _>(|inner: &mut UperWriter| {
            let tw = Tw::cast(inner);
            log(json!({"ev": "seq", "ph": "body", "bits": tw.snap()}));
            let r = f(tw);
            log(json!({"ev": "seq", "ph": "end", "ok": r.is_ok(), "bits": tw.snap()}));
            r
        });
        log(json!({"ev": "seq", "ph": "exit", "ok": r.is_ok(), "bits": self.snap()}));
        r
    }

    fn write_sequence_of<C: sequenceof::Constraint, T: WritableType>(&mut self, slice: &[T::Type]) -> Result<(), Self::Error> {
        let sz = size_json(C::MIN, C::MAX, C::EXTENSIBLE);
        log(json!({"ev": "seqof", "ph": "enter", "n": slice.len(), "hassz": sz.is_some(), "sz": sz.unwrap_or(json!(0)), "bits": self.snap()}));
        let r = self.0.write_sequence_of::<C, Body<T>>(slice);
        log(json!({"ev": "seqof", "ph": "exit", "ok": r.is_ok(), "bits": self.snap()}));
        r
    }

    fn write_set<C: set::Constraint, F: Fn(&mut Self) -> Result<(), Self::Error>>(&mut self, f: F) -> Result<(), Self::Error> {
        self.write_sequence::<C, F>(f)
    }

    fn write_set_of<C: setof::Constraint, T: WritableType>(&mut self, slice: &[T::Type]) -> Result<(), Self::Error> {
        self.write_sequence_of::<C, T>(slice)
    }

    fn write_enumerated<C: enumerated::Constraint>(&mut self, enumerated: &C) -> Result<(), Self::Error> {
        let r = self.0.write_enumerated(enumerated);
        let (std, n) = (C::STD_VARIANT_COUNT, C::VARIANT_COUNT);
        self.leaf(Some((json!({"k": "enum", "nroot": std, "nadd": n - std, "ext": C::EXTENSIBLE}), json!(enumerated.to_choice_index()))), &r);
        r
    }

    fn write_choice<C: choice::Constraint>(&mut self, choice: &C) -> Result<(), Self::Error> {
        log(json!({"ev": "choice", "ph": "enter", "idx": choice.to_choice_index(), "nroot": C::STD_VARIANT_COUNT, "n": C::VARIANT_COUNT,
                   "ext": C::EXTENSIBLE, "bits": self.snap()}));
        let alt: &Alt<C> = unsafe { &*(choice as *const C as *const Alt<C>) };
        let r = self.0.write_choice(alt);
        log(json!({"ev": "choice", "ph": "exit", "ok": r.is_ok(), "bits": self.snap()}));
        r
    }

    fn write_opt<T: WritableType>(&mut self, value: Option<&T::Type>) -> Result<(), Self::Error> {
        log(json!({"ev": "opt", "ph": "enter", "present": value.is_some(), "bits": self.snap()}));
        let r = self.0.write_opt::<Body<T>>(value);
        log(json!({"ev": "opt", "ph": "exit", "ok": r.is_ok(), "bits": self.snap()}));
        r
    }

    fn write_default<C: default::Constraint<Owned = T::Type>, T: WritableType>(&mut self, value: &T::Type) -> Result<(), Self::Error> {
        log(json!({"ev": "opt", "ph": "enter", "present": C::DEFAULT_VALUE.ne(value), "bits": self.snap()}));
        let r = self.0.write_default::<C, Body<T>>(value);
        log(json!({"ev": "opt", "ph": "exit", "ok": r.is_ok(), "bits": self.snap()}));
        r
    }

    fn write_number<T: numbers::Number, C: numbers::Constraint<T>>(&mut self, value: T) -> Result<(), Self::Error> {
        let r = self.0.write_number::<T, C>(value);
        let x = value.to_i64();
        let con = match (C::MIN, C::MAX) {
            (None, None) => Some(json!({"c": "none", "lb": 0, "ub": 0, "ext": false})),
            (Some(lb), Some(ub)) if lb.unsigned_abs() < SMALL as u64 && ub.unsigned_abs() < SMALL as u64 => Some(json!({"c": "rng", "lb": lb, "ub": ub, "ext": C::EXTENSIBLE})),
            _ => None,
        };
        let tv = con.filter(|_| x.unsigned_abs() < SMALL as u64).map(|con| (json!({"k": "int", "con": con}), json!(x)));
        self.leaf(tv, &r);
        r
    }

    fn write_utf8string<C: utf8string::Constraint>(&mut self, value: &str) -> Result<(), Self::Error> {
        self.sized("str", "utf8", size_json(C::MIN, C::MAX, C::EXTENSIBLE), chars(value), |w| w.write_utf8string::<C>(value))
    }

    fn write_ia5string<C: ia5string::Constraint>(&mut self, value: &str) -> Result<(), Self::Error> {
        self.sized("str", "ia5", size_json(C::MIN, C::MAX, C::EXTENSIBLE), chars(value), |w| w.write_ia5string::<C>(value))
    }

    fn write_numeric_string<C: numericstring::Constraint>(&mut self, value: &str) -> Result<(), Self::Error> {
        self.sized("str", "num", size_json(C::MIN, C::MAX, C::EXTENSIBLE), chars(value), |w| w.write_numeric_string::<C>(value))
    }

    fn write_visible_string<C: visiblestring::Constraint>(&mut self, value: &str) -> Result<(), Self::Error> {
        self.sized("str", "vis", size_json(C::MIN, C::MAX, C::EXTENSIBLE), chars(value), |w| w.write_visible_string::<C>(value))
    }

    fn write_printable_string<C: printablestring::Constraint>(&mut self, value: &str) -> Result<(), Self::Error> {
        self.sized("str", "prt", size_json(C::MIN, C::MAX, C::EXTENSIBLE), chars(value), |w| w.write_printable_string::<C>(value))
    }

    fn write_octet_string<C: octetstring::Constraint>(&mut self, value: &[u8]) -> Result<(), Self::Error> {
        let v = if value.len() <= 64 { Some(json!(value)) } else { None };
        self.sized("oct", "", size_json(C::MIN, C::MAX, C::EXTENSIBLE), v, |w| w.write_octet_string::<C>(value))
    }

    fn write_bit_string<C: bitstring::Constraint>(&mut self, value: &[u8], bit_len: u64) -> Result<(), Self::Error> {
        let v = if bit_len <= 256 && value.len() as u64 * 8 >= bit_len { Some(json!(bits_of(value, bit_len as usize))) } else { None };
        self.sized("bits", "", size_json(C::MIN, C::MAX, C::EXTENSIBLE), v, |w| w.write_bit_string::<C>(value, bit_len))
    }

    fn write_boolean<C: boolean::Constraint>(&mut self, value: bool) -> Result<(), Self::Error> {
        let r = self.0.write_boolean::<C>(value);
        self.leaf(Some((json!({"k": "bool"}), json!(value))), &r);
        r
    }

    fn write_null<C: null::Constraint>(&mut self, value: &Null) -> Result<(), Self::Error> {
        let r = self.0.write_null::<C>(value);
        self.leaf(Some((json!({"k": "null"}), json!(0))), &r);
        r
    }
}

