//! Shared helpers of the conformance harness.
pub mod util;
pub mod bitops;
pub mod prim;
pub mod glue;
pub mod zoo;
pub mod frontend;
pub mod alloc;
pub mod sandbox;
pub mod lexer;
pub mod canon;
pub mod frontfault;
pub mod der;
pub mod names;
pub mod uptrace;
pub mod bytefault;
pub mod uptrace_read;
pub mod protoprim;
