//! C11: single copy operations on every bit-level back end.
use crate::util::*;
use asn1rs::protocol::per::unaligned::buffer::{BitBuffer, Bits};
use asn1rs::protocol::per::unaligned::{BitRead, BitWrite, ScopedBitRead};
use serde_json::{json, Value};

struct Got {
    res: &'static str,
    mem: Vec<u8>,
    pos: usize,
    bit: u8,
}

fn res_of<T>(r: &Result<T, asn1rs::protocol::per::Error>) -> &'static str {
    if r.is_ok() {
        "ok"
    } else {
        "err"
    }
}

fn exec(c: &Value) -> Got {
    let k = c["k"].as_str().unwrap();
    let be = c["be"].as_str().unwrap();
    let var = c["var"].as_str().unwrap();
    let src = bytes_of(&c["src"]);
    let dst = bytes_of(&c["dst"]);
    let so = usize_of(&c["so"]);
    let dp = usize_of(&c["dp"]);
    let n = c["n"].as_i64().unwrap().max(0) as usize; // n < 0 only for the "off" variants, which do not pass n
    let vis = usize_of(&c["vis"]);
    if k == "w" {
        fn w<W: BitWrite>(
            t: &mut W,
            var: &str,
            src: &[u8],
            so: usize,
            n: usize,
        ) -> Result<(), asn1rs::protocol::per::Error> {
            match var {
                "offlen" => t.write_bits_with_offset_len(src, so, n),
                "bits" => t.write_bits(src),
                "off" => t.write_bits_with_offset(src, so),
                "len" => t.write_bits_with_len(src, n),
                "bit" => t.write_bit(src[0] & 0x80 != 0),
                _ => unreachable!(),
            }
        }
        match be {
            "mslice" => {
                let mut buf = dst.clone();
                let mut pos = dp;
                let r = w(&mut (&mut buf[..], &mut pos), var, &src, so, n);
                Got { res: res_of(&r), mem: buf, pos, bit: 0 }
            }
            "buf" => {
                let mut b = BitBuffer::from_bits(dst.clone(), dp);
                let r = w(&mut b, var, &src, so, n);
                Got { res: res_of(&r), mem: b.content().to_vec(), pos: b.bit_len(), bit: 0 }
            }
            _ => unreachable!(),
        }
    } else {
        fn r<R: BitRead>(
            t: &mut R,
            var: &str,
            dst: &mut [u8],
            dp: usize,
            n: usize,
        ) -> (Result<(), asn1rs::protocol::per::Error>, u8) {
            match var {
                "offlen" => (t.read_bits_with_offset_len(dst, dp, n), 0),
                "bits" => (t.read_bits(dst), 0),
                "off" => (t.read_bits_with_offset(dst, dp), 0),
                "len" => (t.read_bits_with_len(dst, n), 0),
                "bit" => match t.read_bit() {
                    Ok(b) => (Ok(()), b as u8),
                    Err(e) => (Err(e), 0),
                },
                _ => unreachable!(),
            }
        }
        let mut d = dst.clone();
        match be {
            "rslice" => {
                let mut pos = so;
                let (res, bit) = r(&mut (&src[..], &mut pos), var, &mut d, dp, n);
                Got { res: res_of(&res), mem: d, pos, bit }
            }
            "bits" => {
                let mut b = Bits::from((&src[..], vis));
                b.set_pos(so);
                let (res, bit) = r(&mut b, var, &mut d, dp, n);
                Got { res: res_of(&res), mem: d, pos: b.pos(), bit }
            }
            "buf" => {
                let mut b = BitBuffer::from_bits_with_position(src.clone(), vis, so);
                let (res, bit) = r(&mut b, var, &mut d, dp, n);
                // the read cursor of a BitBuffer is private: observe it through the public API by
                // counting how many single bits can still be read (= vis - cursor, if any)
                let mut left = 0usize;
                while left <= 8 * src.len() + 8 && b.read_bit().is_ok() {
                    left += 1;
                }
                let pos = if left > 0 { vis - left } else { usize::MAX };
                Got { res: res_of(&res), mem: d, pos, bit }
            }
            _ => unreachable!(),
        }
    }
}

pub fn replay(input: &str, out: &mut Out) {
    let (mut n, mut bad, mut dev, mut panics) = (0u64, 0u64, 0u64, 0u64);
    let mut classes: std::collections::BTreeMap<String, u64> = Default::default();
    let mut nontrivial = 0u64;
    for (i, c) in read_lines(input) {
        n += 1;
        if c["n"].as_i64().unwrap() > 0 || c["res"] == "err" {
            nontrivial += 1;
        }
        let exp_res = c["res"].as_str().unwrap();
        let exp_mem = bytes_of(&c["mem"]);
        let exp_pos = usize_of(&c["pos"]);
        let exp_bit = c["bit"].as_u64().unwrap() as u8;
        let is_dev = c["dev"].as_bool().unwrap();
        let why = match guarded(|| exec(&c)) {
            Err(p) => {
                panics += 1;
                Some((format!("panic: {}", p), Value::Null))
            }
            Ok(g) => {
                let pos_ok = if c["k"] == "r" && c["be"] == "buf" {
                    // indirect observation, see exec(); a cursor at or beyond the end is not observable
                    g.pos == exp_pos || (g.pos == usize::MAX && exp_pos >= usize_of(&c["vis"]))
                } else {
                    g.pos == exp_pos
                };
                let ok = g.res == exp_res && g.mem == exp_mem && pos_ok && (exp_res != "ok" || g.bit == exp_bit);
                if ok {
                    None
                } else {
                    Some((
                        "outcome differs from the specification".to_string(),
                        json!({"res": g.res, "mem": g.mem, "pos": if g.pos == usize::MAX { -1i64 } else { g.pos as i64 }, "bit": g.bit}),
                    ))
                }
            }
        };
        match why {
            None => {
                if is_dev {
                    dev += 1;
                }
            }
            Some((why, got)) => {
                bad += 1;
                let sig = format!(
                    "{}/{}/{} spec={} impl={}",
                    c["k"].as_str().unwrap(),
                    c["be"].as_str().unwrap(),
                    c["var"].as_str().unwrap(),
                    exp_res,
                    if got.is_null() { "panic" } else { got["res"].as_str().unwrap() }
                );
                let cnt = classes.entry(sig.clone()).or_insert(0);
                *cnt += 1;
                if *cnt <= 5 {
                    out.line(&json!({"line": i, "sig": sig, "case": c, "got": got, "why": why}));
                }
            }
        }
    }
    out.line(&json!({"summary": true, "cases": n, "mismatches": bad, "dev_hits": dev, "panics": panics, "classes": classes, "nontrivial": nontrivial}));
}

// ------------------------------------------------------------------------------------------------
// T: histories of mixed operations on each back end, one event per public call
// ------------------------------------------------------------------------------------------------
use rand::rngs::StdRng;
use rand::{Rng, SeedableRng};

fn rand_bytes(rng: &mut StdRng, n: usize) -> Vec<u8> {
    let style = rng.gen_range(0..4);
    (0..n)
        .map(|_| match style {
            0 => 0xFF,
            1 => 0x00,
            _ => rng.gen(),
        })
        .collect()
}

/// Chooses (variant, src, so, n) for a write or (variant, dst, dp, n) for a read; ~10% inadmissible.
fn pick_copy(rng: &mut StdRng, max_bytes: usize) -> (&'static str, Vec<u8>, usize, usize) {
    let len = if rng.gen_bool(0.3) { rng.gen_range(0..=max_bytes) } else { rng.gen_range(0..=4.min(max_bytes)) };
    let buf = rand_bytes(rng, len);
    let bits = 8 * len;
    match rng.gen_range(0..4) {
        0 => ("bits", buf, 0, bits),
        1 => {
            let so = rng.gen_range(0..=bits);
            ("off", buf, so, bits - so)
        }
        2 => {
            let n = if rng.gen_bool(0.9) { rng.gen_range(0..=bits) } else { bits + rng.gen_range(1..10) };
            ("len", buf, 0, n)
        }
        _ => {
            let so = rng.gen_range(0..=bits);
            let n = if rng.gen_bool(0.9) { rng.gen_range(0..=bits - so) } else { bits - so + rng.gen_range(1..10) };
            ("offlen", buf, so, n)
        }
    }
}

fn do_write<W: BitWrite>(t: &mut W, var: &str, src: &[u8], so: usize, n: usize) -> &'static str {
    res_of(&match var {
        "offlen" => t.write_bits_with_offset_len(src, so, n),
        "bits" => t.write_bits(src),
        "off" => t.write_bits_with_offset(src, so),
        "len" => t.write_bits_with_len(src, n),
        _ => unreachable!(),
    })
}

fn do_read<R: BitRead>(t: &mut R, var: &str, dst: &mut [u8], dp: usize, n: usize) -> &'static str {
    res_of(&match var {
        "offlen" => t.read_bits_with_offset_len(dst, dp, n),
        "bits" => t.read_bits(dst),
        "off" => t.read_bits_with_offset(dst, dp),
        "len" => t.read_bits_with_len(dst, n),
        _ => unreachable!(),
    })
}

pub fn record(kv: &Kv, out: &mut Out) {
    let seed = kv_u64(kv, "seed", 1);
    let histories = kv_u64(kv, "histories", 100);
    let ops = kv_u64(kv, "ops", 50);
    let max_bytes = kv_u64(kv, "maxbytes", 16) as usize;
    let mut rng = StdRng::seed_from_u64(seed);
    for h in 0..histories {
        match h % 4 {
            0 | 1 => {
                // growable BitBuffer
                let mut b = BitBuffer::default();
                // the read position of a BitBuffer is not observable: the recorder follows it (a successful read of n bits
                // advances it by n) to choose a window for with_max_read that lies inside the written bits
                let mut rp = 0usize;
                out.line(&json!({"op": "new", "be": "buf", "bytes": [], "wpos": 0, "rpos": 0, "vis": 0}));
                for _ in 0..ops {
                    let snap = |b: &BitBuffer| (b.bit_len(), b.content().to_vec());
                    match rng.gen_range(0..100) {
                        0..=39 => {
                            let (var, src, so, n) = pick_copy(&mut rng, 8);
                            if b.bit_len() + n > 8 * max_bytes {
                                b.clear();
                                rp = 0;
                                let (len, bytes) = snap(&b);
                                out.line(&json!({"op": "clr", "len": len, "bytes": bytes}));
                                continue;
                            }
                            let res = do_write(&mut b, var, &src, so, n);
                            let (len, bytes) = snap(&b);
                            out.line(&json!({"op": "w", "var": var, "src": src, "so": so, "n": n, "res": res, "len": len, "bytes": bytes}));
                        }
                        40..=49 => {
                            let bit = rng.gen_bool(0.5);
                            if b.bit_len() + 1 > 8 * max_bytes {
                                continue;
                            }
                            let res = res_of(&b.write_bit(bit));
                            let (len, bytes) = snap(&b);
                            out.line(&json!({"op": "w", "var": "bit", "src": [if bit { 0x80 } else { 0 }], "so": 0, "n": 1, "res": res, "len": len, "bytes": bytes}));
                        }
                        50..=59 => {
                            if b.bit_len() == 0 {
                                continue;
                            }
                            let pos = rng.gen_range(0..b.bit_len());
                            let bit = rng.gen_bool(0.5);
                            let res = res_of(&b.with_write_position_at(pos, |b| b.write_bit(bit)));
                            let (len, bytes) = snap(&b);
                            out.line(&json!({"op": "p", "pos": pos, "bit": bit as u8, "res": res, "len": len, "bytes": bytes}));
                        }
                        60..=66 => {
                            // patching several bits inside the written part (a reserved length field): half of the positions octet aligned
                            let (var, src, so, n) = pick_copy(&mut rng, 8);
                            if n == 0 || n > b.bit_len() {
                                continue;
                            }
                            let mut pos = rng.gen_range(0..=b.bit_len() - n);
                            if rng.gen_bool(0.5) {
                                pos -= pos % 8;
                            }
                            let res = b.with_write_position_at(pos, |b| do_write(b, var, &src, so, n));
                            let (len, bytes) = snap(&b);
                            out.line(&json!({"op": "pw", "pos": pos, "var": var, "src": src, "so": so, "n": n, "res": res, "len": len, "bytes": bytes}));
                        }
                        67..=74 => match b.read_bit() {
                            Ok(bit) => {
                                rp += 1;
                                out.line(&json!({"op": "rb", "res": "ok", "bit": bit as u8}))
                            }
                            Err(_) => out.line(&json!({"op": "rb", "res": "err", "bit": 0})),
                        },
                        75..=94 => {
                            let (var, dst, dp, n) = pick_copy(&mut rng, 8);
                            let mut d = dst.clone();
                            let res = do_read(&mut b, var, &mut d, dp, n);
                            if res == "ok" {
                                rp += n;
                            }
                            out.line(&json!({"op": "r", "var": var, "dst": dst, "dp": dp, "n": n, "res": res, "out": d}));
                        }
                        95..=96 => {
                            rp = 0;
                            b.reset_read_position();
                            out.line(&json!({"op": "rr"}));
                        }
                        97 => {
                            // a read at another position: the read cursor comes back
                            if b.bit_len() == 0 {
                                continue;
                            }
                            let pos = rng.gen_range(0..b.bit_len());
                            let (var, dst, dp, n) = pick_copy(&mut rng, 8);
                            let d = std::cell::RefCell::new(dst.clone());
                            let res = b.with_read_position_at(pos, |b| do_read(b, var, &mut d.borrow_mut(), dp, n));
                            out.line(&json!({"op": "rp", "pos": pos, "var": var, "dst": dst, "dp": dp, "n": n, "res": res, "out": d.into_inner(), "len": b.bit_len()}));
                        }
                        98 => {
                            // a read through a window of max bits (what a reader of an open type does)
                            let left = b.bit_len().saturating_sub(rp);
                            let max = rng.gen_range(0..=left);
                            let (var, dst, dp, n) = pick_copy(&mut rng, 8);
                            let d = std::cell::RefCell::new(dst.clone());
                            let res = b.with_max_read(max, |b| do_read(b, var, &mut d.borrow_mut(), dp, n));
                            if res == "ok" {
                                rp += n;
                            }
                            out.line(&json!({"op": "mr", "max": max, "var": var, "dst": dst, "dp": dp, "n": n, "res": res, "out": d.into_inner(), "len": b.bit_len()}));
                        }
                        _ => {
                            if rng.gen_bool(0.5) {
                                b.clear();
                                rp = 0;
                                let (len, bytes) = snap(&b);
                                out.line(&json!({"op": "clr", "len": len, "bytes": bytes}));
                            } else {
                                // a buffer built from received bits (exact length, zero padding), write and read cursor given
                                let bits = rng.gen_range(0..=8 * max_bytes.min(6));
                                let mut bytes = rand_bytes(&mut rng, (bits + 7) / 8);
                                if bits % 8 != 0 {
                                    let last = bytes.len() - 1;
                                    bytes[last] &= 0xFFu8 << (8 - bits % 8);
                                }
                                rp = if rng.gen_bool(0.5) { 0 } else { rng.gen_range(0..=bits) };
                                b = match rng.gen_range(0..3) {
                                    0 if rp == 0 && bits % 8 == 0 => BitBuffer::from_bytes(bytes.clone()),
                                    1 if rp == 0 => BitBuffer::from_bits(bytes.clone(), bits),
                                    _ => BitBuffer::from_bits_with_position(bytes.clone(), bits, rp),
                                };
                                out.line(&json!({"op": "new", "be": "buf", "bytes": bytes, "wpos": bits, "rpos": rp, "vis": 0}));
                            }
                        }
                    }
                }
            }
            2 => {
                // fixed slice with write cursor
                let len = rng.gen_range(0..=max_bytes);
                let mut buf = rand_bytes(&mut rng, len);
                let mut pos = rng.gen_range(0..=8 * len);
                out.line(&json!({"op": "new", "be": "mslice", "bytes": buf, "wpos": pos, "rpos": 0, "vis": 0}));
                for _ in 0..ops {
                    if rng.gen_bool(0.1) {
                        // cursor is a plain usize owned by the caller: moving it is not an operation of the library
                        pos = rng.gen_range(0..=8 * len);
                        out.line(&json!({"op": "new", "be": "mslice", "bytes": buf, "wpos": pos, "rpos": 0, "vis": 0}));
                        continue;
                    }
                    if rng.gen_bool(0.2) {
                        let bit = rng.gen_bool(0.5);
                        let res = res_of(&(&mut buf[..], &mut pos).write_bit(bit));
                        out.line(&json!({"op": "w", "var": "bit", "src": [if bit { 0x80 } else { 0 }], "so": 0, "n": 1, "res": res, "len": pos, "bytes": buf}));
                    } else {
                        let (var, src, so, n) = pick_copy(&mut rng, 8);
                        let res = do_write(&mut (&mut buf[..], &mut pos), var, &src, so, n);
                        out.line(&json!({"op": "w", "var": var, "src": src, "so": so, "n": n, "res": res, "len": pos, "bytes": buf}));
                    }
                }
            }
            _ => {
                // read-only back ends: (&[u8], &mut usize) and Bits with a declared length
                let len = rng.gen_range(0..=max_bytes);
                let buf = rand_bytes(&mut rng, len);
                let use_bits = rng.gen_bool(0.5);
                if use_bits {
                    let vis = if rng.gen_bool(0.5) { 8 * len } else { rng.gen_range(0..=8 * len) };
                    let mut b = Bits::from((&buf[..], vis));
                    out.line(&json!({"op": "new", "be": "bits", "bytes": buf, "wpos": 0, "rpos": 0, "vis": vis}));
                    for _ in 0..ops {
                        let what = rng.gen_range(0..100);
                        if what < 12 {
                            // the scoped reader interface: move the cursor (clamped to the declared length) ...
                            let arg = if rng.gen_bool(0.8) { rng.gen_range(0..=8 * len) } else { 8 * len + rng.gen_range(1..40) };
                            let ret = b.set_pos(arg);
                            out.line(&json!({"op": "sp", "arg": arg, "ret": ret}));
                        } else if what < 20 {
                            // ... and declare another length (clamped to the octets that are there), never in front of the cursor
                            let arg = if rng.gen_bool(0.8) { rng.gen_range(b.pos()..=8 * len) } else { 8 * len + rng.gen_range(1..40) };
                            let ret = b.set_len(arg);
                            out.line(&json!({"op": "sl", "arg": arg, "ret": ret}));
                        } else if what < 44 {
                            match b.read_bit() {
                                Ok(bit) => out.line(&json!({"op": "rb", "res": "ok", "bit": bit as u8})),
                                Err(_) => out.line(&json!({"op": "rb", "res": "err", "bit": 0})),
                            }
                        } else {
                            let (var, dst, dp, n) = pick_copy(&mut rng, 8);
                            let mut d = dst.clone();
                            let res = do_read(&mut b, var, &mut d, dp, n);
                            out.line(&json!({"op": "r", "var": var, "dst": dst, "dp": dp, "n": n, "res": res, "out": d}));
                        }
                        out.line(&json!({"op": "pos", "pos": b.pos()}));
                        out.line(&json!({"op": "obs", "len": ScopedBitRead::len(&b), "rem": b.remaining()}));
                    }
                } else {
                    let mut pos = rng.gen_range(0..=8 * len);
                    out.line(&json!({"op": "new", "be": "rslice", "bytes": buf, "wpos": 0, "rpos": pos, "vis": 8 * len}));
                    for _ in 0..ops {
                        if rng.gen_bool(0.3) {
                            let r = guarded(|| (&buf[..], &mut pos).read_bit());
                            match r {
                                Ok(Ok(bit)) => out.line(&json!({"op": "rb", "res": "ok", "bit": bit as u8})),
                                Ok(Err(_)) => out.line(&json!({"op": "rb", "res": "err", "bit": 0})),
                                Err(_) => out.line(&json!({"op": "rb", "res": "panic", "bit": 0})),
                            }
                        } else {
                            let (var, dst, dp, n) = pick_copy(&mut rng, 8);
                            let mut d = dst.clone();
                            let res = do_read(&mut (&buf[..], &mut pos), var, &mut d, dp, n);
                            out.line(&json!({"op": "r", "var": var, "dst": dst, "dp": dp, "n": n, "res": res, "out": d}));
                        }
                        out.line(&json!({"op": "pos", "pos": pos}));
                    }
                }
            }
        }
    }
}
