//! Counting global allocator: lets a replay attribute allocation to the case that caused it (C04: "does not allocate
//! without bound relative to the input size").
use std::alloc::{GlobalAlloc, Layout, System};
use std::sync::atomic::{AtomicUsize, Ordering};

pub struct Counting;

static CURRENT: AtomicUsize = AtomicUsize::new(0);
static PEAK: AtomicUsize = AtomicUsize::new(0);

unsafe impl GlobalAlloc for Counting {
    unsafe fn alloc(&self, layout: Layout) -> *mut u8 {
        let p = System.alloc(layout);
        if !p.is_null() {
            let now = CURRENT.fetch_add(layout.size(), Ordering::Relaxed) + layout.size();
            PEAK.fetch_max(now, Ordering::Relaxed);
        }
        p
    }
    unsafe fn dealloc(&self, ptr: *mut u8, layout: Layout) {
        System.dealloc(ptr, layout);
        CURRENT.fetch_sub(layout.size(), Ordering::Relaxed);
    }
    unsafe fn alloc_zeroed(&self, layout: Layout) -> *mut u8 {
        let p = System.alloc_zeroed(layout);
        if !p.is_null() {
            let now = CURRENT.fetch_add(layout.size(), Ordering::Relaxed) + layout.size();
            PEAK.fetch_max(now, Ordering::Relaxed);
        }
        p
    }
    unsafe fn realloc(&self, ptr: *mut u8, layout: Layout, new_size: usize) -> *mut u8 {
        let p = System.realloc(ptr, layout, new_size);
        if !p.is_null() {
            if new_size >= layout.size() {
                let now = CURRENT.fetch_add(new_size - layout.size(), Ordering::Relaxed) + (new_size - layout.size());
                PEAK.fetch_max(now, Ordering::Relaxed);
            } else {
                CURRENT.fetch_sub(layout.size() - new_size, Ordering::Relaxed);
            }
        }
        p
    }
}

#[global_allocator]
static GLOBAL: Counting = Counting;

/// Starts a measurement: the peak is reset to the current usage.
pub fn reset_peak() -> usize {
    let c = CURRENT.load(Ordering::Relaxed);
    PEAK.store(c, Ordering::Relaxed);
    c
}

/// Bytes allocated above the level at the last reset.
pub fn peak_since(base: usize) -> usize {
    PEAK.load(Ordering::Relaxed).saturating_sub(base)
}
