//! Prints the Rust code asn1rs generates for the ASN.1 module(s) in the given files (run-time use of the public model API).
use asn1rs_model::asn::MultiModuleResolver;
use asn1rs_model::generate::rust::RustCodeGenerator;
use asn1rs_model::generate::Generator;
use asn1rs_model::parse::Tokenizer;
use asn1rs_model::Model;

fn main() {
    let mut res = MultiModuleResolver::default();
    for f in std::env::args().skip(1) {
        let text = std::fs::read_to_string(&f).expect("read");
        let model = Model::try_from(Tokenizer.parse(&text)).expect("parse");
        res.push(model);
    }
    let models = res.try_resolve_all().expect("resolve");
    let scope = models.iter().collect::<Vec<_>>();
    for m in &models {
        let mut g = RustCodeGenerator::default();
        g.add_model(m.to_rust_with_scope(&scope[..]));
        for (file, content) in g.to_string().expect("generate") {
            println!("// ===== {}\n{}", file, content);
        }
    }
}
