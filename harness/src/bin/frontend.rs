//! Run-time use of the public front-end API (no rustc involved): frontend pipeline <a.asn1 ...>
//! prints one JSON line per definition.
use serde_json::json;

fn main() {
    let args: Vec<String> = std::env::args().collect();
    vharness::util::install_panic_hook();
    match args.get(1).map(|s| s.as_str()) {
        Some("pipeline") => {
            let texts: Vec<String> = args[2..].iter().map(|f| std::fs::read_to_string(f).expect("read")).collect();
            match vharness::frontend::pipeline(&texts) {
                Err(e) => println!("{}", json!({"error": e})),
                Ok(defs) => {
                    if let Ok(files) = vharness::frontend::generate_files(&texts) {
                        for (file, code) in files {
                            println!("{}", json!({"file": file, "code": code}));
                        }
                    }
                    for d in defs {
                        println!("{}", json!({"module": d.module, "name": d.name, "rust": d.rust_debug, "attribute": d.attribute,
                            "generated": d.generated, "reparsed": d.reparsed_debug.clone().unwrap_or_else(|e| format!("ERROR {}", e)),
                            "expanded": d.expanded.clone().unwrap_or_else(|e| format!("ERROR {}", e))}));
                    }
                }
            }
        }
        _ => {
            eprintln!("usage: frontend pipeline <files>");
            std::process::exit(2);
        }
    }
}
