//! Run-time use of the public front-end API (no rustc involved): frontend pipeline <a.asn1 ...>
//! prints one JSON line per definition.
use serde_json::json;

fn main() {
    let args: Vec<String> = std::env::args().collect();
    vharness::util::install_panic_hook();
    match args.get(1).map(|s| s.as_str()) {
        Some("pipeline") => {
            let texts: Vec<String> = args[2..].iter().map(|f| std::fs::read_to_string(f).expect("read")).collect();
            match vharness::frontend::pipeline(&texts) {
                Err(e) => println!("{}", json!({"error": e})),
                Ok(defs) => {
                    if let Ok(files) = vharness::frontend::generate_files(&texts) {
                        for (file, code) in files {
                            println!("{}", json!({"file": file, "code": code}));
                        }
                    }
                    for d in defs {
                        println!("{}", json!({"module": d.module, "name": d.name, "rust": d.rust_debug, "attribute": d.attribute,
                            "generated": d.generated, "reparsed": d.reparsed_debug.clone().unwrap_or_else(|e| format!("ERROR {}", e)),
                            "expanded": d.expanded.clone().unwrap_or_else(|e| format!("ERROR {}", e))}));
                    }
                }
            }
        }
        Some("proto") => {
            // the generated .proto file(s) of the given modules
            use asn1rs_model::asn::MultiModuleResolver;
            use asn1rs_model::generate::protobuf::ProtobufDefGenerator;
            use asn1rs_model::generate::Generator;
            use asn1rs_model::parse::Tokenizer;
            use asn1rs_model::protobuf::ToProtobufModel;
            use asn1rs_model::Model;
            let r = vharness::util::guarded(|| -> Result<Vec<serde_json::Value>, String> {
                let mut res = MultiModuleResolver::default();
                for f in &args[2..] {
                    let text = std::fs::read_to_string(f).expect("read");
                    res.push(Model::try_from(Tokenizer.parse(&text)).map_err(|e| format!("parse: {}", e))?);
                }
                let models = res.try_resolve_all().map_err(|e| format!("resolve: {}", e))?;
                let scope = models.iter().collect::<Vec<_>>();
                let mut out = Vec::new();
                for m in &models {
                    let mut g = ProtobufDefGenerator::default();
                    g.add_model(m.to_rust_with_scope(&scope[..]).to_protobuf());
                    for (file, content) in g.to_string().map_err(|e| format!("generator: {:?}", e))? {
                        out.push(json!({"file": file, "proto": content}));
                    }
                }
                Ok(out)
            });
            match r {
                Err(p) => println!("{}", json!({"error": format!("panic: {}", p)})),
                Ok(Err(e)) => println!("{}", json!({"error": e})),
                Ok(Ok(ms)) => {
                    for m in ms {
                        println!("{}", m);
                    }
                }
            }
        }
        Some("canon") => {
            // resolves the given files together in the given order; one JSON line per module (or one error line)
            use asn1rs_model::asn::MultiModuleResolver;
            use asn1rs_model::parse::Tokenizer;
            use asn1rs_model::Model;
            let r = vharness::util::guarded(|| -> Result<Vec<serde_json::Value>, String> {
                let mut res = MultiModuleResolver::default();
                for f in &args[2..] {
                    let text = std::fs::read_to_string(f).expect("read");
                    res.push(Model::try_from(Tokenizer.parse(&text)).map_err(|e| format!("parse: {}", e))?);
                }
                let models = res.try_resolve_all().map_err(|e| format!("resolve: {}", e))?;
                Ok(models.iter().map(vharness::canon::model).collect())
            });
            match r {
                Err(p) => println!("{}", json!({"error": format!("panic: {}", p)})),
                Ok(Err(e)) => println!("{}", json!({"error": e})),
                Ok(Ok(ms)) => {
                    for m in ms {
                        println!("{}", m);
                    }
                }
            }
        }
        Some("canon1") => {
            // ndjson in ({"text": module}) -> ndjson out: the canonical projection of that single module (or {"error"})
            use asn1rs_model::parse::Tokenizer;
            use asn1rs_model::Model;
            let mut out = vharness::util::Out::create(&args[3]);
            for (_i, c) in vharness::util::read_lines(&args[2]) {
                let text = c["text"].as_str().unwrap_or("").to_string();
                let r = vharness::util::guarded(|| -> Result<serde_json::Value, String> {
                    let model = Model::try_from(Tokenizer.parse(&text))
                        .map_err(|e| format!("parse: {}", format!("{}", e).lines().next().unwrap_or("")))?
                        .try_resolve()
                        .map_err(|e| format!("resolve: {}", format!("{}", e).lines().next().unwrap_or("")))?;
                    Ok(vharness::canon::model(&model))
                });
                match r {
                    Err(p) => out.line(&json!({"error": format!("panic: {}", p)})),
                    Ok(Err(e)) => out.line(&json!({"error": e})),
                    Ok(Ok(m)) => out.line(&m),
                }
            }
        }
        Some("accept") => {
            // ndjson in ({"text": module}) -> ndjson out: does the asn_to_rust! front end (parse, resolve, to_rust, generator) accept it?
            use asn1rs_model::generate::rust::RustCodeGenerator;
            use asn1rs_model::generate::Generator;
            use asn1rs_model::parse::Tokenizer;
            use asn1rs_model::Model;
            let mut out = vharness::util::Out::create(&args[3]);
            for (_i, c) in vharness::util::read_lines(&args[2]) {
                let text = c["text"].as_str().unwrap_or("").to_string();
                let r = vharness::util::guarded(|| -> Result<String, String> {
                    let model = Model::try_from(Tokenizer.parse(&text))
                        .map_err(|e| format!("parse: {}", format!("{}", e).lines().next().unwrap_or("").to_string()))?
                        .try_resolve()
                        .map_err(|e| format!("resolve: {}", format!("{}", e).lines().next().unwrap_or("").to_string()))?;
                    let files = RustCodeGenerator::from(model.to_rust()).to_string().map_err(|_| "generator failed".to_string())?;
                    Ok(files.into_iter().map(|(_f, c)| c).collect::<Vec<_>>().join("\n"))
                });
                match r {
                    Err(p) => out.line(&json!({"accepted": false, "error": format!("panic: {}", p)})),
                    Ok(Err(e)) => out.line(&json!({"accepted": false, "error": e})),
                    Ok(Ok(code)) => out.line(&json!({"accepted": true, "code": code})),
                }
            }
        }
        _ => {
            eprintln!("usage: frontend pipeline|canon <files>");
            std::process::exit(2);
        }
    }
}
