//! R direction: execute replay lines printed by TLC against the real library.
//! usage: replay <domain> <in.ndjson> <out.ndjson>
use vharness::util::*;

fn main() {
    let args: Vec<String> = std::env::args().collect();
    if args.len() < 4 {
        eprintln!("usage: replay <domain> <in.ndjson> <out.ndjson>");
        std::process::exit(2);
    }
    install_panic_hook();
    let mut out = Out::create(&args[3]);
    match args[1].as_str() {
        "bitops" => vharness::bitops::replay(&args[2], &mut out),
        "prim" => vharness::prim::replay(&args[2], &mut out),
        "lexer" => vharness::lexer::replay(&args[2], &mut out),
        "der" => vharness::der::replay(&args[2], &mut out),
        "names" => vharness::names::replay(&args[2], &mut out),
        "protoprim" => vharness::protoprim::replay(&args[2], &mut out),
        "converter" => vharness::converter::replay(&args[2], &mut out),
        "derfault" => {
            let kv: Kv = args[4..].iter().filter_map(|a| a.split_once('=').map(|(k, v)| (k.to_string(), v.to_string()))).collect();
            vharness::der::fault(&args[2], &mut out, &kv)
        }
        "relayout" => vharness::lexer::relayout(&args[2], &mut out),
        "frontfault" => {
            let kv: Kv = args[4..].iter().filter_map(|a| a.split_once('=').map(|(k, v)| (k.to_string(), v.to_string()))).collect();
            vharness::frontfault::replay(&args[2], &mut out, &kv)
        }
        other => {
            eprintln!("unknown domain {}", other);
            std::process::exit(2);
        }
    }
    out.flush();
}
