//! T direction: seeded drivers that run the real library and record one event per public call.
//! usage: record <domain> <out.ndjson> key=value ...
use vharness::util::*;

fn main() {
    let args: Vec<String> = std::env::args().collect();
    if args.len() < 3 {
        eprintln!("usage: record <domain> <out.ndjson> key=value...");
        std::process::exit(2);
    }
    install_panic_hook();
    let kv: std::collections::HashMap<String, String> = args[3..]
        .iter()
        .filter_map(|a| a.split_once('=').map(|(k, v)| (k.to_string(), v.to_string())))
        .collect();
    let mut out = Out::create(&args[2]);
    match args[1].as_str() {
        "bitbuffer" => vharness::bitops::record(&kv, &mut out),
        "prim" => vharness::prim::record(&kv, &mut out),
        "der" => vharness::der::record(&kv, &mut out),
        other => {
            eprintln!("unknown domain {}", other);
            std::process::exit(2);
        }
    }
    out.flush();
}
