//! C13: the real Tokenizer against Lexer.tla (tokens, order, line/column of the first character).
use crate::util::*;
use asn1rs_model::parse::{Token, Tokenizer};
use serde_json::{json, Value};

pub fn sym(s: &str) -> char {
    match s {
        "S" => ' ',
        "T" => '\t',
        "R" => '\r',
        "N" => '\n',
        other => other.chars().next().unwrap(),
    }
}

pub fn text_of(v: &Value) -> String {
    v.as_array().unwrap().iter().map(|c| sym(c.as_str().unwrap())).collect()
}

pub fn tokens_json(tokens: &[Token]) -> Value {
    Value::Array(
        tokens
            .iter()
            .map(|t| match t {
                Token::Text(l, s) => json!([s, l.line(), l.column(), "txt"]),
                Token::Separator(l, c) => json!([c.to_string(), l.line(), l.column(), "sep"]),
            })
            .collect(),
    )
}

pub const UNCLOSED: &str = "The file has unclosed comment blocks";

/// Is this the panic documented for unterminated block comments? (by what it is about, not by its exact wording)
pub fn is_comment_panic(p: &str) -> bool {
    p.contains(UNCLOSED) || p.to_lowercase().contains("comment")
}

/// Lexer!Unterminated (MarkR, character by character): is the text still inside a block comment where it ends?
/// The documented panic is sanctioned for exactly these inputs.
pub fn unterminated(text: &str) -> bool {
    let s: Vec<char> = text.chars().collect();
    let (mut i, mut nest, mut in_line) = (0usize, 0u32, false);
    while i < s.len() {
        let ch = s[i];
        let nx = if i + 1 < s.len() { s[i + 1] } else { '\n' };
        if ch == '\n' {
            in_line = false; // a line break ends a "--" comment, not a block comment
            i += 1;
        } else if nest > 0 {
            if ch == '*' && nx == '/' {
                nest -= 1;
                i += 2;
            } else if ch == '/' && nx == '*' {
                nest += 1;
                i += 2;
            } else {
                i += 1;
            }
        } else if in_line {
            i += 1;
        } else if ch == '-' && nx == '-' {
            in_line = true;
            i += 2;
        } else if ch == '/' && nx == '*' {
            nest = 1;
            i += 2;
        } else {
            i += 1;
        }
    }
    nest > 0
}

pub fn replay(input: &str, out: &mut Out) {
    let (mut n, mut bad, mut unterminated, mut nontrivial) = (0u64, 0u64, 0u64, 0u64);
    let mut shown = 0;
    for (i, c) in read_lines(input) {
        n += 1;
        let text = text_of(&c["s"]);
        let exp = Value::Array(
            c["toks"].as_array().unwrap().iter()
                .map(|t| json!([text_of(&t[0]), t[1], t[2], t[3]]))
                .collect(),
        );
        let unterm = c["unterminated"].as_bool().unwrap();
        let got = guarded(|| Tokenizer.parse(&text));
        let why = match got {
            Err(p) => {
                if unterm && is_comment_panic(&p) {
                    unterminated += 1;
                    None // the documented panic
                } else {
                    Some(format!("panic: {}", p))
                }
            }
            Ok(tokens) => {
                if unterm {
                    unterminated += 1;
                    None // no requirement on the tokens of an unterminated comment
                } else {
                    let g = tokens_json(&tokens);
                    if !tokens.is_empty() {
                        nontrivial += 1;
                    }
                    if g == exp { None } else { Some(format!("tokens {} instead of {}", g, exp)) }
                }
            }
        };
        if let Some(why) = why {
            bad += 1;
            shown += 1;
            if shown <= 30 {
                out.line(&json!({"line": i, "text": text, "why": why}));
            }
        }
    }
    out.line(&json!({"summary": true, "cases": n, "mismatches": bad, "unterminated": unterminated, "nontrivial": nontrivial}));
}

// ------------------------------------------------------------------------------------------------
// module level: relayout of whole modules by a plan chosen by the specification's printer
// ------------------------------------------------------------------------------------------------
use asn1rs_model::Model;

fn token_text(t: &Token) -> String {
    match t {
        Token::Text(_, s) => s.clone(),
        Token::Separator(_, c) => c.to_string(),
    }
}

fn strip(tokens: &[Token]) -> Vec<(bool, String)> {
    tokens.iter().map(|t| (matches!(t, Token::Text(..)), token_text(t))).collect()
}

fn model_dump(tokens: Vec<Token>) -> String {
    match guarded(|| Model::try_from(tokens).map(|m| m.try_resolve().map(|r| format!("{:?}", r)).map_err(|e| format!("{:?}", e)))) {
        Err(p) => format!("PANIC {}", p),
        Ok(Err(e)) => format!("PARSE-ERROR {}", e),
        Ok(Ok(Err(e))) => format!("RESOLVE-ERROR {}", e),
        Ok(Ok(Ok(d))) => d,
    }
}

/// Every token must be found at its reported (line, column) of the text that was tokenized.
fn locations_ok(text: &str, tokens: &[Token]) -> Option<String> {
    let lines: Vec<Vec<char>> = text.lines().map(|l| l.chars().collect()).collect();
    for t in tokens {
        let (l, c) = (t.location().line(), t.location().column());
        let tt: Vec<char> = token_text(t).chars().collect();
        let ok = l >= 1 && l <= lines.len() && c >= 1 && c - 1 + tt.len() <= lines[l - 1].len() && lines[l - 1][c - 1..c - 1 + tt.len()] == tt[..];
        if !ok {
            return Some(format!("token {} is reported at line {} column {} but does not start there", t, l, c));
        }
    }
    None
}

const SEPS: [&str; 8] = ["", " ", "\t", "\r\n", "\n", " -- c\n", " /* c */ ", " /* a /* b */ c */ "];
const WIDE: usize = 70_000;

fn push_sep(out: &mut String, k: usize) {
    match k {
        // Relayout.tla 8, 9: whatever follows on the line starts beyond column 65 535
        8 => out.extend(std::iter::repeat(' ').take(WIDE)),
        9 => {
            out.push_str(" /*");
            out.extend(std::iter::repeat('c').take(WIDE));
            out.push_str("*/ ");
        }
        _ => out.push_str(SEPS[k]),
    }
}

fn relayout_text(text: &str, tokens: &[Token], plan: &[u64], shift: usize) -> String {
    let lines: Vec<Vec<char>> = text.lines().map(|l| l.chars().collect()).collect();
    let mut out = String::new();
    let mut in_quote: Option<char> = None;
    for (i, t) in tokens.iter().enumerate() {
        if i > 0 {
            let p = &tokens[i - 1];
            // were the two tokens adjacent in the original text?
            let adjacent = p.location().line() == t.location().line()
                && p.location().column() + token_text(p).chars().count() == t.location().column();
            if in_quote.is_some() {
                // inside a character / hex / bit string literal the spacing is content: copy it verbatim
                if p.location().line() == t.location().line() {
                    let from = p.location().column() - 1 + token_text(p).chars().count();
                    let to = t.location().column() - 1;
                    out.extend(lines[t.location().line() - 1][from..to].iter());
                } else {
                    out.push('\n');
                    out.extend(std::iter::repeat(' ').take(t.location().column() - 1));
                }
            } else {
                let both_sep = matches!(p, Token::Separator(..)) && matches!(t, Token::Separator(..));
                if adjacent && both_sep {
                    // "::=", "..", "..." are single lexical items of ASN.1 spelled with separator characters
                } else {
                    let mut k = plan[(i - 1 + shift) % plan.len()] as usize;
                    let both_text = matches!(p, Token::Text(..)) && matches!(t, Token::Text(..));
                    if k == 0 && (both_text || !adjacent) {
                        k = 1; // nothing is only legal where nothing was needed
                    }
                    push_sep(&mut out, k);
                }
            }
        }
        if let Token::Separator(_, c) = t {
            if *c == '"' || *c == '\'' {
                in_quote = match in_quote {
                    Some(q) if q == *c => None,
                    None => Some(*c),
                    other => other,
                };
            }
        }
        out.push_str(&token_text(t));
    }
    out.push('\n');
    out
}

/// input: {"modules": [text...], "plans": [[kinds...]...]}; every plan is applied to every module (with a shift per module)
pub fn relayout(input: &str, out: &mut Out) {
    let spec: Value = serde_json::from_str(&std::fs::read_to_string(input).expect("read")).expect("json");
    let modules: Vec<String> = spec["modules"].as_array().unwrap().iter().map(|m| m.as_str().unwrap().to_string()).collect();
    let plans: Vec<Vec<u64>> = spec["plans"].as_array().unwrap().iter()
        .map(|p| p.as_array().unwrap().iter().map(|x| x.as_u64().unwrap()).collect()).collect();
    let (mut n, mut bad, mut boundaries, mut parsed) = (0u64, 0u64, 0u64, 0u64);
    for (mi, text) in modules.iter().enumerate() {
        let tokens0 = match guarded(|| Tokenizer.parse(text)) {
            Ok(t) => t,
            Err(_) => continue,
        };
        if let Some(why) = locations_ok(text, &tokens0) {
            bad += 1;
            out.line(&json!({"module": mi, "plan": -1, "why": why, "text": text}));
        }
        let dump0 = model_dump(tokens0.clone());
        if !dump0.starts_with("PARSE-ERROR") && !dump0.starts_with("RESOLVE-ERROR") && !dump0.starts_with("PANIC") {
            parsed += 1;
        }
        for (pi, plan) in plans.iter().enumerate() {
            n += 1;
            boundaries += tokens0.len().saturating_sub(1) as u64;
            let text1 = relayout_text(text, &tokens0, plan, mi * 7 + pi);
            let why = match guarded(|| Tokenizer.parse(&text1)) {
                Err(p) => Some(format!("tokenizer panicked on the re-laid-out module: {}", p)),
                Ok(tokens1) => {
                    if strip(&tokens1) != strip(&tokens0) {
                        let a = strip(&tokens0);
                        let b = strip(&tokens1);
                        let k = a.iter().zip(b.iter()).position(|(x, y)| x != y).unwrap_or(a.len().min(b.len()));
                        Some(format!("token sequence changed at token {}: {:?} became {:?}", k, a.get(k), b.get(k)))
                    } else if let Some(w) = locations_ok(&text1, &tokens1) {
                        Some(w)
                    } else {
                        let dump1 = model_dump(tokens1);
                        if dump1 != dump0 { Some("the parsed and resolved model changed".to_string()) } else { None }
                    }
                }
            };
            if let Some(why) = why {
                bad += 1;
                if bad <= 20 {
                    out.line(&json!({"module": mi, "plan": pi, "why": why, "relayout": text1, "original": text}));
                }
            }
        }
    }
    out.line(&json!({"summary": true, "cases": n, "mismatches": bad, "boundaries": boundaries, "modules": modules.len(), "modules_parsed": parsed}));
}
