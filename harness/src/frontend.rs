//! The whole front end at run time, exactly along the path of the asn_to_rust! / #[asn(..)] macros:
//! text -> tokens -> Model<Asn> -> resolve -> Model<Rust> -> generated Rust text with #[asn(..)] attributes
//!      -> attribute parser (parse_asn_definition) -> expand (AsnDefWriter::stringify)
use asn1rs_model::asn::MultiModuleResolver;
use asn1rs_model::generate::rust::RustCodeGenerator;
use asn1rs_model::parse::Tokenizer;
use asn1rs_model::rust::Rust;
use asn1rs_model::{Definition, Model};
use codegen::Scope;
use proc_macro2::TokenStream;

pub struct DefInfo {
    pub module: String,
    pub name: String,
    pub rust_debug: String,
    pub generated: String,
    pub attribute: String,
    pub reparsed_debug: Result<String, String>,
    pub expanded: Result<String, String>,
}

pub fn generate_definition(definition: &Definition<Rust>) -> String {
    let mut scope = Scope::new();
    RustCodeGenerator::default().add_definition(&mut scope, definition);
    scope.to_string()
}

pub fn extract_attribute(attr: &str) -> Option<TokenStream> {
    const PREFIX: &str = "#[asn(";
    const SUFFIX: &str = ")]";
    if !attr.starts_with(PREFIX) || !attr.ends_with(SUFFIX) {
        return None;
    }
    attr[PREFIX.len()..attr.len() - SUFFIX.len()].parse().ok()
}

/// The complete generated file(s) (struct definitions and impl blocks) per module, as the CLI converter writes them.
pub fn generate_files(texts: &[String]) -> Result<Vec<(String, String)>, String> {
    use asn1rs_model::generate::Generator;
    let mut res = MultiModuleResolver::default();
    for t in texts {
        res.push(Model::try_from(Tokenizer.parse(t)).map_err(|e| format!("parse: {}", e))?);
    }
    let models = res.try_resolve_all().map_err(|e| format!("resolve: {:?}", e))?;
    let scope = models.iter().collect::<Vec<_>>();
    let mut out = Vec::new();
    for m in &models {
        let mut g = RustCodeGenerator::default();
        g.add_model(m.to_rust_with_scope(&scope[..]));
        for (file, content) in g.to_string().map_err(|_| "generator failed".to_string())? {
            out.push((file, content));
        }
    }
    Ok(out)
}

/// Resolves the given module texts together (in the given load order) and walks every definition through the macro path.
pub fn pipeline(texts: &[String]) -> Result<Vec<DefInfo>, String> {
    let mut res = MultiModuleResolver::default();
    for t in texts {
        res.push(Model::try_from(Tokenizer.parse(t)).map_err(|e| format!("parse: {}", e))?);
    }
    let models = res.try_resolve_all().map_err(|e| format!("resolve: {:?}", e))?;
    let scope = models.iter().collect::<Vec<_>>();
    let mut out = Vec::new();
    for m in &models {
        let rust_model = m.to_rust_with_scope(&scope[..]);
        for definition in &rust_model.definitions {
            let generated = generate_definition(definition);
            let mut lines = generated.lines().map(str::trim).filter(|s| !s.is_empty());
            let first = lines.next().unwrap_or("").to_string();
            let body_text = lines.map(|l| l.to_string()).collect::<Vec<_>>().join("\n");
            let mut info = DefInfo {
                module: rust_model.name.clone(),
                name: definition.0.clone(),
                rust_debug: format!("{:?}", definition),
                generated: generated.clone(),
                attribute: first.clone(),
                reparsed_debug: Err("not parsed".into()),
                expanded: Err("not expanded".into()),
            };
            let parsed = (|| -> Result<_, String> {
                let attribute = extract_attribute(&first).ok_or_else(|| format!("no #[asn(..)] attribute in first line: {}", first))?;
                let body: TokenStream = body_text.parse().map_err(|e| format!("generated item does not tokenize: {:?}", e))?;
                let d = asn1rs_model::proc_macro::parse_asn_definition(attribute, body)
                    .map_err(|e| format!("attribute parser rejects the generated code: {}", e))?
                    .0
                    .ok_or_else(|| "attribute parser found no definition".to_string())?;
                Ok(d)
            })();
            match parsed {
                Err(e) => info.reparsed_debug = Err(e),
                Ok(d) => {
                    let re_model = Model {
                        name: rust_model.name.clone(),
                        imports: rust_model.imports.clone(),
                        definitions: vec![d.clone()],
                        ..Default::default()
                    };
                    let back = re_model.to_rust_keep_names();
                    info.reparsed_debug = Ok(back.definitions.iter().map(|d| format!("{:?}", d)).collect::<Vec<_>>().join("\n"));
                    let ex = crate::util::guarded(|| {
                        asn1rs_model::proc_macro::expand(Some(d)).iter().map(|t| t.to_string()).collect::<Vec<_>>().join("\n")
                    });
                    info.expanded = ex.map_err(|p| format!("expand panicked: {}", p));
                }
            }
            out.push(info);
        }
    }
    Ok(out)
}
