use serde_json::Value;
use std::cell::RefCell;
use std::io::{BufRead, BufReader, Write};
use std::panic::{catch_unwind, AssertUnwindSafe};

thread_local! {
    static LAST_PANIC: RefCell<String> = RefCell::new(String::new());
    static GUARD_DEPTH: RefCell<u32> = RefCell::new(0);
}

/// Installs a silent panic hook that remembers the message of the last panic.
pub fn install_panic_hook() {
    std::panic::set_hook(Box::new(|info| {
        let msg = if let Some(s) = info.payload().downcast_ref::<&str>() {
            s.to_string()
        } else if let Some(s) = info.payload().downcast_ref::<String>() {
            s.clone()
        } else {
            "panic".to_string()
        };
        let loc = info
            .location()
            .map(|l| format!("{}:{}", l.file(), l.line()))
            .unwrap_or_default();
        // outside `guarded` the process is about to end: say why (a recorder driving the code under test)
        if GUARD_DEPTH.with(|d| *d.borrow()) == 0 {
            eprintln!("PANIC {} @ {}", msg, loc);
        }
        LAST_PANIC.with(|p| *p.borrow_mut() = format!("{} @ {}", msg, loc));
    }));
}

/// A panic in the code under test is data, never a harness failure.
pub fn guarded<T>(f: impl FnOnce() -> T) -> Result<T, String> {
    GUARD_DEPTH.with(|d| *d.borrow_mut() += 1);
    let r = catch_unwind(AssertUnwindSafe(f));
    GUARD_DEPTH.with(|d| *d.borrow_mut() -= 1);
    match r {
        Ok(v) => Ok(v),
        Err(_) => Err(LAST_PANIC.with(|p| p.borrow().clone())),
    }
}

pub fn read_lines(path: &str) -> impl Iterator<Item = (usize, Value)> {
    let f = std::fs::File::open(path).unwrap_or_else(|e| panic!("open {}: {}", path, e));
    BufReader::with_capacity(1 << 20, f)
        .lines()
        .enumerate()
        .filter_map(|(i, l)| {
            let l = l.expect("read line");
            if l.trim().is_empty() {
                None
            } else {
                Some((i, serde_json::from_str::<Value>(&l).expect("json line")))
            }
        })
}

pub fn bytes_of(v: &Value) -> Vec<u8> {
    v.as_array()
        .expect("byte array")
        .iter()
        .map(|x| x.as_u64().expect("byte") as u8)
        .collect()
}

pub fn usize_of(v: &Value) -> usize {
    v.as_u64().expect("usize") as usize
}

pub struct Out {
    w: std::io::BufWriter<std::fs::File>,
}

impl Out {
    pub fn create(path: &str) -> Self {
        Out {
            w: std::io::BufWriter::with_capacity(
                1 << 20,
                std::fs::File::create(path).unwrap_or_else(|e| panic!("create {}: {}", path, e)),
            ),
        }
    }
    pub fn line(&mut self, v: &Value) {
        serde_json::to_writer(&mut self.w, v).unwrap();
        self.w.write_all(b"\n").unwrap();
    }
    pub fn flush(&mut self) {
        self.w.flush().unwrap();
    }
}

/// Variant name of a per::Error without its backtrace.
pub fn per_err_name(e: &asn1rs::protocol::per::Error) -> String {
    let s = format!("{:?}", e.kind());
    s.split(|c: char| !c.is_alphanumeric())
        .next()
        .unwrap_or("")
        .to_string()
}

pub type Kv = std::collections::HashMap<String, String>;

pub fn kv_u64(kv: &Kv, k: &str, d: u64) -> u64 {
    kv.get(k).map(|v| v.parse().expect("numeric option")).unwrap_or(d)
}
