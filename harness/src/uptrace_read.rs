//! Reader half of the hook-free tracing wrapper (see uptrace.rs): `Tr` is `repr(transparent)` over `UperReader<Bits>`
//! and logs every trait call the generated code makes, with the number of bits consumed so far.
use crate::uptrace::{log_event, patch_event, size_json, SMALL};
use asn1rs::descriptor::*;
use asn1rs::prelude::*;
use asn1rs::protocol::per::Error;
use asn1rs_model::asn::Tag;
use serde_json::{json, Value};
use std::marker::PhantomData;

#[repr(transparent)]
pub struct Tr<'a>(pub UperReader<Bits<'a>>);

thread_local! {
    static TOTAL: std::cell::Cell<usize> = std::cell::Cell::new(0);
}

impl<'a> Tr<'a> {
    pub fn new(bytes: &'a [u8], bit_len: usize) -> Self {
        TOTAL.with(|t| t.set(bit_len));
        Tr(UperReader::from((bytes, bit_len)))
    }

    /// bits consumed so far (the library never shrinks the visible length, so this is the absolute read position)
    fn pos(&self) -> usize {
        TOTAL.with(|t| t.get()).wrapping_sub(self.0.bits_remaining())
    }

    fn cast<'b, R: Reader>(r: &'b mut R) -> &'b mut Tr<'a> {
        assert!(std::any::type_name::<R>().contains("UperReader"), "unexpected reader {}", std::any::type_name::<R>());
        assert_eq!(std::mem::size_of::<R>(), std::mem::size_of::<Tr<'a>>());
        unsafe { &mut *(r as *mut R as *mut Tr<'a>) }
    }

    fn leaf<T>(&mut self, r: &Result<T, Error>, tv: impl FnOnce(&T) -> Option<(Value, Value)>) {
        let (hastv, t, v) = match r.as_ref().ok().and_then(tv) {
            Some((t, v)) => (true, t, v),
            None => (false, json!({"k": "x"}), json!(0)),
        };
        log_event(json!({"ev": "leaf", "ph": "call", "hastv": hastv, "t": t, "v": v, "ok": r.is_ok(), "pos": self.pos()}));
    }
}

fn conv<T, E>(r: Result<T, Error>) -> Result<T, E> {
    // E is per::Error whenever the reader is UperReader
    assert_eq!(std::mem::size_of::<Result<T, Error>>(), std::mem::size_of::<Result<T, E>>());
    let r = std::mem::ManuallyDrop::new(r);
    unsafe { std::mem::transmute_copy::<std::mem::ManuallyDrop<Result<T, Error>>, Result<T, E>>(&r) }
}

fn chars(value: &str) -> Option<Value> {
    if value.chars().count() <= 64 && value.chars().all(|c| (c as u32) < 65536) {
        Some(Value::Array(value.chars().map(|c| json!(c as u32)).collect()))
    } else {
        None
    }
}

pub struct RBody<T>(PhantomData<T>);
impl<T: ReadableType> ReadableType for RBody<T> {
    type Type = T::Type;
    fn read_value<R: Reader>(reader: &mut R) -> Result<Self::Type, R::Error> {
        let tr = Tr::cast(reader);
        log_event(json!({"ev": "value", "ph": "body", "pos": tr.pos()}));
        conv(T::read_value(tr))
    }
}

#[repr(transparent)]
pub struct RAlt<C>(C);
impl<C: common::Constraint> common::Constraint for RAlt<C> {
    const TAG: Tag = C::TAG;
}
impl<C: choice::Constraint> choice::Constraint for RAlt<C> {
    const NAME: &'static str = C::NAME;
    const VARIANT_COUNT: u64 = C::VARIANT_COUNT;
    const STD_VARIANT_COUNT: u64 = C::STD_VARIANT_COUNT;
    const EXTENSIBLE: bool = C::EXTENSIBLE;
    fn to_choice_index(&self) -> u64 {
        self.0.to_choice_index()
    }
    fn write_content<W: Writer>(&self, writer: &mut W) -> Result<(), W::Error> {
        self.0.write_content(writer)
    }
    fn read_content<R: Reader>(index: u64, reader: &mut R) -> Result<Option<Self>, R::Error> {
        let tr = Tr::cast(reader);
        log_event(json!({"ev": "choice", "ph": "body", "idx": index, "pos": tr.pos()}));
        conv(C::read_content(index, tr).map(|o| o.map(RAlt)))
    }
}

impl<'a> Reader for Tr<'a> {
    type Error = Error;

    fn read_sequence<C: sequence::Constraint, S: Sized, F: Fn(&mut Self) -> Result<S, Self::Error>>(&mut self, f: F) -> Result<S, Self::Error> {
        let nroot = C::EXTENDED_AFTER_FIELD.map(|x| x + 1).unwrap_or(C::FIELD_COUNT);
        log_event(json!({"ev": "seq", "ph": "enter", "opt": C::STD_OPTIONAL_FIELDS, "n": C::FIELD_COUNT, "nroot": nroot,
                         "ext": C::EXTENDED_AFTER_FIELD.is_some(), "pos": self.pos()}));
        let r = self.0.read_sequence::<C, S, _>(|inner| {
            let tr = Tr::cast(inner);
            log_event(json!({"ev": "seq", "ph": "body", "pos": tr.pos()}));
            let r = f(tr);
            log_event(json!({"ev": "seq", "ph": "end", "ok": r.is_ok(), "pos": tr.pos()}));
            r
        });
        log_event(json!({"ev": "seq", "ph": "exit", "ok": r.is_ok(), "pos": self.pos()}));
        r
    }

    fn read_sequence_of<C: sequenceof::Constraint, T: ReadableType>(&mut self) -> Result<Vec<T::Type>, Self::Error> {
        let sz = size_json(C::MIN, C::MAX, C::EXTENSIBLE);
        let at = log_event(json!({"ev": "seqof", "ph": "enter", "n": 0, "hassz": sz.is_some(), "sz": sz.unwrap_or(json!(0)), "pos": self.pos()}));
        let r = self.0.read_sequence_of::<C, RBody<T>>();
        // the number of elements is known once the call has returned: the enter event is completed with hindsight
        patch_event(at, "n", json!(r.as_ref().map(|v| v.len()).unwrap_or(0)));
        log_event(json!({"ev": "seqof", "ph": "exit", "ok": r.is_ok(), "pos": self.pos()}));
        r
    }

    fn read_set<C: set::Constraint, S: Sized, F: Fn(&mut Self) -> Result<S, Self::Error>>(&mut self, f: F) -> Result<S, Self::Error> {
        self.read_sequence::<C, S, F>(f)
    }

    fn read_set_of<C: setof::Constraint, T: ReadableType>(&mut self) -> Result<Vec<T::Type>, Self::Error> {
        self.read_sequence_of::<C, T>()
    }

    fn read_enumerated<C: enumerated::Constraint>(&mut self) -> Result<C, Self::Error> {
        let r = self.0.read_enumerated::<C>();
        let (std, n) = (C::STD_VARIANT_COUNT, C::VARIANT_COUNT);
        self.leaf(&r, |x| Some((json!({"k": "enum", "nroot": std, "nadd": n - std, "ext": C::EXTENSIBLE}), json!(x.to_choice_index()))));
        r
    }

    fn read_choice<C: choice::Constraint>(&mut self) -> Result<C, Self::Error> {
        log_event(json!({"ev": "choice", "ph": "enter", "nroot": C::STD_VARIANT_COUNT, "n": C::VARIANT_COUNT, "ext": C::EXTENSIBLE, "pos": self.pos()}));
        let r = self.0.read_choice::<RAlt<C>>().map(|a| a.0);
        log_event(json!({"ev": "choice", "ph": "exit", "ok": r.is_ok(), "pos": self.pos()}));
        r
    }

    fn read_opt<T: ReadableType>(&mut self) -> Result<Option<T::Type>, Self::Error> {
        log_event(json!({"ev": "opt", "ph": "enter", "pos": self.pos()}));
        let r = self.0.read_opt::<RBody<T>>();
        log_event(json!({"ev": "opt", "ph": "exit", "ok": r.is_ok(), "pos": self.pos()}));
        r
    }

    fn read_default<C: default::Constraint<Owned = T::Type>, T: ReadableType>(&mut self) -> Result<T::Type, Self::Error> {
        log_event(json!({"ev": "opt", "ph": "enter", "pos": self.pos()}));
        let r = self.0.read_default::<C, RBody<T>>();
        log_event(json!({"ev": "opt", "ph": "exit", "ok": r.is_ok(), "pos": self.pos()}));
        r
    }

    fn read_number<T: numbers::Number, C: numbers::Constraint<T>>(&mut self) -> Result<T, Self::Error> {
        let r = self.0.read_number::<T, C>();
        self.leaf(&r, |x| {
            let x = x.to_i64();
            let con = match (C::MIN, C::MAX) {
                (None, None) => Some(json!({"c": "none", "lb": 0, "ub": 0, "ext": false})),
                (Some(lb), Some(ub)) if lb.unsigned_abs() < SMALL as u64 && ub.unsigned_abs() < SMALL as u64 => Some(json!({"c": "rng", "lb": lb, "ub": ub, "ext": C::EXTENSIBLE})),
                _ => None,
            };
            con.filter(|_| x.unsigned_abs() < SMALL as u64).map(|con| (json!({"k": "int", "con": con}), json!(x)))
        });
        r
    }

    fn read_utf8string<C: utf8string::Constraint>(&mut self) -> Result<String, Self::Error> {
        let r = self.0.read_utf8string::<C>();
        self.leaf(&r, |s| size_json(C::MIN, C::MAX, C::EXTENSIBLE).zip(chars(s)).map(|(sz, v)| (json!({"k": "str", "cs": "utf8", "sz": sz}), v)));
        r
    }

    fn read_ia5string<C: ia5string::Constraint>(&mut self) -> Result<String, Self::Error> {
        let r = self.0.read_ia5string::<C>();
        self.leaf(&r, |s| size_json(C::MIN, C::MAX, C::EXTENSIBLE).zip(chars(s)).map(|(sz, v)| (json!({"k": "str", "cs": "ia5", "sz": sz}), v)));
        r
    }

    fn read_numeric_string<C: numericstring::Constraint>(&mut self) -> Result<String, Self::Error> {
        let r = self.0.read_numeric_string::<C>();
        self.leaf(&r, |s| size_json(C::MIN, C::MAX, C::EXTENSIBLE).zip(chars(s)).map(|(sz, v)| (json!({"k": "str", "cs": "num", "sz": sz}), v)));
        r
    }

    fn read_visible_string<C: visiblestring::Constraint>(&mut self) -> Result<String, Self::Error> {
        let r = self.0.read_visible_string::<C>();
        self.leaf(&r, |s| size_json(C::MIN, C::MAX, C::EXTENSIBLE).zip(chars(s)).map(|(sz, v)| (json!({"k": "str", "cs": "vis", "sz": sz}), v)));
        r
    }

    fn read_printable_string<C: printablestring::Constraint>(&mut self) -> Result<String, Self::Error> {
        let r = self.0.read_printable_string::<C>();
        self.leaf(&r, |s| size_json(C::MIN, C::MAX, C::EXTENSIBLE).zip(chars(s)).map(|(sz, v)| (json!({"k": "str", "cs": "prt", "sz": sz}), v)));
        r
    }

    fn read_octet_string<C: octetstring::Constraint>(&mut self) -> Result<Vec<u8>, Self::Error> {
        let r = self.0.read_octet_string::<C>();
        self.leaf(&r, |b| size_json(C::MIN, C::MAX, C::EXTENSIBLE).filter(|_| b.len() <= 64).map(|sz| (json!({"k": "oct", "sz": sz}), json!(b))));
        r
    }

    fn read_bit_string<C: bitstring::Constraint>(&mut self) -> Result<(Vec<u8>, u64), Self::Error> {
        let r = self.0.read_bit_string::<C>();
        self.leaf(&r, |(b, n)| {
            size_json(C::MIN, C::MAX, C::EXTENSIBLE)
                .filter(|_| *n <= 256 && b.len() as u64 * 8 >= *n)
                .map(|sz| (json!({"k": "bits", "sz": sz}), json!((0..*n as usize).map(|i| (b[i / 8] >> (7 - i % 8)) & 1).collect::<Vec<u8>>())))
        });
        r
    }

    fn read_boolean<C: boolean::Constraint>(&mut self) -> Result<bool, Self::Error> {
        let r = self.0.read_boolean::<C>();
        self.leaf(&r, |x| Some((json!({"k": "bool"}), json!(*x))));
        r
    }

    fn read_null<C: null::Constraint>(&mut self) -> Result<Null, Self::Error> {
        let r = self.0.read_null::<C>();
        self.leaf(&r, |_| Some((json!({"k": "null"}), json!(0))));
        r
    }
}
