//! C10: public PER primitives (PackedWrite / PackedRead on a BitBuffer) against X691Prim.
use crate::util::*;
use asn1rs::protocol::per::unaligned::buffer::BitBuffer;
use asn1rs::protocol::per::unaligned::BitRead;
use asn1rs::protocol::per::{PackedRead, PackedWrite};
use serde_json::{json, Value};

pub fn big(v: &Value) -> i128 {
    let m = v["m"].as_array().expect("limbs");
    let mut x: i128 = 0;
    for (i, l) in m.iter().enumerate() {
        x += (l.as_u64().unwrap() as i128) << (16 * i);
    }
    if v["neg"].as_bool().unwrap() {
        -x
    } else {
        x
    }
}

/// Independent bit sink used to build the expected image (never the library's own writer).
#[derive(Default)]
pub struct Sink {
    pub bytes: Vec<u8>,
    pub len: usize,
}

impl Sink {
    pub fn push(&mut self, b: bool) {
        if self.len % 8 == 0 {
            self.bytes.push(0);
        }
        if b {
            let i = self.len / 8;
            self.bytes[i] |= 0x80 >> (self.len % 8);
        }
        self.len += 1;
    }
    pub fn push_bits(&mut self, v: &Value) {
        for b in v.as_array().expect("bits") {
            self.push(b.as_u64().unwrap() == 1);
        }
    }
    pub fn push_byte(&mut self, b: u8) {
        for i in 0..8 {
            self.push(b & (0x80 >> i) != 0);
        }
    }
}

pub fn data_byte(i: usize) -> u8 {
    ((i * 31 + 7) % 251) as u8
}
pub fn data_bit(i: usize) -> bool {
    (i * 7 + i / 3) % 5 < 2
}

#[derive(Debug, PartialEq)]
enum Outcome {
    Ok { bytes: Vec<u8>, len: usize, ret: i128 },
    Err(String),
    Panic(String),
    Skip,
}

fn opt(has: bool, v: i128) -> Option<u64> {
    if has {
        Some(v as u64)
    } else {
        None
    }
}

fn write_case(c: &Value) -> Outcome {
    let k = c["k"].as_str().unwrap();
    let lb = big(&c["lb"]);
    let ub = big(&c["ub"]);
    let v = big(&c["v"]);
    let n = c["n"].as_i64().unwrap();
    let has_lb = c["hasLb"].as_bool().unwrap();
    let has_ub = c["hasUb"].as_bool().unwrap();
    let ext = c["ext"].as_bool().unwrap();
    let fits_i64 = |x: i128| x >= i64::MIN as i128 && x <= i64::MAX as i128;
    let fits_u64 = |x: i128| x >= 0 && x <= u64::MAX as i128;
    let r = guarded(|| {
        let mut b = BitBuffer::default();
        let mut ret: i128 = -1;
        let res = match k {
            "cwn" => {
                if !(fits_i64(lb) && fits_i64(ub) && fits_i64(v)) {
                    return None;
                }
                b.write_constrained_whole_number(lb as i64, ub as i64, v as i64)
            }
            "ucwn" => {
                if !fits_i64(v) {
                    return None;
                }
                b.write_unconstrained_whole_number(v as i64)
            }
            "scwn" => {
                if !(fits_i64(lb) && fits_i64(v)) {
                    return None;
                }
                b.write_semi_constrained_whole_number(lb as i64, v as i64)
            }
            "nsnn" => {
                if !fits_u64(v) {
                    return None;
                }
                b.write_normally_small_non_negative_whole_number(v as u64)
            }
            "idx" => {
                let i = c["covers"].as_i64().unwrap() as u64;
                b.write_choice_index(n as u64, ext, i)
            }
            "len" => b.write_length_determinant(opt(has_lb, lb), opt(has_ub, ub), n as u64).map(|r| {
                ret = r.map(|x| x as i128).unwrap_or(n as i128);
            }),
            "oct" => {
                let data: Vec<u8> = (0..n as usize).map(data_byte).collect();
                b.write_octetstring(opt(has_lb, lb), opt(has_ub, ub), ext, &data)
            }
            "bits" => {
                let mut s = Sink::default();
                for i in 0..n as usize {
                    s.push(data_bit(i));
                }
                b.write_bitstring(opt(has_lb, lb), opt(has_ub, ub), ext, &s.bytes, 0, n as u64)
            }
            _ => unreachable!(),
        };
        Some(match res {
            Ok(()) => Outcome::Ok { bytes: b.content().to_vec(), len: b.bit_len(), ret },
            Err(e) => Outcome::Err(per_err_name(&e)),
        })
    });
    match r {
        Ok(Some(o)) => o,
        Ok(None) => Outcome::Skip,
        Err(p) => Outcome::Panic(p),
    }
}

/// Reads the value back from the given bits followed by the sentinel 1 0 1.
/// Returns a description of what went wrong, or None.
fn read_back(c: &Value, bytes: &[u8], len: usize) -> Option<String> {
    let k = c["k"].as_str().unwrap();
    let lb = big(&c["lb"]);
    let ub = big(&c["ub"]);
    let v = big(&c["v"]);
    let n = c["n"].as_i64().unwrap();
    let has_lb = c["hasLb"].as_bool().unwrap();
    let has_ub = c["hasUb"].as_bool().unwrap();
    let ext = c["ext"].as_bool().unwrap();
    let r = guarded(|| -> Result<Option<String>, asn1rs::protocol::per::Error> {
        let mut b = BitBuffer::from_bits(bytes.to_vec(), len);
        use asn1rs::protocol::per::unaligned::BitWrite;
        b.write_bit(true)?;
        b.write_bit(false)?;
        b.write_bit(true)?;
        let bad = |what: String| Ok(Some(what));
        match k {
            "cwn" => {
                let x = b.read_constrained_whole_number(lb as i64, ub as i64)?;
                if x as i128 != v {
                    return bad(format!("read back {} instead of {}", x, v));
                }
            }
            "ucwn" => {
                let x = b.read_unconstrained_whole_number()?;
                if x as i128 != v {
                    return bad(format!("read back {} instead of {}", x, v));
                }
            }
            "scwn" => {
                let x = b.read_semi_constrained_whole_number(lb as i64)?;
                if x as i128 != v {
                    return bad(format!("read back {} instead of {}", x, v));
                }
            }
            "nsnn" => {
                let x = b.read_normally_small_non_negative_whole_number()?;
                if x as i128 != v {
                    return bad(format!("read back {} instead of {}", x, v));
                }
            }
            "idx" => {
                let i = c["covers"].as_i64().unwrap() as u64;
                let x = b.read_choice_index(n as u64, ext)?;
                if x != i {
                    return bad(format!("read back index {} instead of {}", x, i));
                }
            }
            "len" => {
                let covers = c["covers"].as_i64().unwrap() as u64;
                let x = b.read_length_determinant(opt(has_lb, lb), opt(has_ub, ub))?;
                if x != covers {
                    return bad(format!("read back length {} instead of {}", x, covers));
                }
            }
            "oct" => {
                let x = b.read_octetstring(opt(has_lb, lb), opt(has_ub, ub), ext)?;
                let data: Vec<u8> = (0..n as usize).map(data_byte).collect();
                if x != data {
                    return bad(format!("read back {} octets that differ from the {} written", x.len(), data.len()));
                }
            }
            "bits" => {
                let (x, l) = b.read_bitstring(opt(has_lb, lb), opt(has_ub, ub), ext)?;
                let mut s = Sink::default();
                for i in 0..n as usize {
                    s.push(data_bit(i));
                }
                if l != n as u64 || x != s.bytes {
                    return bad(format!("read back {} bits that differ from the {} written", l, n));
                }
            }
            _ => unreachable!(),
        }
        // exact consumption: the sentinel must follow immediately and nothing after it
        let s = (b.read_bit()?, b.read_bit()?, b.read_bit()?);
        if s != (true, false, true) || b.read_bit().is_ok() {
            return bad("reader did not stop exactly at the end of the written bits".to_string());
        }
        Ok(None)
    });
    match r {
        Ok(Ok(x)) => x,
        Ok(Err(e)) => Some(format!("reader failed: {}", per_err_name(&e))),
        Err(p) => Some(format!("reader panicked: {}", p)),
    }
}

fn expected_image(c: &Value) -> (Vec<u8>, usize) {
    let k = c["k"].as_str().unwrap();
    let n = c["n"].as_i64().unwrap() as usize;
    let mut s = Sink::default();
    s.push_bits(&c["bits"]);
    for seg in c["segs"].as_array().unwrap() {
        s.push_bits(&seg["hdr"]);
        let (from, to) = (usize_of(&seg["from"]), usize_of(&seg["to"]));
        debug_assert!(to <= n);
        for i in from..to {
            if k == "oct" {
                s.push_byte(data_byte(i));
            } else {
                s.push(data_bit(i));
            }
        }
    }
    (s.bytes, s.len)
}

pub fn replay(input: &str, out: &mut Out) {
    let (mut n, mut bad, mut dev, mut skipped, mut nontrivial) = (0u64, 0u64, 0u64, 0u64, 0u64);
    let mut classes: std::collections::BTreeMap<String, u64> = Default::default();
    let mut devclasses: std::collections::BTreeMap<String, u64> = Default::default();
    for (i, c) in read_lines(input) {
        n += 1;
        if c["k"].as_str().unwrap().starts_with("rd") {
            // reader only: the X.691 encoding of a number the 64-bit API cannot hold must be refused, never wrapped
            let (eb, el) = expected_image(&c);
            let k = c["k"].as_str().unwrap().to_string();
            let r = guarded(|| -> Result<i128, asn1rs::protocol::per::Error> {
                let mut b = BitBuffer::from_bits(eb.clone(), el);
                Ok(if k == "rdscwn" { b.read_semi_constrained_whole_number(0)? as i128 } else { b.read_normally_small_non_negative_whole_number()? as i128 })
            });
            nontrivial += 1;
            let (gk, why) = match r {
                Ok(Ok(x)) => ("ok", Some(format!("reader returned the wrapped value {} for the X.691 encoding of {}", x, big(&c["v"])))),
                Ok(Err(_)) => ("err", None),
                Err(p) => ("panic", Some(format!("reader panicked: {}", p))),
            };
            if let Some(why) = why {
                bad += 1;
                let sig = format!("{} spec=refuse impl={}", k, gk);
                let cnt = classes.entry(sig.clone()).or_insert(0);
                *cnt += 1;
                if *cnt <= 8 {
                    let mut cc = c.clone();
                    cc.as_object_mut().unwrap().insert("v_dec".into(), json!(big(&c["v"]).to_string()));
                    out.line(&json!({"line": i, "sig": sig, "case": cc, "why": why}));
                }
            }
            continue;
        }
        let exp_ok = c["ok"].as_bool().unwrap();
        let devname = c.get("dev").and_then(|d| d.as_str()).unwrap_or("");
        let got = write_case(&c);
        if got == Outcome::Skip {
            skipped += 1;
            continue;
        }
        let (gk, why): (&str, Option<String>) = match &got {
            Outcome::Panic(p) => ("panic", Some(format!("panic: {}", p))),
            Outcome::Err(e) => ("err", if exp_ok { Some(format!("refused ({}) although the arguments are admissible", e)) } else { None }),
            Outcome::Ok { bytes, len, ret } => {
                if !exp_ok {
                    ("ok", Some(format!("accepted inadmissible arguments and wrote {} bits", len)))
                } else {
                    let (eb, el) = expected_image(&c);
                    let covers_ok = c["k"] != "len" || *ret == c["covers"].as_i64().unwrap() as i128;
                    if *len != el || *bytes != eb {
                        ("ok", Some(format!("wrote {} bits, X.691 demands {}{}", len, el, if *len == el { " (content differs)" } else { "" })))
                    } else if !covers_ok {
                        ("ok", Some(format!("announced {} items, X.691 header covers {}", ret, c["covers"])))
                    } else {
                        ("ok", read_back(&c, bytes, *len))
                    }
                }
            }
            Outcome::Skip => unreachable!(),
        };
        if exp_ok || c["bits"].as_array().map(|b| !b.is_empty()).unwrap_or(false) {
            nontrivial += 1;
        }
        if !devname.is_empty() {
            // input class of a listed open finding: the outcome kind recorded for the class must persist
            let want = c["devout"].as_str().unwrap_or("any");
            let deviates = why.is_some();
            let kind_ok = want == "any" || want == gk;
            if deviates && kind_ok {
                dev += 1;
                *devclasses.entry(devname.to_string()).or_insert(0) += 1;
                continue;
            }
            if !deviates {
                // the code now behaves ideally on a case the finding says it does not: not a violation
                continue;
            }
        }
        if let Some(why) = why {
            bad += 1;
            let sig = format!("{} spec={} impl={}", c["k"].as_str().unwrap(), if exp_ok { "ok" } else { "refuse" }, gk);
            let cnt = classes.entry(sig.clone()).or_insert(0);
            *cnt += 1;
            if *cnt <= 8 {
                let mut cc = c.clone();
                cc.as_object_mut().unwrap().insert("lb_dec".into(), json!(big(&c["lb"]).to_string()));
                cc.as_object_mut().unwrap().insert("ub_dec".into(), json!(big(&c["ub"]).to_string()));
                cc.as_object_mut().unwrap().insert("v_dec".into(), json!(big(&c["v"]).to_string()));
                out.line(&json!({"line": i, "sig": sig, "case": cc, "why": why}));
            }
        }
    }
    out.line(&json!({"summary": true, "cases": n, "mismatches": bad, "dev_hits": dev, "skipped": skipped,
        "classes": classes, "dev_classes": devclasses, "nontrivial": nontrivial}));
}

// ------------------------------------------------------------------------------------------------
// T: histories of primitive calls on one BitBuffer
// ------------------------------------------------------------------------------------------------
use rand::rngs::StdRng;
use rand::{Rng, SeedableRng};

pub fn to_big(x: i128) -> Value {
    let mut m = Vec::new();
    let mut a = x.unsigned_abs();
    for _ in 0..5 {
        m.push((a & 0xFFFF) as u64);
        a >>= 16;
    }
    json!({"neg": x < 0, "m": m})
}

fn bits_of(bytes: &[u8], from: usize, to: usize) -> Vec<u8> {
    (from..to).map(|i| (bytes[i / 8] >> (7 - i % 8)) & 1).collect()
}

fn boundary_i64(rng: &mut StdRng) -> i64 {
    match rng.gen_range(0..10) {
        0..=3 => rng.gen_range(-300..300),
        4 => i64::MIN,
        5 => i64::MAX,
        _ => {
            let k = rng.gen_range(0..63u32);
            let base = 1i64 << k;
            let d = rng.gen_range(-1..=1);
            let v = base.wrapping_add(d);
            if rng.gen_bool(0.5) {
                v
            } else {
                v.wrapping_neg()
            }
        }
    }
}

pub fn record(kv: &Kv, out: &mut Out) {
    let seed = kv_u64(kv, "seed", 1);
    let histories = kv_u64(kv, "histories", 100);
    let ops = kv_u64(kv, "ops", 12);
    let mut rng = StdRng::seed_from_u64(seed);
    for _ in 0..histories {
        out.line(&json!({"op": "new"}));
        let mut b = BitBuffer::default();
        let mut written: Vec<Value> = Vec::new();
        for _ in 0..ops {
            let before = b.bit_len();
            let mut e = json!({"op": "w", "lb": to_big(0), "ub": to_big(0), "v": to_big(0), "hasLb": false, "hasUb": false,
                               "ext": false, "n": 0, "data": []});
            let res = match rng.gen_range(0..7) {
                0 => {
                    let (mut lb, mut ub) = (boundary_i64(&mut rng), boundary_i64(&mut rng));
                    if lb > ub && rng.gen_bool(0.9) {
                        std::mem::swap(&mut lb, &mut ub);
                    }
                    let v = match rng.gen_range(0..6) {
                        0 => lb,
                        1 => ub,
                        2 => lb.wrapping_sub(1),
                        3 => ub.wrapping_add(1),
                        _ => {
                            if lb < ub {
                                lb.wrapping_add((rng.gen::<u64>() % (ub.wrapping_sub(lb) as u64)) as i64)
                            } else {
                                lb
                            }
                        }
                    };
                    e["k"] = json!("cwn");
                    e["lb"] = to_big(lb as i128);
                    e["ub"] = to_big(ub as i128);
                    e["v"] = to_big(v as i128);
                    guarded(|| b.write_constrained_whole_number(lb, ub, v))
                }
                1 => {
                    let v = boundary_i64(&mut rng);
                    e["k"] = json!("ucwn");
                    e["v"] = to_big(v as i128);
                    guarded(|| b.write_unconstrained_whole_number(v))
                }
                2 => {
                    let lb = boundary_i64(&mut rng);
                    let v = if rng.gen_bool(0.85) { lb.saturating_add(boundary_i64(&mut rng).unsigned_abs().min(i64::MAX as u64) as i64) } else { boundary_i64(&mut rng) };
                    e["k"] = json!("scwn");
                    e["lb"] = to_big(lb as i128);
                    e["v"] = to_big(v as i128);
                    guarded(|| b.write_semi_constrained_whole_number(lb, v))
                }
                3 => {
                    let v = if rng.gen_bool(0.6) { rng.gen_range(0..130u64) } else { boundary_i64(&mut rng) as u64 };
                    e["k"] = json!("nsnn");
                    e["v"] = to_big(v as i128);
                    guarded(|| b.write_normally_small_non_negative_whole_number(v))
                }
                4 => {
                    let std = rng.gen_range(0..70u64);
                    let ext = rng.gen_bool(0.5);
                    let i = if rng.gen_bool(0.7) && std > 0 { rng.gen_range(0..std) } else { std + rng.gen_range(0..300) };
                    e["k"] = json!("idx");
                    e["n"] = json!(std);
                    e["ext"] = json!(ext);
                    e["v"] = to_big(i as i128);
                    guarded(|| b.write_enumeration_index(std, ext, i))
                }
                5 => {
                    let (has_lb, has_ub) = if rng.gen_bool(0.3) { (false, false) } else { (true, true) };
                    let lb = rng.gen_range(0..300u64);
                    let ub = lb + [0, 1, 2, 3, 127, 128, 255, 256, 60000][rng.gen_range(0..9)];
                    let n = match rng.gen_range(0..5) {
                        0 => lb,
                        1 => ub,
                        2 => lb.wrapping_sub(1).min(70000),
                        3 => ub + 1,
                        _ => rng.gen_range(0..16000),
                    };
                    e["k"] = json!("len");
                    e["hasLb"] = json!(has_lb);
                    e["hasUb"] = json!(has_ub);
                    e["lb"] = to_big(if has_lb { lb as i128 } else { 0 });
                    e["ub"] = to_big(if has_ub { ub as i128 } else { 0 });
                    e["v"] = to_big(n as i128);
                    let mut ret = n;
                    let r = guarded(|| {
                        b.write_length_determinant(opt(has_lb, lb as i128), opt(has_ub, ub as i128), n).map(|x| {
                            ret = x.unwrap_or(n);
                        })
                    });
                    e["ret"] = json!(ret);
                    r
                }
                _ => {
                    let (has_lb, has_ub) = if rng.gen_bool(0.3) { (false, false) } else { (true, true) };
                    let lb = rng.gen_range(0..6u64);
                    let ub = lb + [0, 1, 3, 200][rng.gen_range(0..4)];
                    let ext = has_ub && rng.gen_bool(0.5);
                    let n = match rng.gen_range(0..5) {
                        0 => lb,
                        1 => ub,
                        2 => lb.saturating_sub(1),
                        3 => ub + 1,
                        _ => rng.gen_range(0..260),
                    } as usize;
                    let data: Vec<u8> = (0..n).map(|_| rng.gen()).collect();
                    e["k"] = json!("oct");
                    e["hasLb"] = json!(has_lb);
                    e["hasUb"] = json!(has_ub);
                    e["ext"] = json!(ext);
                    e["lb"] = to_big(if has_lb { lb as i128 } else { 0 });
                    e["ub"] = to_big(if has_ub { ub as i128 } else { 0 });
                    e["data"] = json!(data);
                    guarded(|| b.write_octetstring(opt(has_lb, lb as i128), opt(has_ub, ub as i128), ext, &data))
                }
            };
            let res_s = match &res {
                Ok(Ok(())) => "ok",
                Ok(Err(_)) => "err",
                Err(_) => "panic",
            };
            e["res"] = json!(res_s);
            e["len"] = json!(b.bit_len());
            e["app"] = json!(bits_of(b.content(), before.min(b.bit_len()), b.bit_len()));
            out.line(&e);
            if res_s == "ok" {
                written.push(e);
            }
        }
        // read everything back, in order, from one reader (Bits exposes its cursor publicly)
        let content = b.content().to_vec();
        let mut r = asn1rs::protocol::per::unaligned::buffer::Bits::from((&content[..], b.bit_len()));
        let mut left = b.bit_len();
        for w in written {
            let mut e = w.clone();
            e["op"] = json!("r");
            e.as_object_mut().unwrap().remove("app");
            let k = w["k"].as_str().unwrap().to_string();
            let (lb, ub) = (big(&w["lb"]), big(&w["ub"]));
            let (has_lb, has_ub, ext) = (w["hasLb"].as_bool().unwrap(), w["hasUb"].as_bool().unwrap(), w["ext"].as_bool().unwrap());
            let n = w["n"].as_u64().unwrap();
            let res = guarded(|| -> Result<Value, asn1rs::protocol::per::Error> {
                Ok(match k.as_str() {
                    "cwn" => to_big(r.read_constrained_whole_number(lb as i64, ub as i64)? as i128),
                    "ucwn" => to_big(r.read_unconstrained_whole_number()? as i128),
                    "scwn" => to_big(r.read_semi_constrained_whole_number(lb as i64)? as i128),
                    "nsnn" => to_big(r.read_normally_small_non_negative_whole_number()? as i128),
                    "idx" => to_big(r.read_enumeration_index(n, ext)? as i128),
                    "len" => to_big(r.read_length_determinant(opt(has_lb, lb), opt(has_ub, ub))? as i128),
                    "oct" => json!(r.read_octetstring(opt(has_lb, lb), opt(has_ub, ub), ext)?),
                    _ => unreachable!(),
                })
            });
            match res {
                Ok(Ok(v)) => {
                    e["res"] = json!("ok");
                    if k == "oct" {
                        e["data"] = v;
                    } else {
                        e["v"] = v;
                    }
                }
                Ok(Err(_)) => e["res"] = json!("err"),
                Err(_) => e["res"] = json!("panic"),
            }
            let now = { use asn1rs::protocol::per::unaligned::ScopedBitRead; r.remaining() };
            e["used"] = json!(left - now);
            left = now;
            out.line(&e);
        }
        out.line(&json!({"op": "end", "rem": left}));
    }
}

