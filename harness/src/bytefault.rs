//! ByteFaults.tla on the Rust side: fault descriptors printed by TLC (MC_ByteFaults) applied to seed encodings.
use crate::util::*;
use serde_json::Value;

#[derive(Default)]
pub struct Tables {
    pub interesting: Vec<u8>,
    pub evil: Vec<Vec<u8>>,
}

pub struct Fault {
    pub k: String,
    pub pos: usize,
    pub a: usize,
}

pub enum Desc {
    Raw(Vec<u8>),
    Seq(Vec<Fault>),
}

/// (tables, descriptors in file order with their line index)
pub fn load(path: &str) -> (Tables, Vec<(usize, Desc)>) {
    let mut t = Tables::default();
    let mut ds = Vec::new();
    for (i, c) in read_lines(path) {
        match c["k"].as_str().unwrap() {
            "tables" => {
                t.interesting = bytes_of(&c["interesting"]);
                t.evil = c["evil"].as_array().unwrap().iter().map(bytes_of).collect();
            }
            "raw" => ds.push((i, Desc::Raw(bytes_of(&c["bytes"])))),
            "seq" => ds.push((
                i,
                Desc::Seq(
                    c["fs"]
                        .as_array()
                        .unwrap()
                        .iter()
                        .map(|f| Fault { k: f["k"].as_str().unwrap().to_string(), pos: usize_of(&f["pos"]), a: usize_of(&f["a"]) })
                        .collect(),
                ),
            )),
            other => panic!("unknown descriptor kind {}", other),
        }
    }
    assert!(!t.interesting.is_empty() && !t.evil.is_empty(), "no tables line in {}", path);
    (t, ds)
}

/// ByteFaults!Apply
pub fn apply(b: &[u8], f: &Fault, t: &Tables) -> Vec<u8> {
    let applies = if matches!(f.k.as_str(), "ins" | "trunc" | "splice") { f.pos <= b.len() } else { f.pos < b.len() };
    let mut v = b.to_vec();
    if !applies {
        return v;
    }
    match f.k.as_str() {
        "flip" => v[f.pos] ^= 1 << f.a,
        "trunc" => v.truncate(f.pos),
        "del" => {
            v.remove(f.pos);
        }
        "ins" => v.insert(f.pos, t.interesting[f.a - 1]),
        "set" => v[f.pos] = t.interesting[f.a - 1],
        "splice" => {
            let e = &t.evil[f.a - 1];
            let tail: Vec<u8> = if f.pos + e.len() < b.len() { b[f.pos + e.len()..].to_vec() } else { Vec::new() };
            v.truncate(f.pos);
            v.extend_from_slice(e);
            v.extend_from_slice(&tail);
        }
        other => panic!("unknown fault kind {}", other),
    }
    v
}

pub fn apply_all(b: &[u8], fs: &[Fault], t: &Tables) -> Vec<u8> {
    let mut v = b.to_vec();
    for f in fs {
        v = apply(&v, f, t);
    }
    v
}

pub fn describe(d: &Desc) -> Value {
    match d {
        Desc::Raw(b) => serde_json::json!({"k": "raw", "bytes": b}),
        Desc::Seq(fs) => serde_json::json!({"k": "seq", "fs": fs.iter().map(|f| serde_json::json!({"k": f.k, "pos": f.pos, "a": f.a})).collect::<Vec<_>>()}),
    }
}
