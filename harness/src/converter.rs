//! The file-level front door (asn1rs::converter::Converter) against Converter.tla: every history of loads and generates,
//! result classes, file names and file contents compared with the reference for the set of loaded files.
use crate::util::*;
use asn1rs::converter::{Converter, Error};
use serde_json::{json, Value};
use std::collections::{BTreeMap, BTreeSet};
use std::path::{Path, PathBuf};

type Generated = BTreeMap<String, Vec<(String, String)>>; // module -> [(file name, content)]

fn class_of(e: &Error) -> String {
    match e {
        Error::Io(_) => "io".into(),
        Error::Model(_) => "model".into(),
        Error::ResolveFailure(_) => "resolve".into(),
        other => format!("other: {:?}", other).chars().take(120).collect(),
    }
}

fn collect(dir: &Path, files: std::collections::HashMap<String, Vec<String>>) -> Result<Generated, String> {
    let mut g = Generated::new();
    for (module, names) in files {
        let mut v = Vec::new();
        for n in names {
            let content = std::fs::read_to_string(dir.join(&n)).map_err(|e| format!("reported file {} cannot be read: {}", n, e))?;
            v.push((n, content));
        }
        v.sort();
        g.insert(module, v);
    }
    Ok(g)
}

/// Ok(generated) or Err(result class); `proto` selects the .proto generator
fn generate(conv: &Converter, dir: &Path, proto: bool) -> Result<Result<Generated, String>, String> {
    let _ = std::fs::remove_dir_all(dir);
    std::fs::create_dir_all(dir).map_err(|e| e.to_string())?;
    let r = guarded(|| if proto { conv.to_protobuf(dir) } else { conv.to_rust(dir, |_| {}) }).map_err(|p| format!("panic: {}", p))?;
    let res = match r {
        Ok(files) => Ok(collect(dir, files)?),
        Err(e) => {
            // nothing is reported as generated: nothing may have been written either
            let left = std::fs::read_dir(dir).map(|d| d.count()).unwrap_or(0);
            if left != 0 {
                return Err(format!("generation failed ({}) but left {} files behind", class_of(&e), left));
            }
            Err(class_of(&e))
        }
    };
    let _ = std::fs::remove_dir_all(dir);
    Ok(res)
}

/// input: {"files": {id: path}, "cases": ndjson of {"hist": [...]}, "work": dir}
pub fn replay(input: &str, out: &mut Out) {
    let spec: Value = serde_json::from_str(&std::fs::read_to_string(input).expect("read")).expect("json");
    let files: BTreeMap<String, String> = spec["files"].as_object().unwrap().iter().map(|(k, v)| (k.clone(), v.as_str().unwrap().to_string())).collect();
    let work = PathBuf::from(spec["work"].as_str().unwrap());
    let mut reference: BTreeMap<(Vec<String>, bool), Result<Generated, String>> = BTreeMap::new();
    let (mut n, mut bad, mut gens, mut loads) = (0u64, 0u64, 0u64, 0u64);
    for (i, c) in read_lines(spec["cases"].as_str().unwrap()) {
        n += 1;
        let mut conv = Converter::default();
        let mut loaded: BTreeSet<String> = BTreeSet::new();
        let mut why: Option<String> = None;
        for (k, step) in c["hist"].as_array().unwrap().iter().enumerate() {
            let want = step["res"].as_str().unwrap();
            if step["op"] == "load" {
                loads += 1;
                let f = step["f"].as_str().unwrap();
                let got = match guarded(|| conv.load_file(&files[f])) {
                    Err(p) => format!("panic: {}", p),
                    Ok(Ok(())) => "ok".to_string(),
                    Ok(Err(e)) => class_of(&e),
                };
                if got != want {
                    why = Some(format!("step {}: load of '{}' gives {}, Converter.tla says {}", k + 1, f, got, want));
                    break;
                }
                if got == "ok" {
                    loaded.insert(f.to_string());
                }
                continue;
            }
            for proto in [false, true] {
                gens += 1;
                let kind = if proto { "to_protobuf" } else { "to_rust" };
                let got = match generate(&conv, &work.join(format!("h{}", i)), proto) {
                    Err(e) => {
                        why = Some(format!("step {}: {}: {}", k + 1, kind, e));
                        break;
                    }
                    Ok(g) => g,
                };
                let got_class = match &got {
                    Ok(_) => "ok".to_string(),
                    Err(c) => c.clone(),
                };
                if got_class != want {
                    why = Some(format!("step {}: {} gives {}, Converter.tla says {} for the loaded set {:?}", k + 1, kind, got_class, want, loaded));
                    break;
                }
                if let Ok(g) = &got {
                    let mods: BTreeSet<String> = step["mods"].as_array().unwrap().iter().map(|m| m.as_str().unwrap().to_string()).collect();
                    let got_mods: BTreeSet<String> = g.keys().cloned().collect();
                    if got_mods != mods {
                        why = Some(format!("step {}: {} reports the modules {:?}, Converter.tla says {:?}", k + 1, kind, got_mods, mods));
                        break;
                    }
                    // the reference for this set: a fresh converter, every file once, in a fixed order
                    let key = (loaded.iter().cloned().collect::<Vec<_>>(), proto);
                    if !reference.contains_key(&key) {
                        let mut fresh = Converter::default();
                        for f in &key.0 {
                            let _ = fresh.load_file(&files[f]);
                        }
                        let r = generate(&fresh, &work.join("reference"), proto).unwrap_or_else(|e| Err(e));
                        reference.insert(key.clone(), r);
                    }
                    match &reference[&key] {
                        Ok(r) if r == g => {}
                        Ok(r) => {
                            let m = r.iter().zip(g.iter()).find(|(a, b)| a != b).map(|(a, _)| a.0.clone()).unwrap_or_default();
                            why = Some(format!(
                                "step {}: {} writes something else for module {} than a fresh converter with the same set of files {:?} (the output depends on the history)",
                                k + 1, kind, m, loaded
                            ));
                            break;
                        }
                        Err(e) => {
                            why = Some(format!("step {}: the reference generation for {:?} fails: {}", k + 1, loaded, e));
                            break;
                        }
                    }
                }
            }
            if why.is_some() {
                break;
            }
        }
        if let Some(why) = why {
            bad += 1;
            if bad <= 30 {
                out.line(&json!({"line": i, "why": why, "case": c}));
                out.flush();
            }
        }
    }
    out.line(&json!({"summary": true, "cases": n, "mismatches": bad, "generates": gens, "loads": loads}));
}
