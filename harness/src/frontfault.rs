//! C14: the front end is total. Fault descriptors (from MC_TokenFaults) applied to seed modules; every mutated text runs
//! through tokenizer -> parser -> resolver -> Rust model -> protobuf model under a watchdog.
use crate::sandbox::Progress;
use crate::util::*;
use asn1rs_model::parse::{Token, Tokenizer};
use asn1rs_model::protobuf::ToProtobufModel;
use asn1rs_model::Model;
use serde_json::{json, Value};

fn token_text(t: &Token) -> String {
    match t {
        Token::Text(_, s) => s.clone(),
        Token::Separator(_, c) => c.to_string(),
    }
}

/// One lexical item per element; "::=", "..", "..." are kept together.
fn items(text: &str) -> Vec<String> {
    let toks = Tokenizer.parse(text);
    let mut out: Vec<String> = Vec::new();
    let mut prev_end: Option<(usize, usize, bool)> = None;
    for t in &toks {
        let s = token_text(t);
        let (l, c) = (t.location().line(), t.location().column());
        let sep = matches!(t, Token::Separator(..));
        let glue = matches!(prev_end, Some((pl, pc, psep)) if psep && sep && pl == l && pc == c && matches!(s.as_str(), ":" | "=" | "."));
        if glue {
            out.last_mut().unwrap().push_str(&s);
        } else {
            out.push(s.clone());
        }
        prev_end = Some((l, c + s.chars().count(), sep));
    }
    out
}

fn join(items: &[String]) -> String {
    let mut s = String::new();
    for (i, it) in items.iter().enumerate() {
        if i > 0 {
            s.push(if i % 9 == 0 { '\n' } else { ' ' });
            if i % 9 == 0 {
                // varying indentation so that columns differ from line to line
                for _ in 0..(i / 9) % 4 {
                    s.push(' ');
                }
            }
        }
        s.push_str(it);
    }
    s.push('\n');
    s
}

#[derive(Debug)]
enum Outcome {
    Ok,
    ParseErr(String),
    ResolveErr,
}

/// Runs the whole front end; Err(reason) is a violation of totality (other than the documented panic).
fn front_end(text: &str) -> Result<Outcome, String> {
    let r = guarded(|| -> Result<Outcome, String> {
        let tokens = Tokenizer.parse(text);
        let model = match Model::try_from(tokens) {
            Ok(m) => m,
            Err(e) => {
                // an error value must carry the offending token (two kinds have none by construction) ...
                let msg = format!("{}", e);
                match e.token() {
                    None => {
                        // (compared as values, not by their message text)
                        use asn1rs_model::parse::Error as PErr;
                        if !(e == PErr::unexpected_end_of_stream() || e == PErr::missing_module_name()) {
                            return Err(format!("parse error without a token: {}", msg));
                        }
                    }
                    Some(t) => {
                        // ... and the token must be one of the input, at the location it reports
                        let lines: Vec<Vec<char>> = text.lines().map(|l| l.chars().collect()).collect();
                        let (l, c) = (t.location().line(), t.location().column());
                        let tt: Vec<char> = token_text(t).chars().collect();
                        // multi-character text tokens may have been assembled from several (string literals): check the first character
                        let ok = l >= 1 && l <= lines.len() && c >= 1 && c <= lines[l - 1].len() && lines[l - 1][c - 1] == tt[0];
                        if !ok {
                            return Err(format!("the error's token {} is not at line {} column {} of the input", t, l, c));
                        }
                    }
                }
                return Ok(Outcome::ParseErr(msg));
            }
        };
        let resolved = match model.try_resolve() {
            Ok(r) => r,
            Err(_) => return Ok(Outcome::ResolveErr),
        };
        let rust = resolved.to_rust();
        let _proto = rust.to_protobuf();
        Ok(Outcome::Ok)
    });
    match r {
        Ok(x) => x,
        Err(p) => {
            if crate::lexer::is_comment_panic(&p) && crate::lexer::unterminated(text) {
                Ok(Outcome::ParseErr("documented panic: unclosed comment".into()))
            } else if crate::lexer::is_comment_panic(&p) {
                Err(format!("the panic documented for an unterminated block comment on a text whose comments are all terminated (Lexer!Unterminated is FALSE): {}", p))
            } else {
                Err(format!("panic: {}", p))
            }
        }
    }
}

/// ... and characters of two, three and four UTF-8 octets, a tab and a NUL (byte offsets and character offsets differ)
const INSERT_CHARS: [char; 24] = [
    '"', '\'', '/', '*', '-', '{', '}', '(', ')', '.', ',', ';', ':', '=', ' ', '\n', 'x', '0', '\u{e9}', '\u{20ac}', '\u{1f600}', '\t', '\0', 'H',
];

fn apply(items0: &[String], text0: &str, faults: &[Value], vocab: &[String]) -> Option<String> {
    let mut its: Vec<String> = items0.to_vec();
    let mut chars: Option<Vec<char>> = None;
    for f in faults {
        let op = f["op"].as_str().unwrap();
        let i = f["i"].as_u64().unwrap() as usize;
        let x = f["x"].as_u64().unwrap() as usize;
        if op.starts_with('c') {
            let cs = chars.get_or_insert_with(|| if its == items0 { text0.chars().collect() } else { join(&its).chars().collect() });
            match op {
                "cdel" => {
                    if i > cs.len() {
                        return None;
                    }
                    cs.remove(i - 1);
                }
                "cins" => {
                    if i > cs.len() {
                        return None;
                    }
                    cs.insert(i, INSERT_CHARS[(x - 1) % INSERT_CHARS.len()]);
                }
                _ => unreachable!(),
            }
        } else {
            if chars.is_some() {
                return None; // token faults after character faults are not generated
            }
            match op {
                "del" => {
                    if i > its.len() {
                        return None;
                    }
                    its.remove(i - 1);
                }
                "swap" => {
                    if i + 1 > its.len() {
                        return None;
                    }
                    its.swap(i - 1, i);
                }
                "trunc" => {
                    if i >= its.len() {
                        return None;
                    }
                    its.truncate(i);
                }
                "ins" => {
                    if i > its.len() {
                        return None;
                    }
                    its.insert(i, vocab[x - 1].clone());
                }
                _ => unreachable!(),
            }
        }
    }
    Some(match chars {
        Some(cs) => cs.into_iter().collect(),
        None => join(&its),
    })
}

/// spec file: {"modules": [...], "vocab": [...], "cases": path, "progress": path}
pub fn replay(input: &str, out: &mut Out, kv: &Kv) {
    let spec: Value = serde_json::from_str(&std::fs::read_to_string(input).expect("read")).expect("json");
    let modules: Vec<String> = spec["modules"].as_array().unwrap().iter().map(|m| m.as_str().unwrap().to_string()).collect();
    let vocab: Vec<String> = spec["vocab"].as_array().unwrap().iter().map(|m| m.as_str().unwrap().to_string()).collect();
    let start = kv_u64(kv, "start", 0) as usize;
    let mut progress = Progress::new(spec["progress"].as_str().unwrap(), std::time::Duration::from_secs(5));
    let seeds: Vec<(Vec<String>, String)> = modules.iter().map(|m| (items(m), m.clone())).collect();
    let mut stats: std::collections::BTreeMap<String, u64> = Default::default();
    let mut shown: std::collections::BTreeMap<String, u64> = Default::default();
    let (mut n, mut texts) = (0u64, 0u64);
    for (ci, c) in read_lines(spec["cases"].as_str().unwrap()) {
        if ci < start {
            continue;
        }
        n += 1;
        let soup = c["soup"].as_array().unwrap();
        let mutated: Vec<(usize, String)> = if !soup.is_empty() {
            vec![(usize::MAX, format!("{}\n", soup.iter().map(|x| vocab[x.as_u64().unwrap() as usize - 1].clone()).collect::<Vec<_>>().join(" ")))]
        } else {
            let faults = c["faults"].as_array().unwrap();
            seeds.iter().enumerate().filter_map(|(mi, (its, text))| apply(its, text, faults, &vocab).map(|t| (mi, t))).collect()
        };
        for (mi, text) in mutated {
            texts += 1;
            progress.begin(ci);
            let r = front_end(&text);
            progress.end();
            match r {
                Ok(Outcome::Ok) => *stats.entry("ok".into()).or_insert(0) += 1,
                Ok(Outcome::ParseErr(_)) => *stats.entry("parse-error".into()).or_insert(0) += 1,
                Ok(Outcome::ResolveErr) => *stats.entry("resolve-error".into()).or_insert(0) += 1,
                Err(why) => {
                    *stats.entry("bad".into()).or_insert(0) += 1;
                    let key: String = why.chars().take(70).collect();
                    let cnt = shown.entry(key).or_insert(0);
                    *cnt += 1;
                    if *cnt <= 3 {
                        out.line(&json!({"case": c, "module": if mi == usize::MAX { -1 } else { mi as i64 }, "why": why, "text": text}));
                        out.flush();
                    }
                }
            }
        }
    }
    out.line(&json!({"summary": true, "cases": n, "texts": texts, "stats": stats}));
}
