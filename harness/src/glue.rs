//! Conversions between the specification's JSON value encoding and Rust values, used by the generated zoo glue.
use asn1rs::descriptor::bitstring::BitVec;
use serde_json::Value;

pub fn num<T: TryFrom<i64>>(v: &Value) -> Option<T> {
    T::try_from(v.as_i64()?).ok()
}

/// a number of Big.tla ({"neg": .., "m": [limbs base 2^16, little endian]}): values beyond TLC's own integers
pub fn bignum<T: TryFrom<i128>>(v: &Value) -> Option<T> {
    T::try_from(crate::prim::big(v)).ok()
}

pub fn big_json<T: Into<i128>>(x: T) -> Value {
    crate::prim::to_big(x.into())
}

pub fn string(v: &Value) -> Option<String> {
    v.as_array()?
        .iter()
        .map(|c| char::from_u32(c.as_u64()? as u32))
        .collect()
}

pub fn bytes(v: &Value) -> Option<Vec<u8>> {
    v.as_array()?.iter().map(|c| Some(c.as_u64()? as u8)).collect()
}

pub fn bitvec(v: &Value) -> Option<BitVec> {
    let bits = v.as_array()?;
    let mut bytes = vec![0u8; (bits.len() + 7) / 8];
    for (i, b) in bits.iter().enumerate() {
        if b.as_u64()? == 1 {
            bytes[i / 8] |= 0x80 >> (i % 8);
        }
    }
    Some(BitVec::from_bytes(bytes, bits.len() as u64))
}

pub fn null_json<T>(_: &T) -> Value {
    Value::from(0)
}
