"""Printer: abstract syntax (Grammar.tla records as JSON) -> ASN.1 text. Deliberately simple: one lexical item after the other."""

CS = {"utf8": "UTF8String", "ia5": "IA5String", "vis": "VisibleString", "prt": "PrintableString", "num": "NumericString"}
CLS = {0: "UNIVERSAL ", 1: "APPLICATION ", 2: "", 3: "PRIVATE "}


def tag(t):
    return "[%s%d] " % (CLS[t[0]], t[1]) if t else ""


def named(n):
    return " { %s }" % ", ".join("%s(%d)" % (a, b) for a, b in n) if n else ""


def size(sz):
    sp = sz.get("spell", "plain")
    if sp == "zeroMax":
        return " (SIZE(0..MAX))"
    if sz["c"] == "none":
        return ""
    ext = ",..." if sz["ext"] else ""
    if sp == "lbMax":
        return " (SIZE(%d..MAX%s))" % (sz["lb"], ext)
    if sz["lb"] == sz["ub"] and sp != "range":
        return " (SIZE(%d%s))" % (sz["lb"], ext)
    return " (SIZE(%d..%d%s))" % (sz["lb"], sz["ub"], ext)


def literal(l):
    k = l["k"]
    if k == "bool":
        return "TRUE" if l["v"] else "FALSE"
    if k == "int":
        return str(l["v"])
    if k == "str":
        return '"%s"' % "".join(chr(c) for c in l["v"])
    if k == "enum":
        return l["v"]
    raise ValueError(k)


def typ(t):
    k = t["k"]
    if k == "bool":
        return "BOOLEAN"
    if k == "null":
        return "NULL"
    if k == "int":
        s = "INTEGER" + named(t["named"])
        sp = t.get("spell", "plain")
        if sp == "zeroMax":
            return s + " (0..MAX%s)" % (",..." if t["ext"] else "")
        if sp == "minMax":
            return s + " (MIN..MAX%s)" % (",..." if t["ext"] else "")
        if not t["hasLb"] and not t["hasUb"]:
            return s
        return s + " (%s..%s%s)" % (t["lb"] if t["hasLb"] else "MIN", t["ub"] if t["hasUb"] else "MAX", ",..." if t["ext"] else "")
    if k == "enum":
        items = []
        for i, (n, has, num) in enumerate(t["items"]):
            items.append("%s(%d)" % (n, num) if has else n)
            if i == t["extAfter"]:
                items.append("...")
        return "ENUMERATED { %s }" % ", ".join(items)
    if k == "str":
        return CS[t["cs"]] + size(t["sz"])
    if k == "oct":
        return "OCTET STRING" + size(t["sz"])
    if k == "bits":
        return "BIT STRING" + named(t["named"]) + size(t["sz"])
    if k == "seqof":
        return "%s%s OF %s" % ("SET" if t["set"] else "SEQUENCE", size(t["sz"]), typ(t["of"]))
    if k == "seq":
        items = []
        for i, c in enumerate(t["comps"]):
            s = "%s %s%s" % (c["name"], tag(c["tag"]), typ(c["t"]))
            if c["mode"] == "opt":
                s += " OPTIONAL"
            elif c["mode"] == "def":
                s += " DEFAULT " + literal(c["dflt"][0])
            items.append(s)
            if i == t["extAfter"]:
                items.append("...")
        if not t["comps"] and t["extAfter"] == 0:
            items.append("...")          # extensible, no root component
        return "%s { %s }" % ("SET" if t["set"] else "SEQUENCE", ", ".join(items))
    if k == "choice":
        items = []
        for i, a in enumerate(t["alts"]):
            items.append("%s %s%s" % (a["name"], tag(a["tag"]), typ(a["t"])))
            if i == t["extAfter"]:
                items.append("...")
        return "CHOICE { %s }" % ", ".join(items)
    if k == "ref":
        return t["name"]
    raise ValueError(k)


def definition(d):
    return "%s ::= %s%s" % (d["name"], tag(d["tag"]), typ(d["t"]))


# v2 is also the name of a value reference: an identifier governed by an ENUMERATED type is an enumeration item first
PREAMBLE = ["D1 ::= INTEGER (0..255)", "E1 ::= ENUMERATED { v1, v2, v3 }", "v2 INTEGER ::= 3"]
PREAMBLE_NAMES = {"D1", "E1"}


# comment shapes between the definitions: none of their content may come back to life
COMMENTS = ["/*/ C1 ::= NULL */", "/* a /* C2 ::= NULL */ b */", "-- C3 ::= NULL", "/*\n-- C4 ::= NULL */", "/**/ /***/ /*/**/*/"]


def module(name, defs, header="DEFINITIONS AUTOMATIC TAGS ::="):
    body = []
    for i, d in enumerate(defs):
        if i % 7 == 0:
            body.append(COMMENTS[(i // 7) % len(COMMENTS)])
        body.append(definition(d))
    return "%s %s BEGIN\n%s\n%s\nEND\n" % (name, header, "\n".join(PREAMBLE), "\n".join(body))
