"""C16 - SET components encoded in canonical tag order; tags assigned per X.680 (DESIGN.md section 7, C16)."""
import json, os, re
import vlib, uperlib, felib
from vlib import run_tlc, outdir, ToolError, cargo_build


# MC_SetsImport!Defs / Pool as text (the specification owns the structure, this is its one spelling)
LIB_MODULE = """Lib DEFINITIONS AUTOMATIC TAGS ::= BEGIN
Id ::= [APPLICATION 9] INTEGER (0..7)
Handle ::= Id
Pick ::= CHOICE { a [APPLICATION 12] BOOLEAN, b Id }
Plain ::= BOOLEAN
Other ::= [PRIVATE 3] BOOLEAN
Deep ::= Other
Far ::= Deep
END
"""
MAIN_HEAD = """Main DEFINITIONS AUTOMATIC TAGS ::= BEGIN
IMPORTS Handle, Pick, Plain, Deep, Far FROM Lib;
Id ::= [PRIVATE 1] BOOLEAN
Other ::= [APPLICATION 1] INTEGER (0..7)
"""
IMPORT_POOL = ["Handle", "Pick", "Plain", "Deep", "Id", "Other", "[1] INTEGER (0..7)", "[PRIVATE 2] BOOLEAN", "Far", "[APPLICATION 10] INTEGER (0..7)"]


def import_family(v, d, K):
    """MC_SetsImport: the tag of an untagged reference is decided in the module that defines the referenced type."""
    vec = os.path.join(d, "sets_import.ndjson")
    t = run_tlc("C16", "MC_SetsImport", "SPECIFICATION Spec\nCONSTANTS\n  W7 = 7\n  W14 = 14\n  K = %d\nINVARIANTS RefOk Emit\nCHECK_DEADLOCK FALSE\n" % K,
                replay_to=vec, coverage=False, heap="4g")
    if t.violation:
        raise ToolError("MC_SetsImport: " + t.violation)
    v.add_tlc("MC_SetsImport", t)
    cases = vlib.read_ndjson(vec)
    if len(cases) != t.nreplay or not cases:
        raise ToolError("MC_SetsImport printed nothing")
    nbad = checked = 0
    for lib_first in (False, True):
        sub = [c for c in cases if c["libFirst"] == lib_first]
        for lo in range(0, len(sub), 400):
            chunk = sub[lo:lo + 400]
            defs = []
            for i, c in enumerate(chunk):
                comps = []
                for p, s in enumerate(c["s"]):
                    comps.append("f%d %s" % (p + 1, IMPORT_POOL[s - 1]))
                    if c["xa"] and p + 1 == c["xa"]:
                        comps.append("...")
                defs.append("T%d ::= %s { %s }" % (i + 1, "SET" if c["isSet"] else "SEQUENCE", ", ".join(comps)))
            main = MAIN_HEAD + "\n".join(defs) + "\nEND\n"
            texts = [LIB_MODULE, main] if lib_first else [main, LIB_MODULE]
            rows = felib.pipeline(texts, d, tag="imp_%d_%d" % (lib_first, lo))
            if isinstance(rows, dict) or (rows and "error" in rows[0]):
                v.violation("the front end fails on two modules with imported component types: %s" % str(rows)[:300],
                            {"modules_in_load_order": texts, "result": rows}, "import_module_%d_%d.json" % (lib_first, lo))
                continue
            for r in rows:
                m = re.match(r"T(\d+)$", r["name"])
                if not m or (r.get("module") or "").lower() != "main":
                    continue
                c = chunk[int(m.group(1)) - 1]
                got = felib.seq_consts(r["expanded"])
                checked += 1
                if got is None or got["write_order"] != c["order"] or got["read_order"] != c["order"]:
                    nbad += 1
                    if nbad <= 25:
                        v.violation("wire order of a SET with imported component types differs from the canonical tag order: %s expected %s "
                                    "(tags %s), macro expands to %s" % (defs[int(m.group(1)) - 1], c["order"], c["tags"], got and got["write_order"]),
                                    {"definition": defs[int(m.group(1)) - 1], "expected": c, "got": got, "modules_in_load_order": texts},
                                    "import_%04d.json" % nbad)
    if checked != len(cases):
        raise ToolError("import family incomplete: %d of %d definitions came back" % (checked, len(cases)))
    return checked


def run(v):
    quick = v.tier == "quick"
    d = outdir("C16")
    K, KC = (3, 3) if quick else (4, 3)
    raw = os.path.join(d, "sets.raw")
    t = run_tlc("C16", "MC_Sets", "SPECIFICATION Spec\nCONSTANTS\n  W7 = 7\n  W14 = 14\n  K = %d\n  KC = %d\nINVARIANTS RefOk Emit\nCHECK_DEADLOCK FALSE\n" % (K, KC),
                replay_to=raw, coverage=False, heap="8g", prefixes=('<<"REPLAY", ', '<<"ZOO", ', '<<"ORDER", '))
    if t.violation:
        raise ToolError("MC_Sets (Tags.tla, reference level): " + t.violation)
    v.add_tlc("MC_Sets", t)
    orders, zoo = [], {}
    vec = os.path.join(d, "sets.ndjson")
    nvec = 0
    with open(vec, "w") as o:
        for l in open(raw):
            r = json.loads(l)
            if "consts" in r:
                orders.append(r)
            elif "t" in r and "v" not in r:
                zoo[r["ti"]] = r["t"]
            else:
                o.write(l)
                nvec += 1
    os.remove(raw)
    if not orders or not zoo or not nvec:
        raise ToolError("MC_Sets printed nothing")

    # ---- (i) run time: order and constants of every enumerated SET/SEQUENCE through the real macro pipeline ----
    cargo_build()
    nbad = 0
    checked = 0
    for lo in range(0, len(orders), 400):
        chunk = orders[lo:lo + 400]
        asn, g = felib.module_of([o["t"] for o in chunk])
        rows = felib.pipeline([asn], d, tag="order_%d" % lo)
        if isinstance(rows, dict) or (rows and "error" in rows[0]):
            v.violation("the front end fails on a module of SET/SEQUENCE definitions: %s" % str(rows)[:300], {"module": asn, "result": rows}, "order_module_%d.json" % lo)
            continue
        texts = dict(g.defs)
        for r in rows:
            m = re.match(r"T(\d+)$", r["name"])
            if not m:
                continue
            o = chunk[int(m.group(1)) - 1]
            c = o["consts"]
            got = felib.seq_consts(r["expanded"])
            checked += 1
            ok = got is not None and got["write_order"] == c["order"] and got["read_order"] == c["order"] and \
                got["stdOptionalFields"] == c["stdOptionalFields"] and got["fieldCount"] == c["fieldCount"] and \
                got["extendedAfterField"] == c["extendedAfterField"]
            if not ok:
                nbad += 1
                if nbad <= 25:
                    v.violation("wire order / constants differ from Tags!WireOrder for %s ::= %s: expected order %s, macro expands to %s" % (
                        r["name"], texts[r["name"]], c["order"], got), {"asn1": texts[r["name"]], "expected": c, "tags": o["tags"], "got": got,
                                                                         "module": asn}, "order_%04d.json" % nbad)
    if checked != len(orders):
        raise ToolError("run-time order check incomplete: %d of %d" % (checked, len(orders)))
    v.cov["order_definitions_checked"] = checked
    nimp = import_family(v, d, 3)
    v.cov["import_definitions_checked"] = nimp
    checked += nimp

    # ---- (ii) compiled sample: bits in wire order ----
    exe = uperlib.build_zoo(zoo, v.tier, name="zoo_sets_" + v.tier)
    rows = uperlib.run_zoo(exe, "uper", vec, os.path.join(d, "sets.res"))
    summ = [r for r in rows if r.get("summary")][0]
    if summ["cases"] != nvec:
        raise ToolError("replay incomplete")
    names = uperlib.asn_names(v.tier, name="zoo_sets_" + v.tier)
    k = 0
    for r in rows:
        if r.get("summary") or r.get("summary_stream") or r.get("class") == "stream":
            continue
        k += 1
        ti = r["case"]["ti"]
        r["asn1"] = "T%d ::= %s" % (ti, names.get("T%d" % ti))
        if k <= 25:
            v.violation("%s: %s [%s]" % (r["class"], r["why"], r["asn1"]), r, "bits_%03d.json" % k)
    v.cov["replay_stats"] = summ["stats"]
    v.cov["traces_validated_against_impl"] += checked + summ["cases"]
    v.cov["evaluations"] += checked + summ["cases"]
    v.cov["distinct_nontrivial"] = sum(1 for o in orders if o["t"]["set"] and o["consts"]["order"] != list(range(1, len(o["t"]["comps"]) + 1))) + summ["stats"].get("encoded", 0)
    v.cov["exhaustive"] = True
    v.cov["rule"] = ("Tags.tla defines X.680 8.6 canonical order (WireOrder). MC_Sets enumerates ALL ordered selections of %d and %d components from "
                     "a pool of 11 differently tagged components (explicit tags of the four classes, untagged builtins, a reference to a tagged "
                     "type, an untagged CHOICE with tagged alternatives incl. a smaller extension tag, an untagged SEQUENCE reference) x marker "
                     "position x {SET, SEQUENCE}: %d definitions; the order of write_seq/read_seq and the constants the real macro pipeline "
                     "expands to must equal WireOrder/SeqConsts (SEQUENCE: textual). A compiled sample (%d types, all permutations of %d of the "
                     "first 6 pool entries) is encoded with distinct marker values and compared bit for bit with X691!Enc in wire order. "
                     "Non-trivial = SETs whose wire order differs from the textual order + encoded vectors. MC_SetsImport: %d SET/SEQUENCE definitions "
                     "of 3 components over imported untagged aliases (one and two steps), an imported untagged CHOICE, local types of the same "
                     "names with other tags and explicit tags, both load orders: the tag is decided in the defining module."
                     % (K, K - 1, len(orders), len(zoo), KC, nimp))
    v.cov["samples"] = [{"asn1": felib.module_of([o["t"]])[0].splitlines()[-2], "expected_order": o["consts"]["order"], "tags": o["tags"]}
                        for o in orders[5::max(1, len(orders) // 4)][:4]] + vlib.sample_ndjson(vec, 2, v.seed)
    v.cov["checker_cmd"] = "tlc MC_Sets; tlc MC_SetsImport; frontend pipeline (run time); zoogen + cargo build (zoo_sets); vzoo uper"
    v.assumptions += ["extension additions of a SET are ordered canonically inside their group, as the property states",
                      "CHOICE components in the pool carry explicit alternative tags (automatic tagging inside an untagged CHOICE is outside this check)"]


def replay(path):
    print(json.dumps(json.load(open(path)), indent=1)[:5000])
    return 0
