"""C13 - the model is invariant under whitespace and comment layout; token locations (DESIGN.md section 7, C13)."""
import glob, json, os, re
import vlib
from vlib import run_tlc, cargo_build, run_bin, outdir, ToolError


def corpus():
    """Real-world modules: every asn_to_rust!(r"...") literal of the repository's tests (current tree)."""
    mods = []
    for f in sorted(glob.glob("/repo/tests/*.rs")):
        s = open(f, errors="replace").read()
        for m in re.finditer(r'asn_to_rust!\(\s*r(#*)"(.*?)"\1\s*\)', s, re.S):
            mods.append(m.group(2))
    return mods


# character string literals whose blanks are content (the tokenizer splits them; the model rebuilds the blanks from columns)
WIDE_MODULE = """Relay DEFINITIONS AUTOMATIC TAGS ::= BEGIN
    greeting UTF8String ::= "hello wide  world"
    S ::= SEQUENCE {
        a UTF8String DEFAULT "a b  c",
        b IA5String DEFAULT "x y",
        c INTEGER (0..255) DEFAULT 7,
        d UTF8String DEFAULT " lead and trail "
    }
    -- literals that continue on the next line (X.680 12.14.1: the white space around the line break is not part of the value)
    note UTF8String ::= "abc
            def"
    key OCTET STRING ::= '0011
            2233'H
    R ::= SEQUENCE { t UTF8String DEFAULT "one
                        two" }
END
"""


def run(v):
    quick = v.tier == "quick"
    d = outdir("C13")
    L, C = (4, 2) if quick else (6, 2)
    K = 3 if quick else 4
    cfg = "SPECIFICATION Spec\nCONSTANTS\n  Dev = %s\n  L = %d\n  C = %d\n  K = " + str(K) + "\nINVARIANTS %s\nCHECK_DEADLOCK FALSE\n"
    # ---- M + emission: machine-shaped TokImpl == functional LexSpec, relayout invariance, for all strings ----
    vec = os.path.join(d, "lexer.ndjson")
    t = run_tlc("C13", "MC_Lexer", cfg % ("{}", L, C, "Agree Relayout Emit"), replay_to=vec, coverage=False, heap="12g", timeout=3 * 3600)
    if t.violation:
        raise ToolError("Lexer.tla: design-level machine and functional definition disagree: " + t.violation)
    v.add_tlc("MC_Lexer", t)
    # ---- the model must be sharp enough to see the defect that was fixed (vacuity guard) ----
    ts = run_tlc("C13", "MC_Lexer", cfg % ('{"BlockCommentKeepsPending"}', 3, 2, "Agree"), tag="sharp", coverage=False, heap="4g")
    if not ts.violation or "Agree" not in ts.violation:
        raise ToolError("vacuity guard: Dev = {BlockCommentKeepsPending} does not violate Agree")
    v.cov["engines"]["MC_Lexer_sharpness"] = {"violated_as_expected": ts.violation[:80]}
    # ---- R: every string through the real Tokenizer ----
    cargo_build()
    res = os.path.join(d, "lexer.res")
    p = run_bin("replay", ["lexer", vec, res])
    if p.returncode != 0:
        raise ToolError("replay lexer failed: " + p.stderr[-1500:])
    rows = vlib.read_ndjson(res)
    summ = rows[-1]
    if summ["cases"] != t.nreplay:
        raise ToolError("lexer replay incomplete")
    for i, r in enumerate(rows[:-1]):
        if i < 30:
            v.violation("real Tokenizer differs from Lexer.tla on %r: %s" % (r["text"], r["why"][:300]), r, "lexer_%03d.json" % i)
    v.cov["traces_validated_against_impl"] += summ["cases"]
    v.cov["evaluations"] += summ["cases"]
    # ---- module level: layout plans drawn by TLC's simulation of the printer machine, applied to real modules ----
    nplans = 12 if quick else 200
    pr = os.path.join(d, "plans.ndjson")
    tp = run_tlc("C13", "Relayout", "SPECIFICATION Spec\nCONSTANTS\n  D = 97\n  W = 2\nINVARIANT Emit\nCHECK_DEADLOCK FALSE\n", tag="plans", workers=1,
                 simulate="num=%d" % nplans, replay_to=pr, coverage=False, heap="2g", extra=["-depth", "98", "-seed", str(v.seed)])
    plans = []
    seen = set()
    for l in open(pr):
        pl = tuple(json.loads(l)["plan"])
        if pl[:-1] not in seen:          # one plan per simulated behaviour
            seen.add(pl[:-1])
            plans.append(list(pl))
    # the wide separators (8, 9) are heavy: only the first 12 drawn plans keep them
    plans = [pl if i < 12 else [{8: 1, 9: 6}.get(x, x) for x in pl] for i, pl in enumerate(plans)]
    plans += [[0], [1], [2], [3], [4], [5], [6], [7]]        # the uniform layouts
    # and the wide separators at every 23rd boundary, the rest of the module on one line / on short lines
    plans += [[8] + [1] * 22, [9] + [1] * 22, [1] * 11 + [8] + [4] + [1] * 10, [9, 0, 2] + [6] * 20]
    if len(plans) < nplans:
        raise ToolError("TLC simulation produced only %d plans" % len(plans))
    mods = corpus() + [WIDE_MODULE]
    zq = os.path.join(vlib.OUT, "zoo_quick", "zoo.asn1")
    if os.path.exists(zq):
        mods.append(open(zq).read())
    if len(mods) < 20:
        raise ToolError("module corpus too small (%d)" % len(mods))
    spec = os.path.join(d, "relayout.json")
    json.dump({"modules": mods, "plans": plans}, open(spec, "w"))
    rres = os.path.join(d, "relayout.res")
    p = run_bin("replay", ["relayout", spec, rres])
    if p.returncode != 0:
        raise ToolError("replay relayout failed: " + p.stderr[-1500:])
    rrows = vlib.read_ndjson(rres)
    rs = rrows[-1]
    for i, r in enumerate(rrows[:-1]):
        v.violation("re-laid-out module differs: %s" % r["why"][:300], r, "relayout_%03d.json" % i)
    v.cov["traces_validated_against_impl"] += rs["cases"]
    v.cov["evaluations"] += rs["cases"]
    v.cov["relayout"] = rs
    v.cov["states"] += tp.generated
    v.cov["distinct_nontrivial"] = summ["nontrivial"]
    v.cov["exhaustive"] = True
    v.cov["rule"] = ("M+R: one TLC state per string: a block comment with EVERY interior of length <= " + str(K) + " over {LF - x SP / *} between all "
                     "single-character contexts (multi-line comments, '--' and nested brackets on comment lines); ALL strings of length <= %d over the 11-symbol lexical alphabet {x y SP TAB CR LF - / * : {} plus "
                     "every separator form (blank, tab, CR LF, LF, line comment, block comment, nested block comment, comment with a line "
                     "break, empty comment) between all pairs of contexts of length <= %d. In every state TLC checks TokImpl (shaped like "
                     "Tokenizer::parse) = LexSpec (functional X.680 clause 12 definition) incl. line/column, and relayout invariance; the "
                     "real Tokenizer must return exactly these tokens and locations (unterminated comments: only the documented panic). "
                     "Non-trivial = strings with at least one token. Module level: %d layout plans drawn by TLC's simulation of Relayout.tla "
                     "(seed; separators incl. runs of 70 000 blanks / comment characters, so that tokens and string literals start beyond column 65 535) + 8 uniform + 4 wide layouts applied to %d real modules (%d token boundaries): token sequence and resolved model "
                     "unchanged, every token found at its reported location." % (L, C, len(plans) - 12, rs["modules"], rs["boundaries"]))
    v.cov["samples"] = vlib.sample_ndjson(vec, 4, v.seed, lambda r: len(r["toks"]) > 1) + [{"plan": plans[0][:20]}]
    v.cov["checker_cmd"] = "tlc MC_Lexer (Agree, Relayout, Emit) + sharpness run; replay lexer; tlc -simulate Relayout; replay relayout"
    v.assumptions += ["'--' comments end at the end of the line (the property's quantifier lists only that form; X.680 also ends them at the next '--')",
                      "no layout is inserted inside '::=', '..', '...' and string literals"]


def replay(path):
    print(json.dumps(json.load(open(path)), indent=1)[:5000])
    return 0
