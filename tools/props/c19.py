"""C19 - the diagnostic feature flag does not change decoding results (DESIGN.md section 7, C19)."""
import json, os
import vlib, uperlib
from vlib import outdir, ToolError
from props import c04


def run(v):
    t, vec, (L, maxlen, stride) = c04.decode_vectors("C19", v.tier)
    v.add_tlc("MC_Decode", t)
    tz, zoo, vec_valid = uperlib.tlc_zoo("C19", v.tier)
    v.add_tlc("MC_Uper", tz)
    d = outdir("C19")
    exe_off = uperlib.build_zoo(zoo, v.tier)
    exe_on = uperlib.build_zoo(zoo, v.tier, features=("descriptive",), name="zoo_desc_" + v.tier)
    # malformed and short inputs, plus (as "fault"-free family) every valid encoding: convert valid vectors to decode cases
    allvec = os.path.join(d, "all.ndjson")
    nvalid = 0
    with open(allvec, "w") as o:
        for l in open(vec):
            o.write(l)
        for l in open(vec_valid):
            r = json.loads(l)
            if r["ok"] and len(r["bits"]) <= 4000:
                o.write(json.dumps({"ti": r["ti"], "fam": "valid", "bits": r["bits"]}) + "\n")
                nvalid += 1
    outs = {}
    for name, exe in (("off", exe_off), ("on", exe_on)):
        o = os.path.join(d, "outcomes_%s.txt" % name)
        rows, incidents = c04.run_decode(exe, allvec, os.path.join(d, "decode_%s.res" % name), os.path.join(d, "progress_%s" % name), outcomes=o)
        outs[name] = (o, incidents)
    names = uperlib.asn_names(v.tier)
    fa, fb = open(outs["off"][0]), open(outs["on"][0])
    lines = None
    n = diff = 0
    kinds = {}
    while True:
        a, b = fa.readline(), fb.readline()
        if not a and not b:
            break
        n += 1
        if a != b:
            diff += 1
            if diff <= 30:
                idx = int((a or b).split()[0])
                if lines is None:
                    lines = open(allvec).read().splitlines()
                c = json.loads(lines[idx])
                v.violation("feature off: '%s'  feature on: '%s' [T%d ::= %s]" % (a.strip()[:120], b.strip()[:120], c["ti"], names.get("T%d" % c["ti"])),
                            {"case": c, "asn1": names.get("T%d" % c["ti"]), "default_build": a.strip(), "descriptive_build": b.strip()}, "diff_%03d.json" % diff)
        else:
            k = a.split()[2] if len(a.split()) > 2 else "?"
            kinds[k] = kinds.get(k, 0) + 1
    for name in ("off", "on"):
        for inc in outs[name][1]:
            ln = inc["line"] if inc["line"] is not None else -1
            v.violation("build with feature %s did not return on input line %d: %s" % (name, ln, inc["kind"]), inc, "incident_%s_%d.json" % (name, ln))
    if n == 0:
        raise ToolError("no outcomes recorded")
    v.cov["traces_validated_against_impl"] += n
    v.cov["evaluations"] += 2 * n
    v.cov["distinct_nontrivial"] = n
    v.cov["outcome_kinds_agreeing"] = kinds
    v.cov["rule"] = ("The same inputs as C04 (all bit strings <= %d bits, every single fault of every valid encoding <= %d bits, crafted extreme "
                     "fields) plus %d valid encodings, each with exact / padded / too-short declared length, are decoded by two builds of the "
                     "same compiled zoo: default features and +descriptive-deserialize-errors. For every input the two builds must agree on "
                     "Ok(value) or the error kind and on the number of bits consumed (outcome lines compared one by one). The specification's "
                     "decoding outcome has no configuration parameter." % (L, maxlen, nvalid))
    v.cov["samples"] = [{"input": x} for x in vlib.sample_ndjson(allvec, 3, v.seed)] + [{"outcome_line": l.strip()} for l in open(outs["off"][0]).readlines()[:3]]
    v.cov["checker_cmd"] = "tlc MC_Decode / MC_Uper; two cargo builds of the zoo (feature off / on); vzoo decode x2; line-by-line comparison"
    v.assumptions += ["error kinds are compared by variant name; diagnostics attached to errors are deliberately not compared"]


def replay(path):
    print(json.dumps(json.load(open(path)), indent=1)[:5000])
    return 0
