"""C10 - PER primitive codecs are correct for every runtime bound and value (DESIGN.md section 7, C10)."""
import json, os
import vlib
from vlib import run_tlc, cargo_build, run_bin, tla_set, outdir, ToolError

DEVS = ["LenDetUbGe64K", "BitStringFragmentation"]


def tlaset_int(xs):
    return "{" + ", ".join(str(x) for x in xs) + "}"


def run(v):
    quick = v.tier == "quick"
    dev = vlib.dev_set("C10", DEVS)
    findings = {f["dev"]: f for f in vlib.known_findings("C10") if f.get("dev")}
    d = outdir("C10")

    # ---- M: fragmentation loops as state machines, thresholds shrunk, no state constraint, liveness ----
    t = run_tlc("C10", "PerPrimSM", "SPECIFICATION Spec\nCONSTANTS\n  W7 = 2\n  W14 = 3\n  NMax = %d\n"
                "INVARIANTS WriterRefines ReaderInverse NeverFails\nPROPERTY Terminates\nCHECK_DEADLOCK FALSE\n" % (50 if quick else 120))
    if t.violation:
        raise ToolError("PerPrimSM (design level) violates its own properties: " + t.violation)
    for a in ("WStart", "WLoop", "RStart", "RHdr"):
        if t.actions.get(a, (0, 0))[1] == 0:
            raise ToolError("vacuous model run: action %s never taken" % a)
    v.add_tlc("PerPrimSM", t)

    # ---- R: argument tuples enumerated by TLC, X.691 bits from X691Prim, executed on the real primitives ----
    if quick:
        ks, vs, lbabs, wmax = [0, 1, 6, 7, 8, 15, 16, 31, 32, 62, 63], [0, 7, 31, 63], 8, 40
    else:
        ks, vs, lbabs, wmax = list(range(0, 64)), [0, 7, 15, 31, 32, 62, 63], 40, 300
    vec = os.path.join(d, "prim.ndjson")
    t = run_tlc("C10", "MC_Prim", "SPECIFICATION Spec\nCONSTANTS\n  Dev = %s\n  W7 = 7\n  W14 = 14\n  LbAbs = %d\n  WMax = %d\n  KS = %s\n  VS = %s\n"
                "INVARIANTS RefOk Emit\nCHECK_DEADLOCK FALSE\n" % (tla_set(dev), lbabs, wmax, tlaset_int(ks), tlaset_int(vs)),
                replay_to=vec, coverage=False, heap="12g", timeout=3 * 3600)
    if t.violation:
        raise ToolError("MC_Prim: " + t.violation)
    import re
    m = re.search(r"Finished computing initial states: (\d+) distinct state", t.out)
    seeds = int(m.group(1)) if m else 0
    if t.nreplay == 0 or t.nreplay != t.distinct - seeds:
        raise ToolError("replay lines (%d) do not match TLC's case states (%d distinct, %d seeds)" % (t.nreplay, t.distinct, seeds))
    v.add_tlc("MC_Prim", t)
    cargo_build()
    res = os.path.join(d, "prim.res")
    p = run_bin("replay", ["prim", vec, res], timeout=3 * 3600)
    if p.returncode != 0:
        raise ToolError("replay prim failed: " + p.stderr[-2000:])
    rows = vlib.read_ndjson(res)
    summ = rows[-1]
    if not summ.get("summary") or summ["cases"] != t.nreplay:
        raise ToolError("replay prim: incomplete result")
    v.cov["traces_validated_against_impl"] += summ["cases"]
    v.cov["evaluations"] += summ["cases"]
    v.cov["distinct_nontrivial"] = summ["nontrivial"]
    for i, r in enumerate(rows[:-1]):
        if i < 40:
            v.violation("real primitive differs from X691Prim (%s): %s" % (r["sig"], r["why"]), r, "prim_%03d.json" % i)
    if summ["mismatches"]:
        v.cov["mismatch_classes"] = summ["classes"]
    for dname, cnt in summ["dev_classes"].items():
        f = findings.get(dname)
        if f is None:
            raise ToolError("deviation class %s is not an open finding" % dname)
        v.known(f["id"], "%s: %s (%d cases of this run inside the class)" % (f["id"], f["what"], cnt))
    v.cov["dev_classes"] = summ["dev_classes"]

    # ---- T: histories of primitive calls on one BitBuffer, validated event by event ----
    chunks = 2 if quick else 40
    hist = 400
    accepted = events = 0
    samples = []
    for ci in range(chunks):
        tr = os.path.join(d, "trace_%d.ndjson" % ci)
        p = run_bin("record", ["prim", tr, "seed=%d" % (v.seed * 7919 + ci), "histories=%d" % hist, "ops=12"])
        if p.returncode != 0:
            vlib.recorder_failed(v, p, tr, "record prim (seed %d)" % (v.seed * 7919 + ci))
            break
        events += vlib.lint_trace(tr)
        tt = run_tlc("C10", "Trace_Prim", "SPECIFICATION Spec\nCONSTANTS\n  W7 = 7\n  W14 = 14\nPOSTCONDITION Accepted\nCHECK_DEADLOCK FALSE\n",
                     tag="trace_%d" % ci, workers=1, env={"TRACE": tr}, deque=True, xss=True, coverage=False, heap="4g")
        if tt.violation or not tt.ok():
            rej = [l for l in tt.out.splitlines() if l.startswith('<<"REJECTED"')]
            lines = open(tr).read().splitlines()
            at = tt.depth
            start = max(i for i in range(at) if json.loads(lines[i]).get("op") == "new") if at > 0 else 0
            art = {"trace": tr, "rejected_line": at, "tlc": (rej or [tt.violation])[0], "history": [json.loads(x) for x in lines[start:at]]}
            v.violation("recorded primitive-call history is not a behaviour of X691Prim (line %d of %s)" % (at, tr), art, "trace_%d.json" % ci)
            break
        accepted += hist
        v.cov["states"] += tt.distinct
        v.cov["transitions"] += tt.generated
        if ci == 0:
            samples = [json.loads(x) for x in open(tr).read().splitlines()[1:4]]
        os.remove(tr)
    v.cov["traces_validated_against_impl"] += accepted
    v.cov["evaluations"] += events
    v.cov["trace_events"] = events
    v.cov["rule"] = ("R: TLC (MC_Prim) enumerates (lb, ub, v) exhaustively for lb in -%d..%d, ub-lb <= %d, every v in lb-1..ub+1, plus all pairs "
                     "of bounds from the 2^k boundary family k in %s (Big numbers up to the i64/u64 extremes) with boundary values, "
                     "unconstrained / semi-constrained / normally small numbers over the same family, indices, and length / octet string / "
                     "bit string forms x lengths at every threshold +-1 up to 200000 (every fragment-count class). Non-trivial = admissible "
                     "case or refused case with non-empty reference bits (counted by the harness); each case is a distinct TLC state. "
                     "T: %d histories of 12 primitive calls written to and read back from one buffer." % (lbabs, lbabs, wmax, "0..63" if not quick else str(ks), chunks * hist))
    v.cov["samples"] = vlib.sample_ndjson(vec, 4, v.seed, lambda r: r["ok"]) + samples
    v.cov["checker_cmd"] = "tlc PerPrimSM / MC_Prim / Trace_Prim; harness replay prim, record prim"
    v.assumptions += ["X691Prim.tla is a faithful transcription of X.691 clause 11 (written from memory of the standard; cross-checked by the "
                      "repository's third-party fixtures in C02)",
                      "inside the input class of an open finding only the persistence of a deviation is checked, not its exact bits"]


def replay(path):
    art = json.load(open(path))
    cargo_build()
    d = outdir("C10")
    if "case" in art:
        tmp = os.path.join(d, "replay_one.ndjson")
        c = dict(art["case"])
        for k in ("lb_dec", "ub_dec", "v_dec"):
            c.pop(k, None)
        c["dev"] = ""
        open(tmp, "w").write(json.dumps(c) + "\n")
        run_bin("replay", ["prim", tmp, tmp + ".res"])
        rows = vlib.read_ndjson(tmp + ".res")
        print(json.dumps(rows, indent=1))
        return 1 if rows[-1]["mismatches"] else 0
    print(json.dumps(art, indent=1))
    return 0
