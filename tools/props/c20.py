"""C20 - DER primitives round trip: identifier, length, BOOLEAN, INTEGER, ENUMERATED (DESIGN.md section 7, C20)."""
import json, os
import vlib
from vlib import run_tlc, cargo_build, run_bin, outdir, ToolError


def der_vectors(pid, tier):
    quick = tier == "quick"
    d = outdir(pid)
    ks = [0, 6, 7, 8, 14, 15, 16, 21, 23, 24, 28, 31, 32, 35, 39, 40, 42, 47, 48, 49, 55, 56, 62, 63] if quick else list(range(0, 64))
    vec = os.path.join(d, "der.ndjson")
    t = run_tlc(pid, "MC_Der", "SPECIFICATION Spec\nCONSTANTS\n  KS = {%s}\n  Small = %d\nINVARIANTS RoundTrip Emit\nCHECK_DEADLOCK FALSE\n" % (
        ", ".join(map(str, ks)), 5 if quick else 300), replay_to=vec, coverage=False, heap="4g")
    if t.violation:
        raise ToolError("Der.tla violates its own round trip: " + t.violation)
    return t, vec


def run(v):
    quick = v.tier == "quick"
    d = outdir("C20")
    ks = [0, 6, 7, 8, 14, 15, 16, 21, 23, 24, 28, 31, 32, 35, 39, 40, 42, 47, 48, 49, 55, 56, 62, 63] if quick else list(range(0, 64))
    t, vec = der_vectors("C20", v.tier)
    v.add_tlc("MC_Der", t)
    cargo_build()
    res = os.path.join(d, "der.res")
    p = run_bin("replay", ["der", vec, res])
    if p.returncode != 0:
        raise ToolError("replay der failed: " + p.stderr[-1500:])
    rows = vlib.read_ndjson(res)
    summ = rows[-1]
    if summ["cases"] != t.nreplay:
        raise ToolError("replay incomplete")
    for i, r in enumerate(rows[:-1]):
        v.violation("DER primitive %s (%s): %s" % (r["case"]["k"], r["v_dec"], r["why"][:250]), r, "der_%03d.json" % i)
    v.cov["traces_validated_against_impl"] += summ["cases"]
    v.cov["evaluations"] += summ["cases"]
    # ---- T: streams of primitives
    chunks = 2 if quick else 30
    accepted = events = 0
    for ci in range(chunks):
        tr = os.path.join(d, "trace_%d.ndjson" % ci)
        p = run_bin("record", ["der", tr, "seed=%d" % (v.seed * 104729 + ci), "histories=300", "ops=10"])
        if p.returncode != 0:
            vlib.recorder_failed(v, p, tr, "record der (seed %d)" % (v.seed * 104729 + ci))
            break
        events += vlib.lint_trace(tr)
        tt = run_tlc("C20", "Trace_Der", "SPECIFICATION Spec\nPOSTCONDITION Accepted\nCHECK_DEADLOCK FALSE\n", tag="trace_%d" % ci, workers=1, env={"TRACE": tr},
                     deque=True, xss=True, coverage=False, heap="4g")
        if tt.violation or not tt.ok():
            rej = [l for l in tt.out.splitlines() if l.startswith('<<"REJECTED"')]
            lines = open(tr).read().splitlines()
            at = tt.depth
            start = max(i for i in range(at) if json.loads(lines[i]).get("op") == "new") if at > 0 else 0
            v.violation("recorded DER stream is not a behaviour of Der.tla (line %d of %s)" % (at, tr),
                        {"trace": tr, "rejected_line": at, "tlc": (rej or [tt.violation])[0], "history": [json.loads(x) for x in lines[start:at]]}, "trace_%d.json" % ci)
            break
        accepted += 300
        v.cov["states"] += tt.distinct
        v.cov["transitions"] += tt.generated
        os.remove(tr)
    v.cov["traces_validated_against_impl"] += accepted
    v.cov["evaluations"] += events
    v.cov["distinct_nontrivial"] = summ["cases"]
    v.cov["exhaustive"] = True
    v.cov["rule"] = ("Der.tla over Big numbers. TLC enumerates lengths 0..300 and 2^k-1, 2^k, 2^k+1 for k in %s (every 7- and 8-bit octet boundary up "
                     "to u64::MAX), all 124 tags (4 classes x numbers 0..30), the i64 and u64 boundary families incl. the extremes, every boolean "
                     "octet 0..255 and enumerated indices 0..300, plus the typed layer (BasicWriter / BasicReader: INTEGER over the i64 family, BOOLEAN, "
                     "ENUMERATED with a root-only and an extensible item list incl. the first index beyond the list, Der!TLV); checks Dec(Enc(x)) = x on the specification; the real writer must emit exactly "
                     "the octets of Der.tla and the real reader must return the value and consume exactly those octets (a sentinel octet "
                     "follows). T: %d recorded streams of 10 primitives written to one Vec<u8> and read back from one slice, validated by "
                     "Trace_Der.tla (remaining length after each call)." % ("0..63" if not quick else str(ks), accepted))
    v.cov["samples"] = vlib.sample_ndjson(vec, 5, v.seed)
    v.cov["checker_cmd"] = "tlc MC_Der (RoundTrip, Emit); replay der; record der + tlc Trace_Der"
    v.assumptions += ["INTEGER contents are specified as the writer emits them (not minimal two's complement of X.690 8.3): the property asks for the round trip"]


def replay(path):
    print(json.dumps(json.load(open(path)), indent=1)[:5000])
    return 0
