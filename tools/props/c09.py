"""C09 - every accepted module yields Rust code that rustc accepts (DESIGN.md section 7, C09)."""
import json, os, re, shutil, subprocess, time
import vlib, felib, asnprint
from vlib import run_tlc, cargo_build, run_bin, outdir, ToolError, log
from props import c07

DEVS = ["NameManglingCollisions", "NegativeConstantUnsigned", "OctetStringLiterals", "InlineTypeNameClash", "TypeNameShadowsGeneratedPath", "DefaultKindNotChecked"]

# what rustc says for a module that fails only because of the open finding (anything else in such a module is a violation)
EXPECTED_ERRORS = {"NameManglingCollisions": {"E0004", "E0062", "E0119", "E0124", "E0308", "E0428", "E0592"},
                   "NegativeConstantUnsigned": {"E0600"},
                   "OctetStringLiterals": {"E0308", "macro:Invalid literal value", "macro:custom attribute panicked"},
                   "InlineTypeNameClash": {"E0071", "E0119", "E0308", "E0428", "E0560", "E0609", "macro:the `Self` constructor can only be used with tuple or unit structs"},
                   "TypeNameShadowsGeneratedPath": {"*"},
                   "DefaultKindNotChecked": {"E0308", "E0412", "E0425", "macro:custom attribute panicked"}}

# Rust 2021 strict + reserved keywords that can be written as an ASN.1 identifier (lower case first letter) and `Self`
KEYWORDS = ["as", "break", "const", "continue", "crate", "else", "enum", "extern", "false", "fn", "for", "if", "impl", "in", "let", "loop", "match",
            "mod", "move", "mut", "pub", "ref", "return", "self", "static", "struct", "super", "trait", "true", "type", "unsafe", "use", "where",
            "while", "async", "await", "dyn", "abstract", "become", "box", "do", "final", "macro", "override", "priv", "typeof", "unsized",
            "virtual", "yield", "try"]


def ident(chars):
    return "".join(chars)


def neg_named_unsigned(node):
    """An INTEGER whose Rust type is unsigned (no lower bound, or one >= 0) with a negative named number, anywhere in the definition."""
    if isinstance(node, dict):
        if node.get("k") == "int" and any(n[1] < 0 for n in node.get("named", [])) and (not node.get("hasLb") or node.get("lb", 0) >= 0):
            return True
        return any(neg_named_unsigned(x) for x in node.values())
    if isinstance(node, list):
        return any(neg_named_unsigned(x) for x in node)
    return False


def int_bounds(quick):
    """(lb, ub) with every decimal digit count 1..19 on either side, both signs, all-nines / power of ten / type limits."""
    vals = set()
    for dgt in range(1, 20):
        for x in (10 ** (dgt - 1), 10 ** dgt - 1, int("1234567890123456789"[:dgt])):
            if x <= 2 ** 63 - 1:
                vals.add(x)
                vals.add(-x)
    for b in (7, 8, 15, 16, 31, 32, 63):
        vals.update((2 ** b, 2 ** b - 1, -(2 ** b), -(2 ** b) - 1))
    vals = sorted(x for x in vals if -2 ** 63 <= x <= 2 ** 63 - 1)
    if quick:
        vals = vals[::2] + [-128, -100, -999, -500000, -900000000]
        vals = sorted(set(vals))
    pairs = [(x, 2 ** 63 - 1 if x > 0 else max(0, min(2 ** 63 - 1, -x))) for x in vals]   # as lower bound
    pairs += [(-(2 ** 63) if x < 0 else 0, x) for x in vals if x != -(2 ** 63)]                # as upper bound
    return sorted(set(p for p in pairs if p[0] <= p[1]))


def check_min_max(v, text, code, k):
    """The literals of the generated value_min() / value_max() helpers are legal Rust numbers that equal the bounds."""
    bad = 0
    for m in re.finditer(r"^(B\d+) ::= INTEGER \((-?\d+)\.\.(-?\d+)\)", text, re.M):
        name, lb, ub = m.group(1), int(m.group(2)), int(m.group(3))
        for which, want in (("min", lb), ("max", ub)):
            g = re.search(r"impl %s \{.*?fn value_%s\(\) -> \w+ \{\s*([^\s}]+)\s*\}" % (name, which), code, re.S)
            if g is None:
                if lb == -(2 ** 63) and ub == 2 ** 63 - 1 or lb == 0 and ub == 2 ** 63 - 1:
                    continue                 # treated as unconstrained: no helpers
                got, ok = None, False
            else:
                got = g.group(1)
                ok = re.fullmatch(r"-?[0-9](_?[0-9])*", got) is not None and int(got.replace("_", "")) == want
            if not ok:
                bad += 1
                if bad <= 3:
                    v.violation("generated value_%s() of INTEGER (%d..%d) is %r" % (which, lb, ub, got), {"definition": m.group(0), "literal": got}, "minmax_%03d.json" % (k * 10 + bad))
    return bad


def list_of_inline(ast):
    """T ::= SEQUENCE OF <inline SEQUENCE / SET / CHOICE / ENUMERATED>: the element type is extracted under the name T itself."""
    t = ast["t"]
    if t.get("k") != "seqof":
        return False
    while t.get("k") == "seqof":
        t = t["of"]
    return t.get("k") in ("seq", "choice", "enum")


def families(v, names_cases, grammar_cases, quick):
    """[(family, key, module text, dev class or '')]"""
    mods = []
    hdr = "%s DEFINITIONS AUTOMATIC TAGS ::= BEGIN\n%s\nEND\n"
    for kw in KEYWORDS:
        mods.append(("keyword-field", kw, hdr % ("Kf", "T ::= SEQUENCE { %s INTEGER (0..7), other BOOLEAN OPTIONAL }" % kw), ""))
        mods.append(("keyword-variant", kw, hdr % ("Kv", "E ::= ENUMERATED { %s, other }\nC ::= CHOICE { %s BOOLEAN, other NULL }" % (kw, kw)), ""))
        mods.append(("keyword-value", kw, hdr % ("Kc", "%s INTEGER ::= 5\nT ::= INTEGER (0..%s)" % (kw, kw)), ""))
    mods.append(("keyword-type", "Self", hdr % ("Kt", "Self ::= SEQUENCE { a BOOLEAN }"), ""))
    # collision classes predicted by Names.tla: one module per class (sample)
    seen = set()
    for c in names_cases:
        if c["fieldCollides"] and c["s"][0].islower():
            a, b = ident(c["s"]), ident(c["partner"])
            key = tuple(sorted((a, b)))
            if key not in seen and len(seen) < (12 if quick else 80):
                seen.add(key)
                mods.append(("collision-field", "%s/%s" % key, hdr % ("Cf", "T ::= SEQUENCE { %s BOOLEAN, %s BOOLEAN }" % key), "NameManglingCollisions"))
    seenv = set()
    for c in names_cases:
        if c["variantCollides"]:
            a, b = ident(c["s"]), ident(c["vpartner"])
            key = tuple(sorted((a, b)))
            if key in seenv or len(seenv) >= (12 if quick else 80):
                continue
            seenv.add(key)
            if a[0].islower():
                mods.append(("collision-variant", "%s/%s" % key, hdr % ("Cv", "E ::= ENUMERATED { %s, %s }" % key), "NameManglingCollisions"))
            else:
                mods.append(("collision-type", "%s/%s" % key, hdr % ("Ct", "%s ::= BOOLEAN\n%s ::= NULL" % key), "NameManglingCollisions"))
    # value references: kind x sign x type
    vals = [("int-pos", "x INTEGER ::= 5", ""), ("int-neg", "x INTEGER ::= -1", "NegativeConstantUnsigned"), ("int-ranged", "x INTEGER (0..7) ::= 3", ""),
            ("int-ranged-neg", "x INTEGER (-5..5) ::= -3", ""), ("bool", "x BOOLEAN ::= TRUE", ""), ("string", "x UTF8String ::= \"hi\"", ""),
            ("octets", "x OCTET STRING ::= 'ABCD'H", "OctetStringLiterals"), ("used-in-range", "x INTEGER ::= 5\nT ::= INTEGER (0..x)", ""),
            ("used-in-size", "x INTEGER ::= 5\nT ::= OCTET STRING (SIZE(1..x))", ""), ("used-as-default", "x INTEGER ::= 5\nT ::= SEQUENCE { a INTEGER (0..7) DEFAULT x }", ""),
            ("named-numbers", "T ::= INTEGER { a-b(1), c(2) } (0..7)\nS ::= SEQUENCE { f INTEGER { x-y(3) } (0..7) OPTIONAL }", ""),
            ("named-bits", "T ::= BIT STRING { a-b(0), c(1) } (SIZE(4))", ""),
            ("named-numbers-plain", "T ::= INTEGER { a-b(1), c(2) } (0..7)\nS ::= SEQUENCE { f INTEGER { x-y(3) } (0..7) }", ""),
            ("named-numbers-negative", "T ::= INTEGER { a(-2) } (-7..7)", ""),
            ("string-backslash", "x UTF8String ::= \"a\\b\"", ""),
            ("default-int", "T ::= SEQUENCE { a INTEGER (0..7) DEFAULT 3 }", ""),
            ("default-int-neg", "T ::= SEQUENCE { a INTEGER (-5..5) DEFAULT -3 }", ""),
            ("default-int-unconstrained", "T ::= SEQUENCE { a INTEGER DEFAULT 3 }", ""),
            ("default-int-wide", "T ::= SEQUENCE { a INTEGER (0..4294967296) DEFAULT 4294967296 }", ""),
            ("default-bool", "T ::= SEQUENCE { a BOOLEAN DEFAULT TRUE }", ""),
            ("default-utf8", "T ::= SEQUENCE { a UTF8String DEFAULT \"hi\" }", ""),
            ("default-ia5", "T ::= SEQUENCE { a IA5String (SIZE(1..4)) DEFAULT \"hi\" }", ""),
            ("default-string-backslash", "T ::= SEQUENCE { a UTF8String DEFAULT \"a\\b\" }", ""),
            ("default-octets", "T ::= SEQUENCE { a OCTET STRING DEFAULT 'ABCD'H }", "OctetStringLiterals"),
            ("default-enum", "E ::= ENUMERATED { v-a, v-b }\nT ::= SEQUENCE { a E DEFAULT v-b }", ""),
            ("default-referenced-int", "D ::= INTEGER (0..255)\nT ::= SEQUENCE { a D DEFAULT 3 }", ""),
            ("default-in-set", "T ::= SET { a INTEGER (0..7) DEFAULT 3, b BOOLEAN DEFAULT FALSE }", ""),
            ("default-in-nested", "T ::= SEQUENCE { a SEQUENCE { b INTEGER (0..7) DEFAULT 3 } }", ""),
            ("default-in-choice-seq", "T ::= CHOICE { a SEQUENCE { b BOOLEAN DEFAULT TRUE }, c NULL }", ""),
            ("default-value-reference-bool", "x BOOLEAN ::= TRUE\nT ::= SEQUENCE { a BOOLEAN DEFAULT x }", ""),
            ("default-value-reference-string", "x UTF8String ::= \"hi\"\nT ::= SEQUENCE { a UTF8String DEFAULT x }", ""),
            ("default-kind-int-for-bool", "T ::= SEQUENCE { a BOOLEAN DEFAULT 5 }", "DefaultKindNotChecked"),
            ("default-kind-string-for-int", "T ::= SEQUENCE { a INTEGER (0..7) DEFAULT \"x\" }", "DefaultKindNotChecked"),
            ("default-kind-bool-for-string", "T ::= SEQUENCE { a UTF8String DEFAULT TRUE }", "DefaultKindNotChecked"),
            ("same-field-two-types", "A ::= SEQUENCE { f SEQUENCE { x BOOLEAN } }\nB ::= SEQUENCE { f SEQUENCE { y BOOLEAN } }", ""),
            ("inline-name-clash", "AF ::= BOOLEAN\nA ::= SEQUENCE { f SEQUENCE { x BOOLEAN } }", "InlineTypeNameClash"),
            ("inline-choice-enum", "A ::= SEQUENCE { f CHOICE { x BOOLEAN, y ENUMERATED { p, q } }, g SEQUENCE OF SEQUENCE { z NULL } }", ""),
            ("type-named-like-prelude", "Option ::= SEQUENCE { a BOOLEAN OPTIONAL }\nVec ::= SEQUENCE OF BOOLEAN\nString ::= UTF8String\nBox ::= BOOLEAN", "TypeNameShadowsGeneratedPath"),
            ("type-named-like-generated", "Reader ::= BOOLEAN\nWriter ::= BOOLEAN\nError ::= NULL\nResult ::= SEQUENCE { a BOOLEAN }", "TypeNameShadowsGeneratedPath"),
            ("field-named-like-method", "T ::= SEQUENCE { write BOOLEAN, read BOOLEAN, default BOOLEAN, clone BOOLEAN, value INTEGER (0..7) }", ""),
            ("variant-named-like-method", "E ::= ENUMERATED { default, variant, variants, value-index }\nC ::= CHOICE { default BOOLEAN, variant NULL }", ""),
            ]
    for key, body, dev in vals:
        mods.append(("value-reference", key, hdr % ("Vr", body), dev))
    # INTEGER bounds of every digit count and sign (the generated value_min() / value_max() literals)
    body = []
    for n, (lb, ub) in enumerate(int_bounds(quick)):
        body.append("B%d ::= INTEGER (%d..%d)" % (n, lb, ub))
    for j in range(0, len(body), 30):
        mods.append(("int-bounds", "B%d.." % j, hdr % ("Ib", "\n".join(body[j:j + 30])), ""))
    # the C07 universe (sample): must compile; definitions inside an open finding's class get a module of their own
    step = 10 if quick else 2
    sample = grammar_cases[::step]
    plain = [c for c in sample if not neg_named_unsigned(c["ast"]) and not list_of_inline(c["ast"])]
    for c in grammar_cases:
        if list_of_inline(c["ast"]):
            mods.append(("grammar-list-of-inline-type", c["ast"]["name"], asnprint.module("Gl", [c["ast"]]), "InlineTypeNameClash"))
    for c in sample:
        if neg_named_unsigned(c["ast"]):
            mods.append(("grammar-negative-named-number", c["ast"]["name"], asnprint.module("Gn", [c["ast"]]), "NegativeConstantUnsigned"))
    for j in range(0, len(plain), 40):
        chunk = plain[j:j + 40]
        mods.append(("grammar", "defs %s.." % chunk[0]["ast"]["name"], asnprint.module("Gs%d" % j, [c["ast"] for c in chunk]), ""))
    return mods


def run(v):
    quick = v.tier == "quick"
    d = outdir("C09")
    dev = vlib.dev_set("C09", DEVS)
    findings = {f["dev"]: f for f in vlib.known_findings("C09") if f.get("dev")}
    # ---- M + R(i): mangling automata ----
    vec = os.path.join(d, "names.ndjson")
    t = run_tlc("C09", "MC_Names", "SPECIFICATION Spec\nCONSTANTS\n  L = %d\nINVARIANTS Legal Emit\nCHECK_DEADLOCK FALSE\n" % (4 if quick else 5), replay_to=vec,
                coverage=False, heap="8g", timeout=3600)
    if t.violation:
        v.violation("Names.tla: a mangled name is not a legal Rust identifier: %s" % t.violation, {"tlc": t.out[-3000:]}, "names_model.json")
    v.add_tlc("MC_Names", t)
    cargo_build()
    res = os.path.join(d, "names.res")
    p = run_bin("replay", ["names", vec, res])
    if p.returncode != 0:
        raise ToolError("replay names failed: " + p.stderr[-1000:])
    rows = vlib.read_ndjson(res)
    names_cases = vlib.read_ndjson(vec)
    # A difference from the automata of Names.tla breaks the property only if a result is not a legal Rust identifier, or if two
    # identifiers come out equal that the specification keeps apart (a new collision); otherwise the specification is out of date
    # about the spelling, which the property does not fix: reported as a note, not as a violation.
    diff = rows[:-1]
    legal = lambda o: isinstance(o, str) and re.fullmatch(r"(r#)?[A-Za-z_][A-Za-z0-9_]*", o) is not None and o not in ("_", "Self", "r#self", "r#Self", "r#super", "r#crate") \
        and (o.startswith("r#") or o not in KEYWORDS)
    real_of = {r["identifier"]: r["real"] for r in diff if r.get("real")}
    breaking = []
    for r in diff:
        if not r.get("real") or not all(legal(r["real"][k]) for k in ("genField", "genVariant", "typeName", "const")):
            breaking.append((r, "a result is not a legal Rust identifier (or the function panicked)"))
    for kind in ("genField", "genVariant", "typeName"):
        groups = {}
        for c in names_cases:
            s = ident(c["s"])
            out_real = real_of[s][kind] if s in real_of else ident(c[kind])
            groups.setdefault(out_real, []).append((s, ident(c[kind])))
        for out_real, members in groups.items():
            if len({p for _, p in members}) > 1 and any(s in real_of for s, _ in members):
                r = next(x for x in diff if x["identifier"] in {s for s, _ in members})
                breaking.append((r, "%s maps %s to the same name %r, Names.tla keeps them apart" % (kind, sorted(s for s, _ in members)[:6], out_real)))
    seen = set()
    for i, (r, what) in enumerate(breaking):
        if (r["identifier"], what) in seen:
            continue
        seen.add((r["identifier"], what))
        if len(seen) <= 30:
            v.violation("real mangling differs from Names.tla for %r and breaks the property: %s; %s" % (r["identifier"], what, r["why"][:200]), r, "names_%03d.json" % i)
    if diff and not breaking:
        log("NOTE property=C09 the real mangling differs from Names.tla on %d identifiers; every result is a legal Rust identifier and no two identifiers "
            "are mapped together that the specification keeps apart: the property holds, the specification's spelling is out of date (%s)"
            % (len(diff), diff[0]["why"][:160]))
        v.cov["names_spelling_drift"] = len(diff)
    v.cov["traces_validated_against_impl"] += rows[-1]["cases"]
    v.cov["evaluations"] += rows[-1]["cases"]
    # ---- R(ii): rustc decides ----
    tg, gcases = c07.grammar_cases("C09", v.tier)
    v.add_tlc("MC_Grammar", tg)
    mods = families(v, names_cases, gcases, quick)
    crate = os.path.join(vlib.OUT, "c09_crate")
    src = os.path.join(crate, "src")
    shutil.rmtree(src, ignore_errors=True)
    os.makedirs(src)
    accepted = []
    rejected = 0
    fin, fout = os.path.join(d, "modules.ndjson"), os.path.join(d, "modules.res")
    with open(fin, "w") as f:
        for m in mods:
            f.write(json.dumps({"text": m[2]}) + "\n")
    p = subprocess.run([os.path.join(vlib.bin_dir(), "frontend"), "accept", fin, fout], stdout=subprocess.PIPE, stderr=subprocess.PIPE, text=True, timeout=1200)
    if p.returncode != 0:
        raise ToolError("frontend accept failed: " + p.stderr[-1000:])
    verdicts = vlib.read_ndjson(fout)
    if len(verdicts) != len(mods):
        raise ToolError("frontend accept: %d verdicts for %d modules" % (len(verdicts), len(mods)))
    for i, ((fam, key, text, devcls), r) in enumerate(zip(mods, verdicts)):
        if not r["accepted"]:
            rejected += 1            # rejected with an error: fine for this property
            continue
        if fam == "int-bounds":
            check_min_max(v, text, r["code"], i)
        name = "m%03d" % i
        open(os.path.join(src, name + ".rs"), "w").write("use asn1rs::prelude::*;\nasn_to_rust!(\n    r#\"%s\"#\n);\n" % text)
        accepted.append((name, fam, key, text, devcls))
    open(os.path.join(crate, "Cargo.toml"), "w").write(
        '[package]\nname = "vc09"\nversion = "0.1.0"\nedition = "2021"\npublish = false\n\n[workspace]\n\n[dependencies]\n'
        'asn1rs = { path = "/repo", default-features = false, features = ["macros", "model", "protobuf"] }\n\n[profile.dev]\ndebug = 0\nincremental = false\n')
    os.makedirs(os.path.join(crate, ".cargo"), exist_ok=True)
    open(os.path.join(crate, ".cargo", "config.toml"), "w").write("[net]\noffline = true\n")
    if not os.path.exists(os.path.join(crate, "Cargo.lock")):
        shutil.copy("/repo/Cargo.lock", os.path.join(crate, "Cargo.lock"))
    e = dict(os.environ)
    e["CARGO_TARGET_DIR"] = os.path.join(vlib.HARNESS, "target", "c09")
    t0 = time.time()
    errors = {}
    rounds = 0
    while True:
        # rustc stops after macro expansion errors, so modules with errors are taken out and the rest is checked again
        rounds += 1
        open(os.path.join(src, "lib.rs"), "w").write("#![allow(warnings)]\n" + "".join("pub mod %s;\n" % a[0] for a in accepted if a[0] not in errors))
        p = subprocess.run(["cargo", "check", "--offline", "--message-format=short"], cwd=crate, env=e, stdout=subprocess.PIPE, stderr=subprocess.STDOUT, text=True, timeout=3600)
        new = {}
        for l in p.stdout.splitlines():
            m = re.match(r"src/(m\d+)\.rs:\d+:\d+: error(?:\[(E\d+)\])?: (.*)", l)
            if m:
                new.setdefault(m.group(1), []).append((m.group(2) or "", m.group(3)))
        if p.returncode != 0 and not new:
            raise ToolError("cargo check failed without attributable errors:\n" + "\n".join(p.stdout.splitlines()[-30:]))
        errors.update(new)
        if p.returncode == 0:
            break
        if rounds > 12:
            raise ToolError("cargo check does not converge")
    log("  cargo check of %d generated modules, %d rounds, %.1fs" % (len(accepted), rounds, time.time() - t0))
    devhits = {}
    seen_codes = {}
    k = 0
    for name, fam, key, text, devcls in accepted:
        if name not in errors:
            continue
        codes = set(x[0] or "macro:" + re.sub(r":.*", "", x[1]) for x in errors[name])
        seen_codes.setdefault(devcls, set()).update(codes)
        if devcls and devcls in dev and (codes <= EXPECTED_ERRORS[devcls] or "*" in EXPECTED_ERRORS[devcls]):
            devhits[devcls] = devhits.get(devcls, 0) + 1
            continue
        k += 1
        if k <= 30:
            v.violation("accepted module does not compile (%s %s): %s" % (fam, key, "; ".join(x[1] for x in errors[name][:3])[:250]),
                        {"family": fam, "key": key, "module": text, "rustc_errors": errors[name][:10]}, "compile_%03d.json" % k)
    for dname, cnt in devhits.items():
        f = findings.get(dname)
        if f is None:
            raise ToolError("deviation class %s is not an open finding" % dname)
        v.known(f["id"], "%s: %s (%d generated modules of this run inside the class fail to compile)" % (f["id"], f["what"], cnt))
    log("  rustc error codes per class: %s" % {k: sorted(x) for k, x in seen_codes.items()})
    v.level = "exploration"
    v.cov["traces_validated_against_impl"] += len(accepted)
    v.cov["evaluations"] += len(mods)
    v.cov["distinct_nontrivial"] = len(accepted)
    v.cov["modules_rejected_by_front_end"] = rejected
    v.cov["modules_compiled"] = len(accepted)
    v.cov["modules_with_errors"] = len(errors)
    v.cov["rule"] = ("Names.tla: the three mangling automata, all %d valid ASN.1 identifiers up to length %d over a 6-symbol class alphabet: legality "
                     "checked by TLC, collisions predicted, the real functions replayed on every identifier. rustc decides compilability of %d "
                     "generated modules (cargo check of asn_to_rust! per module): every Rust keyword as field / variant / value name (+ Self as "
                     "type name), one module per predicted collision class (fields, variants, type names), value references of every kind x sign "
                     "(also used in ranges, sizes, DEFAULT), named numbers / bits, and every %dth definition of the C07 universe. A module the "
                     "front end rejects with an error is fine (%d); an accepted module with a rustc error is the violation."
                     % (len(names_cases), 4 if quick else 5, len(accepted), 10 if quick else 2, rejected))
    v.cov["samples"] = [{"family": a[1], "key": a[2], "module": a[3][:200]} for a in accepted[::max(1, len(accepted) // 5)][:5]]
    v.cov["checker_cmd"] = "tlc MC_Names; replay names; cargo check of generated crate out/c09_crate"
    v.assumptions += ["rustc is the oracle for compilability; the specification predicts and enumerates the name space"]


def replay(path):
    print(json.dumps(json.load(open(path)), indent=1)[:5000])
    return 0
