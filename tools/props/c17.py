"""C17 - protobuf round trip preserves values up to proto3 default equivalence (DESIGN.md section 7, C17)."""
import json, os
import vlib, protolib
from vlib import ToolError


def run(v):
    findings = {f["dev"]: f for f in vlib.known_findings("C17") if f.get("dev")}
    t, zoo, vec, rows, incidents, events, names = protolib.proto_pipeline("C17", v.tier, ("C17",))
    v.add_tlc("MC_Proto", t)
    devhits = {}
    k = 0
    for inc in incidents:
        c = inc["case"]
        if c["dev"]:
            devhits[c["dev"]] = devhits.get(c["dev"], 0) + 1
            continue
        k += 1
        v.violation("protobuf writer/reader did not return: %s [T%d ::= %s]" % (inc["kind"], c["ti"], names.get("T%d" % c["ti"])), inc, "incident_%03d.json" % k)
    stats = {}
    ncases = len(incidents)
    for r in rows:
        if r.get("summary"):
            ncases += r["cases"]
            for kk, c in r["stats"].items():
                stats[kk] = stats.get(kk, 0) + c
            continue
        k += 1
        ti = r["case"]["ti"]
        r["asn1"] = "T%d ::= %s" % (ti, names.get("T%d" % ti))
        if k <= 40:
            v.violation("%s: %s [%s]" % (r["class"], r["why"][:250], r["asn1"][:140]), r, "proto_%03d.json" % k)
    ncases = t.nvec          # the replay walks the file sequentially; every line was executed or is an incident (restart after it)
    stats["ok"] = (sum(1 for _ in open(events)) if os.path.exists(events) else 0) - sum(c for kk, c in stats.items() if kk.startswith("bad:"))
    for kk, c in stats.items():
        if kk.startswith("dev:"):
            devhits[kk[4:]] = devhits.get(kk[4:], 0) + c
    for dname, cnt in devhits.items():
        f = findings.get(dname)
        if f is None:
            raise ToolError("deviation class %s is not an open finding" % dname)
        v.known(f["id"], "%s: %s (%d vectors of this run inside the class)" % (f["id"], f["what"], cnt))
    # ---- the wire primitives over arbitrary-precision numbers (every 64-bit boundary) ----
    d = vlib.outdir("C17")
    ks = [0, 6, 7, 8, 13, 14, 15, 20, 21, 27, 28, 29, 30, 31, 32, 33, 34, 35, 41, 42, 48, 49, 55, 56, 62, 63, 64] if v.tier == "quick" else list(range(0, 65))
    pvec = os.path.join(d, "protoprim.ndjson")
    tp = vlib.run_tlc("C17", "MC_ProtoPrim", "SPECIFICATION Spec\nCONSTANTS\n  KS = {%s}\n  Small = %d\nINVARIANTS RoundTrip Emit\nCHECK_DEADLOCK FALSE\n"
                      % (", ".join(map(str, ks)), 5 if v.tier == "quick" else 300), replay_to=pvec, coverage=False, heap="4g")
    if tp.violation:
        raise ToolError("ProtoPrim.tla violates its own round trip: " + tp.violation)
    v.add_tlc("MC_ProtoPrim", tp)
    pres = os.path.join(d, "protoprim.res")
    pp = vlib.run_bin("replay", ["protoprim", pvec, pres])
    if pp.returncode != 0:
        raise ToolError("replay protoprim failed: " + pp.stderr[-1000:])
    prows = vlib.read_ndjson(pres)
    if prows[-1]["cases"] != tp.nreplay:
        raise ToolError("protoprim replay incomplete")
    for i, r in enumerate(prows[:-1]):
        v.violation("protobuf primitive %s (%s): %s" % (r["case"]["k"], r["v_dec"], r["why"][:250]), r, "protoprim_%03d.json" % i)
    v.cov["traces_validated_against_impl"] += prows[-1]["cases"]
    v.cov["evaluations"] += prows[-1]["cases"]
    v.cov["protobuf_primitive_cases"] = prows[-1]["cases"]
    v.cov["replay_stats"] = stats
    v.cov["traces_validated_against_impl"] += ncases
    v.cov["evaluations"] += ncases
    v.cov["distinct_nontrivial"] = stats.get("ok", 0)
    v.cov["rule"] = ("ProtoZoo.tla: %d message types covering every integer width / sign class (incl. a range beyond i32 with negative lower bound), "
                     "BOOLEAN, UTF8/IA5 strings, OCTET / BIT STRING, NULL, ENUMERATED (extensible too), nested messages, lists of scalars / "
                     "strings / messages / CHOICEs, CHOICE in CHOICE, OPTIONAL / DEFAULT, extensible SEQUENCE. Values: all presence patterns, "
                     "the all-zero value, and a boundary sweep through every component (varint length classes 127/128 .. 2^28, zig-zag bit 31 at "
                     "+-2^30, i32 extremes, lengths 0/1/127/128/300): %d vectors (distinct TLC states). Real ProtobufWriter with the growable and "
                     "with the fixed-slice back end must produce identical bytes; ProtobufReader must return a value equal to the original up "
                     "to proto3 default equivalence; every case runs under a watchdog / allocation limit. Non-trivial = vectors that round-trip. "
                     "Primitive level (ProtoPrim.tla over arbitrary-precision numbers): varint / uint32 / sint32 / sint64 (zig-zag) / sfixed32 / tag / "
                     "bool at 2^k, 2^k +- 1 for k up to 64 and both signs: the real ProtoWrite must emit exactly the specified octets, ProtoRead must "
                     "return the value and consume exactly these octets."
                     % (len(zoo), t.nvec))
    v.cov["samples"] = vlib.sample_ndjson(vec, 4, v.seed)
    v.cov["checker_cmd"] = "tlc MC_Proto; zoogen + cargo build (zoo_proto); vzoo proto (sandboxed)"
    v.assumptions += ["at the type level 64-bit values beyond 2^31-1 are not in the value family (TLC integers); they are covered at the primitive level (ProtoPrim.tla)"]


def replay(path):
    print(json.dumps(json.load(open(path)), indent=1)[:5000])
    return 0
