"""C17 - protobuf round trip preserves values up to proto3 default equivalence (DESIGN.md section 7, C17)."""
import json, os
import vlib, protolib
from vlib import ToolError


def run(v):
    findings = {f["dev"]: f for f in vlib.known_findings("C17") if f.get("dev")}
    t, zoo, vec, rows, incidents, events, names = protolib.proto_pipeline("C17", v.tier, ("C17",))
    v.add_tlc("MC_Proto", t)
    devhits = {}
    k = 0
    for inc in incidents:
        c = inc["case"]
        if c["dev"]:
            devhits[c["dev"]] = devhits.get(c["dev"], 0) + 1
            continue
        k += 1
        v.violation("protobuf writer/reader did not return: %s [T%d ::= %s]" % (inc["kind"], c["ti"], names.get("T%d" % c["ti"])), inc, "incident_%03d.json" % k)
    stats = {}
    ncases = len(incidents)
    for r in rows:
        if r.get("summary"):
            ncases += r["cases"]
            for kk, c in r["stats"].items():
                stats[kk] = stats.get(kk, 0) + c
            continue
        k += 1
        ti = r["case"]["ti"]
        r["asn1"] = "T%d ::= %s" % (ti, names.get("T%d" % ti))
        if k <= 40:
            v.violation("%s: %s [%s]" % (r["class"], r["why"][:250], r["asn1"][:140]), r, "proto_%03d.json" % k)
    ncases = t.nvec          # the replay walks the file sequentially; every line was executed or is an incident (restart after it)
    stats["ok"] = (sum(1 for _ in open(events)) if os.path.exists(events) else 0) - sum(c for kk, c in stats.items() if kk.startswith("bad:"))
    for kk, c in stats.items():
        if kk.startswith("dev:"):
            devhits[kk[4:]] = devhits.get(kk[4:], 0) + c
    for dname, cnt in devhits.items():
        f = findings.get(dname)
        if f is None:
            raise ToolError("deviation class %s is not an open finding" % dname)
        v.known(f["id"], "%s: %s (%d vectors of this run inside the class)" % (f["id"], f["what"], cnt))
    v.cov["replay_stats"] = stats
    v.cov["traces_validated_against_impl"] += ncases
    v.cov["evaluations"] += ncases
    v.cov["distinct_nontrivial"] = stats.get("ok", 0)
    v.cov["rule"] = ("ProtoZoo.tla: %d message types covering every integer width / sign class (incl. a range beyond i32 with negative lower bound), "
                     "BOOLEAN, UTF8/IA5 strings, OCTET / BIT STRING, NULL, ENUMERATED (extensible too), nested messages, lists of scalars / "
                     "strings / messages / CHOICEs, CHOICE in CHOICE, OPTIONAL / DEFAULT, extensible SEQUENCE. Values: all presence patterns, "
                     "the all-zero value, and a boundary sweep through every component (varint length classes 127/128 .. 2^28, zig-zag bit 31 at "
                     "+-2^30, i32 extremes, lengths 0/1/127/128/300): %d vectors (distinct TLC states). Real ProtobufWriter with the growable and "
                     "with the fixed-slice back end must produce identical bytes; ProtobufReader must return a value equal to the original up "
                     "to proto3 default equivalence; every case runs under a watchdog / allocation limit. Non-trivial = vectors that round-trip."
                     % (len(zoo), t.nvec))
    v.cov["samples"] = vlib.sample_ndjson(vec, 4, v.seed)
    v.cov["checker_cmd"] = "tlc MC_Proto; zoogen + cargo build (zoo_proto); vzoo proto (sandboxed)"
    v.assumptions += ["64-bit values beyond 2^31-1 are not in the value family (TLC integers); the width classes are exercised by their bounds"]


def replay(path):
    print(json.dumps(json.load(open(path)), indent=1)[:5000])
    return 0
