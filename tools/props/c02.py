"""C02 - UPER encodings are bit-exact X.691 within the conformance profile (DESIGN.md sections 4 and 7)."""
import json, os
import vlib, uperlib
from vlib import ToolError


def run(v):
    t, zoo, vec, summ, ssum = uperlib.uper_check(
        v, "C02", classes={"bits", "read-reference", "refused-valid", "write-panic", "dev-mismatch"})
    st = summ["stats"]
    v.cov["distinct_nontrivial"] = st.get("encoded", 0)
    v.cov["rule"] = ("TLC (MC_Uper over Zoo.tla/X691.tla) enumerates every type of the zoo (%d types: all constraint forms of every "
                     "builtin type, lists, all SEQUENCE shapes with <= N components x modes x marker positions, leaf-class variations, "
                     "CHOICE/ENUMERATED with extensions, nesting, large lengths in every fragment class) x its bounded value family and "
                     "computes Enc(t, v). The zoo is compiled from ASN.1 text by the real asn_to_rust! macro. Per vector: writer bits == "
                     "Enc(t, v) and the real reader fed the REFERENCE bits (not the writer's) returns v and stops exactly at the end. "
                     "Non-trivial = vectors actually encoded (value representable and valid), each a distinct TLC state." % len(zoo))
    v.cov["samples"] = vlib.sample_ndjson(vec, 5, v.seed, lambda r: r["ok"] and len(r["bits"]) < 200)
    v.cov["checker_cmd"] = "tlc MC_Uper; tools/zoogen.py; cargo build (zoo); vzoo uper"
    v.assumptions += ["X691.tla / X691Prim.tla are a faithful reading of X.691 (validated against the repository's third-party fixtures by "
                      "Trace_Fixtures, see C02 fixtures step)",
                      "conformance profile as in DESIGN.md section 4; unconstrained INTEGER values are non-negative because the generated type is u64"]
    fixtures(v)


def fixtures(v):
    """The specification must reproduce the repository's third-party expectations before it may judge the code."""
    import fixtures as fx
    fx.check(v)


def replay(path):
    art = json.load(open(path))
    print(json.dumps(art, indent=1)[:4000])
    return 0
