"""C03 - OPTIONAL/DEFAULT/extension presence semantics for every SEQUENCE/SET shape (DESIGN.md section 7, C03)."""
import json
import vlib, uperlib


def run(v):
    t, zoo, vec, summ, ssum = uperlib.uper_check(
        v, "C03", classes={"bits", "read-reference", "roundtrip", "refused-valid", "refuse-kind", "accepted-inconsistent", "write-panic"},
        only_kind="seq", with_trace=True)
    nshapes = sum(1 for z in zoo.values() if z["k"] == "seq")
    npat = 0
    for l in open(vec):
        r = json.loads(l)
        if zoo[r["ti"]]["k"] == "seq":
            npat += 1
    v.cov["distinct_nontrivial"] = npat
    v.cov["shapes"] = nshapes
    v.cov["exhaustive"] = True
    v.cov["rule"] = ("Bounded-exhaustive as the property quantifies: Zoo!ShapesUpTo(N) = ALL SEQUENCE shapes with <= N components (N = %d) x "
                     "{mandatory, OPTIONAL, DEFAULT}^n x marker position (none or after component i), plus leaf-class variations (NULL, nested "
                     "extensible SEQUENCE, CHOICE, SEQUENCE OF, empty encoding) and nested cases: %d shapes, ALL presence patterns of each "
                     "(%d patterns; DEFAULT components take {= default, /= default}). TLC checks on the reference bits that the preamble is "
                     "the extension bit followed by one presence bit per OPTIONAL/DEFAULT root component in order (invariant RefOk); the "
                     "real writer must produce exactly those bits, the real reader must decode them to the same pattern, and the writer "
                     "must refuse exactly the inconsistent patterns (first addition absent, later present) with ExtensionFieldsInconsistent."
                     % (3 if v.tier == "quick" else 4, nshapes, npat))
    v.cov["samples"] = vlib.sample_ndjson(vec, 6, v.seed, lambda r: zoo[r["ti"]]["k"] == "seq")
    v.cov["checker_cmd"] = "tlc MC_Uper (RefOk); tools/zoogen.py; cargo build (zoo); vzoo uper"
    v.assumptions += ["leaf type of the exhaustive shapes is INTEGER(0..7) with a distinct value per position",
                      "SET shapes with non-textual order are covered by C16"]


def replay(path):
    print(json.dumps(json.load(open(path)), indent=1)[:4000])
    return 0
