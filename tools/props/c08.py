"""C08 - generated Rust code carries the whole model; codegen is invertible (DESIGN.md section 7, C08)."""
import glob, json, os, re
import vlib, felib, asnprint
from vlib import cargo_build, outdir, ToolError
from props import c07, c13

DEVS = ["MinBoundTreatedAsZero", "ReparseDefaultIntegerLosesNamedNumbers", "ReparseWrapperOfReferenceGainsTag", "ExtensibleEmptySequence"]


def ext_empty(case):
    """SEQUENCE { ... } / SET { ... }: extensible, no root component (input class of F-EXTENSIBLE-EMPTY-SEQUENCE)."""
    t = case["ast"]["t"]
    return t.get("k") == "seq" and not t["comps"] and t["extAfter"] == 0


def normalise_choice_tag(rust, reparsed):
    """'modulo the macro's derived default tag of an untagged CHOICE': if the generator's DataEnum has tag None, ignore that field."""
    # a DEFAULT enumerated literal is carried by its Rust variant name in the generated code: compare modulo the name mangling
    mangle = lambda m: 'EnumeratedVariant("%s", "%s")' % (m.group(1), re.sub(r"[-_]", "", m.group(2)).lower())
    rust = re.sub(r'EnumeratedVariant\("([\w-]+)", "([\w-]+)"\)', mangle, rust)
    reparsed = re.sub(r'EnumeratedVariant\("([\w-]+)", "([\w-]+)"\)', mangle, reparsed)
    m = re.search(r"DataEnum\(Enumeration \{.*, tag: None, extended_after_index: ", rust, re.S)
    if m:
        reparsed = re.sub(r"(DataEnum\(Enumeration \{.*), tag: Some\([A-Za-z]+\(\d+\)\), (extended_after_index: )", r"\1, tag: None, \2", reparsed, flags=re.S)
    return rust, reparsed


def cap(name):
    return name[0].upper() + name[1:]


def const_blocks(expanded):
    """{(struct name, constraint kind): {const name: value text}} from the macro expansion."""
    res = {}
    for m in re.finditer(r"impl :: asn1rs :: descriptor :: (\w+) :: Constraint[^{]*?for (\S+) \{(.*?)\}(?= impl| # \[doc|$)", expanded, re.S):
        kind, who, body = m.group(1), m.group(2), m.group(3)
        consts = {}
        for c in re.finditer(r"const (\w+) : [^=]*= ([^;]*) ;", body):
            consts[c.group(1)] = c.group(2).strip()
        res[(who, kind)] = consts
    return res


def opt_num(txt):
    if txt is None or txt == "None":
        return None
    m = re.match(r"Some \((- ?)?(\d+)\)", txt)
    return (-1 if m.group(1) else 1) * int(m.group(2)) if m else "?" + txt


def check_consts(name, consts, expanded):
    """Compares Grammar!Consts with the constants in the expansion; returns a list of differences."""
    blocks = const_blocks(expanded)
    diffs = []
    k = consts["kind"]
    top_kind = {"seq": "set" if consts["set"] else "sequence", "choice": "choice", "enum": "enumerated", "wrapper": "sequence"}[k]
    top = blocks.get((name, top_kind))
    if top is None:
        return ["no %s::Constraint impl for %s" % (top_kind, name)]
    if k in ("seq", "wrapper"):
        exp = {"STD_OPTIONAL_FIELDS": str(consts["stdOptionalFields"]), "FIELD_COUNT": str(consts["fieldCount"]),
               "EXTENDED_AFTER_FIELD": "None" if consts["extendedAfterField"] < 0 else "Some (%d)" % consts["extendedAfterField"]}
    else:
        exp = {"EXTENSIBLE": "true" if consts["ext"] else "false", "STD_VARIANT_COUNT": str(consts["stdVariantCount"]), "VARIANT_COUNT": str(consts["variantCount"])}
    for cn, cv in exp.items():
        if top.get(cn) != cv:
            diffs.append("%s::%s = %s, source says %s" % (name, cn, top.get(cn), cv))
    isdef = {x["field"] for x in consts["defaults"]}
    I64MAX, I64MIN = 9223372036854775807, -9223372036854775808
    for x in consts["defaults"]:
        who = "___asn1rs_%sField%sConstraint" % (name, cap(x["field"]))
        b = blocks.get((who, "default"))
        if b is None:
            diffs.append("no default::Constraint impl for %s" % who)
            continue
        got = (b.get("DEFAULT_VALUE") or "").replace(" ", "")
        lit = x["lit"]
        want = {"int": lambda: "&%d" % lit["v"], "bool": lambda: "&%s" % ("true" if lit["v"] else "false"),
                "str": lambda: '&"%s"' % "".join(chr(c) for c in lit["v"]).replace("\\", "\\\\").replace('"', '\\"'), "enum": lambda: None}[lit["k"]]()
        if want is not None and got != want:
            diffs.append("%s::DEFAULT_VALUE = %s, source says %s" % (who, got, want))
    for e in consts["pos"]:
        who = "___asn1rs_%sField%s%s%sConstraint" % (name, cap(e["field"]), "Value" if e["field"] in isdef else "", "Values" * e["depth"])
        b = blocks.get((who, e["kind"]))
        if b is None:
            diffs.append("no %s::Constraint impl for %s" % (e["kind"], who))
            continue
        gmin, gmax = opt_num(b.get("MIN")), opt_num(b.get("MAX"))
        emin = e["min"] if e["hasMin"] else None
        emax = e["max"] if e["hasMax"] else None
        if emax == -1 and e["kind"] != "numbers":
            emax = I64MAX   # SIZE(n..MAX): the generator writes MAX as i64::MAX
        # the Rust model has no open-ended range: MAX is carried as i64::MAX (and MIN as i64::MIN); same set of 64-bit values
        if emax is None and gmax == I64MAX and e["kind"] == "numbers":
            gmax = None
        if emin is None and gmin == I64MIN and e["kind"] == "numbers":
            gmin = None
        gext = b.get("EXTENSIBLE")
        if gmin != emin or gmax != emax or gext != ("true" if e["ext"] else "false"):
            diffs.append("%s: MIN=%s MAX=%s EXTENSIBLE=%s, source constraint says MIN=%s MAX=%s EXTENSIBLE=%s" % (
                who, gmin, gmax, gext, emin, emax, "true" if e["ext"] else "false"))
    return diffs


def dev_class(case, dev):
    """Input classes of the open findings of this property."""
    a = json.dumps(case["ast"])
    cls = set()
    if "ExtensibleEmptySequence" in dev and ext_empty(case):
        cls.add("ExtensibleEmptySequence")
    if "MinBoundTreatedAsZero" in dev and re.search(r'"hasLb": false, [^{}]*"hasUb": true', json.dumps(case["ast"], sort_keys=True)):
        cls.add("MinBoundTreatedAsZero")
    t = case["ast"]["t"]
    if "ReparseDefaultIntegerLosesNamedNumbers" in dev and t["k"] == "seq" and any(
            c["mode"] == "def" and c["t"]["k"] == "int" and c["t"]["named"] for c in t["comps"]):
        cls.add("ReparseDefaultIntegerLosesNamedNumbers")
    return cls


def big_bounds(v, d, report, tier):
    """INTEGER constraints with bounds of every magnitude up to 64 bits (IntMap.tla / MC_IntMap, numbers over Big.tla, which
    TLC's own integers cannot carry): model round trip, and MIN / MAX / EXTENSIBLE of the expansion equal the declared bounds."""
    from props import c15
    ks = [0, 1, 7, 8, 15, 16, 31, 32, 33, 47, 62] if tier == "quick" else list(range(0, 63, 3)) + [31, 32, 62]
    vec = os.path.join(d, "intmap.ndjson")
    t = vlib.run_tlc("C08", "MC_IntMap", "SPECIFICATION Spec\nCONSTANTS\n  Dev = {}\n  KS = {%s}\n  Small = 2\nINVARIANTS Sound Emit\nCHECK_DEADLOCK FALSE\n"
                     % ", ".join(map(str, sorted(set(ks)))), replay_to=vec, coverage=False, heap="4g", timeout=3600)
    if t.violation:
        raise ToolError("IntMap.tla: " + t.violation)
    v.add_tlc("MC_IntMap", t)
    cases = vlib.read_ndjson(vec)
    if not cases or len(cases) != t.nreplay:
        raise ToolError("MC_IntMap printed nothing")
    I64MAX, I64MIN = 9223372036854775807, -9223372036854775808
    n = 0
    for lo in range(0, len(cases), 400):
        chunk = cases[lo:lo + 400]
        asn = "Bb DEFINITIONS AUTOMATIC TAGS ::= BEGIN\n" + "\n".join("B%d ::= %s" % (i + 1, c15.constraint_text(c)) for i, c in enumerate(chunk)) + "\nEND\n"
        rows = felib.pipeline([asn], d, tag="bb_%d" % lo)
        if isinstance(rows, dict) or (rows and "error" in rows[0]):
            report(None, "the pipeline fails on a module of INTEGER definitions: %s" % str(rows)[:300], {"module": asn, "result": rows}, "bigmodule_%03d.json")
            continue
        by = {r["name"]: r for r in rows}
        for i, c in enumerate(chunk):
            nm = "B%d" % (i + 1)
            lb = c15.big(c["lb"]) if c["hasLb"] else None
            ub = c15.big(c["ub"]) if c["hasUb"] else None
            txt = "%s ::= %s" % (nm, c15.constraint_text(c))
            # the pseudo definition the deviation classes are decided on (dev_class looks at hasLb / hasUb)
            case = {"ast": {"name": nm, "t": {"k": "int", "hasLb": c["hasLb"], "hasUb": c["hasUb"], "ext": c["ext"], "named": []}}}
            r = by.get(nm)
            n += 1
            if r is None:
                report(case, "no generated definition for %s" % txt, {"asn1": txt}, "bigmissing_%03d.json")
                continue
            if r["reparsed"].startswith("ERROR") or r["expanded"].startswith("ERROR"):
                report(case, "the attribute parser / expansion fails for %s: %s" % (txt, (r["reparsed"] + r["expanded"])[:200]),
                       {"asn1": txt, "generated": r["generated"]}, "bigreparse_%03d.json")
                continue
            # "same constraints": an upper bound of MAX is carried as None by the generator's model and as the number 2^63 - 1 by the
            # attribute parser ("..max") - the same set of values of the 64-bit types (see DESIGN.md 11.4)
            open_max = lambda s: re.sub(r"((?:U64|I64)\(Range\((?:Some\(-?\d+\)|None), )None(, (?:true|false)\)\))", r"\1Some(9223372036854775807)\2", s)
            if open_max(r["rust"]) != open_max(r["reparsed"]):
                report(case, "re-parsed Rust model differs from the generator's model for %s" % txt,
                       {"asn1": txt, "generated": r["generated"], "generator_model": r["rust"], "reparsed_model": r["reparsed"]}, "bigmodel_%03d.json")
                continue
            # the model has no open-ended range: (0..MAX), (MIN..MAX) and their spellings with the 64-bit limits are "no constraint"
            whole = (lb in (None, 0, I64MIN)) and (ub in (None, I64MAX))
            consts = {"kind": "wrapper", "set": False, "stdOptionalFields": 0, "fieldCount": 1, "extendedAfterField": -1, "defaults": [],
                      "pos": [{"field": "0", "depth": 0, "kind": "numbers", "hasMin": lb is not None and not whole, "min": lb or 0,
                               "hasMax": ub is not None and not whole, "max": ub or 0, "ext": c["ext"]}]}
            diffs = check_consts(nm, consts, r["expanded"])
            if diffs:
                report(case, "descriptor constants differ from the source constraint of %s: %s" % (txt, "; ".join(diffs)[:300]),
                       {"asn1": txt, "expected": consts, "differences": diffs, "generated": r["generated"]}, "bigconsts_%03d.json")
    return n


def run(v):
    d = outdir("C08")
    dev = vlib.dev_set("C08", DEVS)
    findings = {f["dev"]: f for f in vlib.known_findings("C08") if f.get("dev")}
    t, cases = c07.grammar_cases("C08", v.tier)
    v.add_tlc("MC_Grammar", t)
    cargo_build()
    # the definitions inside the class of the open finding crash the generator: they get a module of their own
    apart = [c for c in cases if ext_empty(c)] if "ExtensibleEmptySequence" in dev else []
    mods = c07.modules_of([c for c in cases if c not in apart], d, "Gm")
    if apart:
        mods += c07.modules_of(apart, d, "Gx")
    nbad = checked = nsub = ndeep = 0
    devhits = {}
    seen_subs = set()

    def report(case, why, art, name):
        nonlocal nbad
        cls = dev_class(case, dev) if case else set()
        if cls:
            for c in cls:
                devhits[c] = devhits.get(c, 0) + 1
            return
        nbad += 1
        if nbad <= 40:
            v.violation(why, art, name % nbad)

    for f, name, chunk in mods:
        rows = felib.pipeline([open(f).read()], d, tag="c08_" + name)
        if isinstance(rows, dict) or (rows and "error" in rows[0]):
            if name.startswith("Gx") and "index out of bounds" in str(rows):
                devhits["ExtensibleEmptySequence"] = devhits.get("ExtensibleEmptySequence", 0) + len(chunk)
                continue
            report(None, "the generator / attribute pipeline fails on module %s: %s" % (name, str(rows)[:300]), {"module": open(f).read(), "result": rows}, "module_%03d.json")
            continue
        by = {r["name"]: r for r in rows}
        for c in chunk:
            nm = c["ast"]["name"]
            r = by.get(nm)
            checked += 1
            txt = asnprint.definition(c["ast"])
            if r is None:
                report(c, "no generated definition for %s" % txt, {"asn1": txt}, "missing_%03d.json")
                continue
            if r["reparsed"].startswith("ERROR"):
                report(c, "the attribute parser cannot read the generated code of %s: %s" % (txt, r["reparsed"][:200]),
                       {"asn1": txt, "generated": r["generated"], "error": r["reparsed"]}, "reparse_%03d.json")
                continue
            a, b = normalise_choice_tag(r["rust"], r["reparsed"])
            if a != b:
                report(c, "re-parsed Rust model differs from the generator's model for %s" % txt,
                       {"asn1": txt, "generated": r["generated"], "generator_model": r["rust"], "reparsed_model": r["reparsed"]}, "model_%03d.json")
                continue
            if r["expanded"].startswith("ERROR"):
                report(c, "macro expansion fails for %s: %s" % (txt, r["expanded"][:200]), {"asn1": txt, "error": r["expanded"]}, "expand_%03d.json")
                continue
            diffs = check_consts(nm, c["consts"], r["expanded"])
            if diffs:
                report(c, "descriptor constants differ from the source constraints of %s: %s" % (txt, "; ".join(diffs)[:300]),
                       {"asn1": txt, "expected": c["consts"], "differences": diffs, "generated": r["generated"]}, "consts_%03d.json")
            # the definitions the generator extracts from the inline structured members of this definition
            for sub in c.get("subs", []):
                rows_named = [x for x in rows if x["name"] == sub["name"]]
                nsub += 1
                if len(rows_named) != 1:
                    report(c, "%d generated definitions named %s for the inline type of %s" % (len(rows_named), sub["name"], txt),
                           {"asn1": txt, "names": [x["name"] for x in rows]}, "sub_%03d.json")
                    continue
                rs = rows_named[0]
                seen_subs.add(sub["name"])
                if rs["reparsed"].startswith("ERROR") or rs["expanded"].startswith("ERROR"):
                    report(c, "the attribute parser / expansion fails for the extracted %s of %s: %s" % (sub["name"], txt, (rs["reparsed"] + rs["expanded"])[:200]),
                           {"asn1": txt, "generated": rs["generated"]}, "sub_%03d.json")
                    continue
                a, b = normalise_choice_tag(rs["rust"], rs["reparsed"])
                if a != b:
                    report(c, "re-parsed Rust model differs from the generator's model for the extracted %s of %s" % (sub["name"], txt),
                           {"asn1": txt, "generated": rs["generated"], "generator_model": rs["rust"], "reparsed_model": rs["reparsed"]}, "sub_%03d.json")
                    continue
                diffs = check_consts(sub["name"], sub["consts"], rs["expanded"])
                if diffs:
                    report(c, "descriptor constants of the extracted %s differ from the inline type in %s: %s" % (sub["name"], txt, "; ".join(diffs)[:300]),
                           {"asn1": txt, "expected": sub["consts"], "differences": diffs, "generated": rs["generated"]}, "sub_%03d.json")
        # ... and every other definition the generator made (inline types extracted from inline types): model round trip and
        # expansion; their constants are not predicted by Grammar!SubsOf (depth 1), the owner is the definition whose name leads
        matched = {c["ast"]["name"] for c in chunk} | {s["name"] for c in chunk for s in c.get("subs", [])}
        owners = sorted(chunk, key=lambda c: -len(c["ast"]["name"]))
        for r in rows:
            if r["name"] in matched or r["name"] in asnprint.PREAMBLE_NAMES:
                continue
            owner = next((c for c in owners if r["name"].startswith(c["ast"]["name"])), None)
            ndeep += 1
            if r["reparsed"].startswith("ERROR") or r["expanded"].startswith("ERROR"):
                report(owner, "the attribute parser / expansion fails for the generated definition %s: %s" % (r["name"], (r["reparsed"] + r["expanded"])[:200]),
                       {"generated": r["generated"], "owner": owner and asnprint.definition(owner["ast"])}, "deep_%03d.json")
                continue
            a, b = normalise_choice_tag(r["rust"], r["reparsed"])
            if a != b:
                report(owner, "re-parsed Rust model differs from the generator's model for the generated definition %s" % r["name"],
                       {"generated": r["generated"], "generator_model": r["rust"], "reparsed_model": r["reparsed"],
                        "owner": owner and asnprint.definition(owner["ast"])}, "deep_%03d.json")
    nbig = big_bounds(v, d, report, v.tier)
    checked += nbig
    v.cov["big_bound_definitions"] = nbig
    # ---- the mutation-free corpus of the repository's own test modules: model round trip only ----
    ncorpus = 0
    for i, text in enumerate(c13.corpus()):
        rows = felib.pipeline([text], d, tag="corpus_%d" % i)
        if isinstance(rows, dict) or (rows and "error" in rows[0]):
            continue        # needs sibling modules or is rejected: not this property's subject
        for r in rows:
            ncorpus += 1
            if r["reparsed"].startswith("ERROR"):
                report(None, "corpus: attribute parser cannot read the generated code of %s: %s" % (r["name"], r["reparsed"][:200]),
                       {"generated": r["generated"], "error": r["reparsed"]}, "corpus_%03d.json")
                continue
            a, b = normalise_choice_tag(r["rust"], r["reparsed"])
            if a != b and "ReparseWrapperOfReferenceGainsTag" in dev and re.search(r"TupleStruct \{ type: Complex\(.*\), tag: None, constants", a):
                # open finding, delimited exactly: only the definition-level tag may differ
                b2 = re.sub(r"(TupleStruct \{ type: Complex\(.*\)), tag: Some\([A-Za-z]+\(\d+\)\), constants", r"\1, tag: None, constants", b)
                if a == b2:
                    devhits["ReparseWrapperOfReferenceGainsTag"] = devhits.get("ReparseWrapperOfReferenceGainsTag", 0) + 1
                    continue
            if a != b:
                report(None, "corpus: re-parsed Rust model differs for %s" % r["name"], {"generated": r["generated"], "generator_model": a, "reparsed_model": b}, "corpus_%03d.json")
    for dname, cnt in devhits.items():
        f = findings.get(dname)
        if f is None:
            raise ToolError("deviation class %s is not an open finding" % dname)
        v.known(f["id"], "%s: %s (%d definitions of this run inside the class)" % (f["id"], f["what"], cnt))
    v.cov["traces_validated_against_impl"] += checked + ncorpus
    v.cov["evaluations"] += checked + ncorpus
    v.cov["distinct_nontrivial"] = len(cases)
    v.cov["corpus_definitions"] = ncorpus
    v.cov["extracted_inline_definitions"] = nsub
    v.cov["other_generated_definitions"] = ndeep
    v.cov["rule"] = ("The %d definitions of Grammar.tla (see C07) and %d definitions of the repository's own test modules go through the real "
                     "pipeline at run time: parse -> resolve -> Model<Rust> -> generated Rust text -> attribute parser -> Model<Rust>; the two "
                     "Rust models must be equal per definition (Debug text; the derived tag of an untagged CHOICE is ignored). Then the macro "
                     "expansion text is scanned: MIN / MAX / EXTENSIBLE of every constrained position (incl. nested SEQUENCE OF), "
                     "STD_OPTIONAL_FIELDS / FIELD_COUNT / EXTENDED_AFTER_FIELD, VARIANT_COUNT / STD_VARIANT_COUNT / EXTENSIBLE must equal "
                     "Grammar!Consts computed by TLC from the SOURCE abstract syntax - also for the %d definitions the generator extracts from "
                     "inline structured members (Grammar!SubsOf: name = parent + member, exactly one definition of that name)." % (len(cases), ncorpus, nsub))
    v.cov["samples"] = [{"asn1": asnprint.definition(c["ast"]), "consts": c["consts"]} for c in cases[11::max(1, len(cases) // 4)][:4]]
    v.cov["checker_cmd"] = "tlc MC_Grammar (Consts); harness frontend pipeline"
    v.assumptions += ["tags of SET components / wire order are C16's subject", "Debug text equality is used as model equality"]


def replay(path):
    print(json.dumps(json.load(open(path)), indent=1)[:6000])
    return 0
