"""C14 - the front end is total: malformed text gives an error, not a panic or hang (DESIGN.md section 7, C14)."""
import json, os, subprocess, resource
import vlib, asnprint
from vlib import run_tlc, cargo_build, outdir, ToolError
from props import c13

VOCAB = ["::=", "SEQUENCE", "SET", "OF", "CHOICE", "ENUMERATED", "INTEGER", "BOOLEAN", "NULL", "OCTET", "BIT", "STRING", "UTF8String", "IA5String",
         "SIZE", "OPTIONAL", "DEFAULT", "DEFINITIONS", "AUTOMATIC", "TAGS", "BEGIN", "END", "IMPORTS", "FROM", "MIN", "MAX", "TRUE", "FALSE",
         "{", "}", "(", ")", "[", "]", ",", ";", ".", "..", "...", "0", "-1", "7", "x", "Tt", "\"", "'", "APPLICATION", "WITH"]
# ... and every other reserved word of X.680 (11.27): a front end that knows a word only half may do anything with it
VOCAB += ["ABSENT", "ABSTRACT-SYNTAX", "ALL", "BMPString", "BY", "CHARACTER", "CLASS", "COMPONENT", "COMPONENTS", "CONSTRAINED", "CONTAINING",
          "DATE", "DATE-TIME", "DURATION", "EMBEDDED", "ENCODED", "ENCODING-CONTROL", "EXCEPT", "EXPLICIT", "EXPORTS", "EXTENSIBILITY", "EXTERNAL",
          "GeneralizedTime", "GeneralString", "GraphicString", "IDENTIFIER", "IMPLICIT", "IMPLIED", "INCLUDES", "INSTANCE", "INSTRUCTIONS",
          "INTERSECTION", "ISO646String", "MINUS-INFINITY", "NOT-A-NUMBER", "NumericString", "OBJECT", "ObjectDescriptor", "OID-IRI", "PATTERN",
          "PDV", "PLUS-INFINITY", "PRESENT", "PrintableString", "PRIVATE", "REAL", "RELATIVE-OID", "RELATIVE-OID-IRI", "SETTINGS", "SYNTAX",
          "T61String", "TeletexString", "TIME", "TIME-OF-DAY", "TYPE-IDENTIFIER", "UNION", "UNIQUE", "UNIVERSAL", "UniversalString", "UTCTime",
          "VideotexString", "VisibleString"]

SEEDS = [
    # component lists at their smallest: no component, nothing but the extension marker, the marker in front of everything
    "Seed5 DEFINITIONS AUTOMATIC TAGS ::= BEGIN E0 ::= SEQUENCE { } E1 ::= SEQUENCE { ... } E2 ::= SET { ... } E3 ::= SEQUENCE { ..., late BOOLEAN OPTIONAL }\n"
    " E4 ::= SEQUENCE { only BOOLEAN, ... } E5 ::= SEQUENCE { in SEQUENCE { ... }, c CHOICE { a NULL, ... }, e ENUMERATED { x, ... } } END",
    # block comments over several lines (nested, too) in front of, inside and behind the module: the documented panic is for
    # UNTERMINATED comments only, whatever blank lines a fault puts around these
    "/* header\n over two lines */\nSeed4 DEFINITIONS AUTOMATIC TAGS ::= BEGIN\n A ::= SEQUENCE { a INTEGER (0..7), /* inner\n comment /* nested\n one */ goes\n on */ b BOOLEAN }\n /* in front\n of the end */\nEND\n/* footer\n of two lines */",
    # literals of every kind (hex / binary / character strings, negative numbers) as values and as DEFAULT
    "Seed3 DEFINITIONS AUTOMATIC TAGS ::= BEGIN h OCTET STRING ::= 'AB12'H n INTEGER ::= -12 t UTF8String ::= \"a b\" f BOOLEAN ::= FALSE\n L ::= SEQUENCE { a OCTET STRING DEFAULT 'CF'H, b INTEGER (-5..5) DEFAULT -3, c IA5String DEFAULT \"x\", d BOOLEAN DEFAULT TRUE, e OCTET STRING (SIZE(2)) DEFAULT h } END",
    "Seed1 DEFINITIONS AUTOMATIC TAGS ::= BEGIN A ::= SEQUENCE { a INTEGER (0..7) OPTIONAL, b UTF8String DEFAULT \"hello world\",\n ..., c [APPLICATION 3] BOOLEAN } B ::= CHOICE { x A, y NULL, ..., z OCTET STRING (SIZE(1..4,...)) } END",
    "Seed2 { iso(1) org(3) 7 } DEFINITIONS AUTOMATIC TAGS ::= BEGIN IMPORTS K, v FROM Other { iso(1) 9 };\n lim INTEGER ::= 5  s UTF8String ::= \"a b\"\n E ::= ENUMERATED { red, green(5), ..., blue } L ::= SEQUENCE (SIZE(1..lim)) OF E\n I ::= INTEGER { one(1), two(2) } (MIN..lim,...) H ::= OCTET STRING (SIZE(2))  D ::= SET { e E DEFAULT red, h BIT STRING { f(0) } (SIZE(4)) } END",
]


def seeds(tier):
    mods = list(SEEDS)
    corp = c13.corpus()
    corp = [m for m in corp if len(m) < 2500]
    mods += corp[:4] if tier == "quick" else corp[:30]
    return mods


def run_front(spec, res, progress, timeout=4 * 3600):
    incidents = []
    start = 0
    allrows = []
    exe = os.path.join(vlib.bin_dir(), "replay")
    for attempt in range(100):
        def lim():
            resource.setrlimit(resource.RLIMIT_AS, (2 << 30, 2 << 30))
            resource.setrlimit(resource.RLIMIT_CORE, (0, 0))
        e = dict(os.environ)
        e["RUST_BACKTRACE"] = "0"
        p = subprocess.run([exe, "frontfault", spec, res, "start=%d" % start], stdout=subprocess.PIPE, stderr=subprocess.PIPE, text=True, env=e,
                           preexec_fn=lim, timeout=timeout)
        rows = vlib.read_ndjson(res) if os.path.exists(res) else []
        if p.returncode == 0:
            return allrows + rows, incidents
        try:
            idx = int(open(progress).read().strip())
        except Exception:
            raise ToolError("frontfault replay died without progress information: " + p.stderr[-500:])
        incidents.append({"case_line": idx, "kind": "hang (watchdog 5 s)" if p.returncode == 3 else "abort (exit %d): %s" % (p.returncode, p.stderr.strip()[-200:])})
        allrows += [r for r in rows if not r.get("summary")]
        start = idx + 1
    raise ToolError("too many hangs/aborts")


def run(v):
    quick = v.tier == "quick"
    d = outdir("C14")
    mods = seeds(v.tier)
    cargo_build()
    # sizes of the seeds decide the bounds of the fault descriptors
    maxchar = max(len(m) for m in mods)
    maxtok = max(len(m.split()) for m in mods) * 3
    vec = os.path.join(d, "faults.ndjson")
    K = 2 if quick else 3
    cfg = "SPECIFICATION Spec\nCONSTANTS\n  MaxTok = %d\n  MaxChar = %d\n  V = %d\n  VC = 24\n  K = %d\n  MaxFaults = %d\nINVARIANT Emit\nCHECK_DEADLOCK FALSE\n"
    t = run_tlc("C14", "MC_TokenFaults", cfg % (min(maxtok, 400), min(maxchar, 2500), len(VOCAB), K, 0), replay_to=vec, coverage=False, heap="8g", timeout=3600)
    if t.violation or t.nreplay == 0:
        raise ToolError("MC_TokenFaults: %s" % t.violation)
    v.add_tlc("MC_TokenFaults", t)
    # 1..4 fault sequences: behaviours of the fault machine drawn by simulation (seeded)
    sim = os.path.join(d, "faults_sim.ndjson")
    nsim = 40 if quick else 2000
    ts = run_tlc("C14", "MC_TokenFaults", cfg % (min(maxtok, 400), min(maxchar, 2500), len(VOCAB), K, 4), tag="sim", workers=1, simulate="num=%d" % nsim,
                 replay_to=sim, coverage=False, heap="2g", extra=["-depth", "5", "-seed", str(v.seed)])
    seen = set()
    with open(vec, "a") as o:
        # ... and the seed modules as they stand (no fault at all): valid input is input, too
        o.write(json.dumps({"faults": [], "soup": []}) + "\n")
        for l in open(sim):
            if l not in seen:
                seen.add(l)
                o.write(l)
    # the replay is sharded over processes (each with its own watchdog / progress file)
    from concurrent.futures import ThreadPoolExecutor
    NSH = 12
    shard_files = [open(os.path.join(d, "shard_%d.ndjson" % i), "w") for i in range(NSH)]
    for i, l in enumerate(open(vec)):
        shard_files[i % NSH].write(l)
    for f in shard_files:
        f.close()

    def one(i):
        spec = os.path.join(d, "frontfault_%d.json" % i)
        progress = os.path.join(d, "progress_%d" % i)
        json.dump({"modules": mods, "vocab": VOCAB, "cases": os.path.join(d, "shard_%d.ndjson" % i), "progress": progress}, open(spec, "w"))
        rows, inc = run_front(spec, os.path.join(d, "frontfault_%d.res" % i), progress)
        for x in inc:
            x["case"] = open(os.path.join(d, "shard_%d.ndjson" % i)).read().splitlines()[x["case_line"]]
        return rows, inc

    rows, incidents = [], []
    with ThreadPoolExecutor(max_workers=NSH) as ex:
        for r, inc in ex.map(one, range(NSH)):
            rows += r
            incidents += inc
    summs = [r for r in rows if r.get("summary")]
    k = 0
    for r in rows:
        if r.get("summary"):
            continue
        k += 1
        if k <= 30:
            v.violation("front end is not total: %s [fault %s on seed module %s]" % (r["why"][:250], json.dumps(r["case"])[:120], r["module"]), r, "front_%03d.json" % k)
    for i, inc in enumerate(incidents):
        v.violation("front end did not return: %s on fault %s" % (inc["kind"], inc["case"][:150]), inc, "incident_%03d.json" % i)
    stats = {}
    for s in summs:
        for kk, c in s["stats"].items():
            stats[kk] = stats.get(kk, 0) + c
    texts = sum(s["texts"] for s in summs)
    v.level = "fault_enumeration"
    v.cov["replay_stats"] = stats
    v.cov["traces_validated_against_impl"] += texts
    v.cov["evaluations"] += texts
    v.cov["distinct_nontrivial"] = t.nreplay + len(seen)
    v.cov["rule"] = ("MC_TokenFaults.tla generates the fault descriptors: every single deletion / swap / truncation of a lexical item, insertion of each "
                     "of %d vocabulary items at every position, deletion of every character and insertion of each of 24 characters (incl. 2-, 3- and 4-octet ones) at every "
                     "position, all token soups of length <= %d over the vocabulary (one TLC state each), and %d simulated behaviours of 1..4 "
                     "faults (seeded). Every descriptor is applied to each of %d seed modules (2 feature-rich hand-written ones + modules of the "
                     "repository's tests): %d mutated texts run through tokenizer, parser, resolver, Rust and protobuf model conversion under a "
                     "5 s watchdog. Violations: a panic other than the documented unclosed-comment panic, a hang / abort, a parse error without "
                     "a token (except end-of-stream / missing module name), or an error token that is not at its reported location of the input."
                     % (len(VOCAB), K, nsim, len(mods), texts))
    v.cov["samples"] = vlib.sample_ndjson(vec, 5, v.seed)
    v.cov["checker_cmd"] = "tlc MC_TokenFaults (exhaustive + -simulate); harness replay frontfault (watchdog)"
    v.assumptions += ["the specification supplies the input space and fault histories; it does not predict Ok vs Err for mutated text",
                      "'terminates' is observed under a watchdog, not proved"]


def replay(path):
    print(json.dumps(json.load(open(path)), indent=1)[:5000])
    return 0
