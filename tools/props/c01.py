"""C01 - UPER round trip: decode(encode(v)) == v, exact bit consumption, back-to-back messages (DESIGN.md section 7, C01)."""
import json
import vlib, uperlib


def run(v):
    t, zoo, vec, summ, ssum = uperlib.uper_check(v, "C01", classes={"roundtrip", "stream", "write-panic", "dev-mismatch"}, with_stream=True, with_trace=True)
    st = summ["stats"]
    v.cov["distinct_nontrivial"] = st.get("encoded", 0)
    v.cov["rule"] = ("Every (type, value) vector of the TLA+ zoo (MC_Uper; %d types compiled by the real asn_to_rust! macro, large lengths in "
                     "every fragment class included) is written by the real UperWriter; whenever that succeeds the real UperReader must "
                     "return the value and consume exactly the written bits (a 4-bit sentinel follows every message). Histories: %d "
                     "sequences of 3 values of mixed types written back-to-back into ONE writer and read from ONE reader; the stream must "
                     "equal the concatenation of the reference encodings and end with 0 bits remaining. Non-trivial = vectors actually "
                     "encoded." % (len(zoo), ssum["histories"]))
    v.cov["samples"] = vlib.sample_ndjson(vec, 5, v.seed, lambda r: r["ok"] and len(r["bits"]) < 200)
    v.cov["checker_cmd"] = "tlc MC_Uper; tools/zoogen.py; cargo build (zoo); vzoo uper (+stream)"
    v.assumptions += ["values are those of the bounded families of Zoo.tla; the oracle for the expected stream is X691.tla",
                      "inside the input classes of open findings only the persistence of a deviation is required"]


def replay(path):
    print(json.dumps(json.load(open(path)), indent=1)[:4000])
    return 0
