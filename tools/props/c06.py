"""C06 - the encoder rejects constraint-violating values; never emits a wrong encoding (DESIGN.md section 7, C06)."""
import json
import vlib, uperlib


def extension_form(r, zoo):
    """An out-of-root value of an extensible constraint (extension form, leading bit 1) that does not round-trip / is not the X.691 encoding."""
    c = r["case"]
    t = zoo[c["ti"]]
    ext = (t["k"] == "int" and t["con"]["ext"]) or (t["k"] in ("oct", "bits", "str", "seqof") and t["sz"]["ext"]) or (t["k"] in ("enum", "choice") and t["ext"])
    return r["class"] in ("roundtrip", "bits", "read-reference") and ext and c.get("ok") and c.get("bits") and c["bits"][0] == 1


def run(v):
    t, zoo, vec, summ, ssum = uperlib.uper_check(v, "C06", classes={"accepted-invalid", "write-panic", "refused-valid"}, extra=extension_form)
    st = summ["stats"]
    ninvalid = st.get("refused-invalid", 0) + st.get("bad:accepted-invalid", 0)
    v.cov["distinct_nontrivial"] = ninvalid
    v.cov["rule"] = ("The value families of Zoo.tla contain, for every constrained type, the values just outside and far outside each bound "
                     "(INTEGER lb-1, ub+1, ub+300; sizes lb-1, ub+1 for strings, lists, bit and octet strings; one character outside the "
                     "alphabet at the first, middle and last position of each restricted string type). X691!Enc says 'must be refused' "
                     "(ok = FALSE) unless the constraint is extensible, where the extension form must be the X.691 one and round-trip (every out-of-root "
                     "value of an extensible INTEGER / SIZE / ENUMERATED / CHOICE, incl. extension items on both sides of index 64). "
                     "The real writer must return Err; if it returns Ok the bits are decoded and reported. Non-trivial = invalid values "
                     "that could be constructed in the generated Rust type (%d; %d more are unrepresentable there)."
                     % (ninvalid, st.get("unrepresentable-invalid", 0)))
    v.cov["samples"] = vlib.sample_ndjson(vec, 6, v.seed, lambda r: not r["ok"])
    v.cov["checker_cmd"] = "tlc MC_Uper; tools/zoogen.py; cargo build (zoo); vzoo uper"
    v.assumptions += ["CHOICE/ENUMERATED indices outside the type cannot be constructed through the generated Rust enums; the index primitives "
                      "themselves are covered by C10"]


def replay(path):
    print(json.dumps(json.load(open(path)), indent=1)[:4000])
    return 0
