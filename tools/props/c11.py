"""C11 - bit-level buffer operations equal a naive bit-vector model (DESIGN.md section 7, C11)."""
import json, os, random
import vlib
from vlib import run_tlc, cargo_build, run_bin, tla_set, outdir, ToolError

DEVS = ["GrowOnFailedWrite", "ReadsIgnoreVisibleLength"]


def classify(case):
    """Which open finding explains an Impl(Dev) != Ideal case."""
    if case["k"] == "w":
        return "GrowOnFailedWrite"
    return "ReadsIgnoreVisibleLength"


def run(v):
    quick = v.tier == "quick"
    dev = vlib.dev_set("C11", DEVS)
    d = outdir("C11")
    findings = {f["dev"]: f for f in vlib.known_findings("C11") if f.get("dev")}

    # ---- M: operation sequences on the growable buffer, design level (Dev = {}) -----------------
    t = run_tlc("C11", "MC_BitBuffer", "SPECIFICATION Spec\nCONSTANTS\n  Dev = {}\n  MaxBits = %d\n  SrcSet <- MCSrcSet\n"
                "INVARIANT Inv\nPROPERTIES ErrFrame WriteFrame\nCHECK_DEADLOCK FALSE\n" % (9 if quick else 12))
    if t.violation:
        raise ToolError("the BitBuffer design model violates its own invariants: " + t.violation)
    for a in ("DoWrite", "DoPatch", "DoReadBit", "DoRead", "DoReset", "DoClear"):
        if t.actions.get(a, (0, 0))[1] == 0:
            raise ToolError("vacuous model run: action %s never taken" % a)
    v.add_tlc("MC_BitBuffer", t)

    # ---- R: every single copy operation on M-byte buffers, all back ends ------------------------
    M = 3 if quick else 5
    vec = os.path.join(d, "bitops.ndjson")
    t = run_tlc("C11", "MC_BitOps", "SPECIFICATION Spec\nCONSTANTS\n  Dev = %s\n  M = %d\nINVARIANTS FrameOk Emit\n"
                "CHECK_DEADLOCK FALSE\n" % (tla_set(dev), M), replay_to=vec, coverage=False)
    if t.violation:
        raise ToolError("MC_BitOps: " + t.violation)
    if t.nreplay == 0 or t.nreplay != t.distinct - count_seeds(t):
        raise ToolError("replay lines (%d) do not match TLC's case states (%d distinct)" % (t.nreplay, t.distinct))
    v.add_tlc("MC_BitOps", t)
    cargo_build()
    res = os.path.join(d, "bitops.res")
    p = run_bin("replay", ["bitops", vec, res])
    if p.returncode != 0:
        raise ToolError("replay bitops failed: " + p.stderr[-2000:])
    rows = vlib.read_ndjson(res)
    summ = rows[-1]
    if not summ.get("summary") or summ["cases"] != t.nreplay:
        raise ToolError("replay bitops: incomplete result")
    v.cov["traces_validated_against_impl"] += summ["cases"]
    v.cov["evaluations"] += summ["cases"]
    nontriv = summ["nontrivial"]
    for i, r in enumerate(rows[:-1]):
        if i < 40:
            v.violation("real code differs from BitOps (%s): %s" % (r["sig"], r["why"]), r, "bitops_%03d.json" % i)
    if summ["mismatches"]:
        v.cov["mismatch_classes"] = summ["classes"]
    if summ["dev_hits"]:
        # Impl(Dev) != Ideal and the code agrees with Impl(Dev): the listed finding, still present
        for dname in dev:
            f = findings[dname]
            v.known(f["id"], "%s: %s" % (f["id"], f["what"]))
    v.cov["dev_hits"] = summ["dev_hits"]

    # ---- T: recorded histories of mixed operations validated against the spec --------------------
    hist = 1000 if quick else 20000
    ops = 60 if quick else 200
    maxbytes = 16 if quick else 64
    chunk = 250 if quick else 400
    accepted = 0
    events = 0
    samples = []
    seed = v.seed
    for ci in range(0, hist, chunk):
        tr = os.path.join(d, "trace_%d.ndjson" % ci)
        p = run_bin("record", ["bitbuffer", tr, "seed=%d" % (seed * 1000003 + ci), "histories=%d" % chunk, "ops=%d" % ops,
                               "maxbytes=%d" % maxbytes])
        if p.returncode != 0:
            vlib.recorder_failed(v, p, tr, "record bitbuffer (seed %d)" % (seed * 1000003 + ci))
            break
        n = vlib.lint_trace(tr)
        events += n
        tt = run_tlc("C11", "Trace_BitBuffer", "SPECIFICATION Spec\nCONSTANTS\n  Dev = %s\nINVARIANT Exact\nPOSTCONDITION Accepted\n"
                     "CHECK_DEADLOCK FALSE\n" % tla_set(dev), tag="trace_%d" % ci, workers=1, env={"TRACE": tr}, deque=True,
                     xss=True, coverage=False, heap="4g")
        if tt.violation or not tt.ok():
            rej = [l for l in tt.out.splitlines() if l.startswith('<<"REJECTED"')]
            lines = open(tr).read().splitlines()
            at = tt.depth
            # replay artefact: the history the rejected event belongs to, up to that event
            start = max(i for i in range(at) if json.loads(lines[i]).get("op") == "new") if at > 0 else 0
            art = {"trace": tr, "rejected_line": at, "tlc": (rej or [tt.violation])[0], "history": [json.loads(x) for x in lines[start:at]]}
            v.violation("recorded BitBuffer history is not a behaviour of the specification (line %d of %s)" % (at, tr), art,
                        "trace_%d.json" % ci)
            v.cov["engines"]["Trace_BitBuffer_%d" % ci] = {"rejected_at": at}
            break
        accepted += chunk
        v.cov["states"] += tt.distinct
        v.cov["transitions"] += tt.generated
        if ci == 0:
            samples = [json.loads(x) for x in open(tr).read().splitlines()[:6]]
        os.remove(tr)
    v.cov["traces_validated_against_impl"] += accepted
    v.cov["evaluations"] += events
    v.cov["trace_events"] = events
    v.cov["histories_accepted"] = accepted
    v.cov["distinct_nontrivial"] = nontriv
    v.cov["exhaustive"] = True
    v.cov["rule"] = ("R: TLC (MC_BitOps) enumerates every (source offset, destination position, length) on %d-byte buffers for 3 "
                     "source/destination fill combinations, 5 back ends and the 5 method variants, incl. every too-short source/"
                     "destination; each case is one distinct TLC state; non-trivial = length > 0 or an error outcome (counted by the harness). "
                     "T: %d seeded histories of %d mixed calls on buffers up to %d bytes, every event validated by Trace_BitBuffer." % (
                         M, hist, ops, maxbytes))
    v.cov["samples"] = vlib.sample_ndjson(vec, 4, v.seed, lambda r: r["n"] > 8) + samples[:4]
    v.cov["checker_cmd"] = "tlc MC_BitBuffer / MC_BitOps / Trace_BitBuffer (spec/), harness replay bitops, record bitbuffer"
    v.assumptions += ["the naive bit-vector model BitOps.tla is the specification",
                      "a BitBuffer's private read cursor is observed through subsequent public reads",
                      "open findings are modelled by Dev switches taken from known_findings.jsonl; the real code must equal Impl(Dev) exactly"]


def count_seeds(t):
    import re
    m = re.search(r"Finished computing initial states: (\d+) distinct state", t.out)
    return int(m.group(1)) if m else 0


def replay(path):
    """Re-executes one replay artefact against the real code."""
    art = json.load(open(path))
    cargo_build()
    d = outdir("C11")
    if "case" in art:
        tmp = os.path.join(d, "replay_one.ndjson")
        open(tmp, "w").write(json.dumps(art["case"]) + "\n")
        p = run_bin("replay", ["bitops", tmp, tmp + ".res"])
        rows = vlib.read_ndjson(tmp + ".res")
        print(json.dumps(rows, indent=1))
        return 1 if rows[-1]["mismatches"] else 0
    print(json.dumps(art, indent=1))
    return 0
