"""C18 - protobuf bytes agree with the generated .proto schema (DESIGN.md section 7, C18)."""
import json, os
import vlib, protolib
from vlib import run_tlc, ToolError, outdir


EXPORTER = """Shop-Items DEFINITIONS AUTOMATIC TAGS ::= BEGIN
Item ::= SEQUENCE { id INTEGER (0..7), ok BOOLEAN OPTIONAL }
Kind ::= ENUMERATED { a, b, c }
Pick ::= CHOICE { x INTEGER (0..7), y BOOLEAN }
Wrap ::= SEQUENCE OF Item
END
"""
IMPORTER = """Basket DEFINITIONS AUTOMATIC TAGS ::= BEGIN
IMPORTS Item, Kind, Pick, Wrap FROM Shop-Items;
T ::= SEQUENCE { one Item, kind Kind, pick Pick, items SEQUENCE OF Item, kinds SEQUENCE OF Kind OPTIONAL, picks SET OF Pick,
                 opt Item OPTIONAL, dflt Kind DEFAULT b, ..., later SEQUENCE OF Pick, wrap Wrap OPTIONAL }
C ::= CHOICE { i Item, k Kind, p Pick }
L ::= SEQUENCE OF Item
END
"""
# what every field of the importer must refer to (type name without package) and its label
IMPORTER_FIELDS = {"T": [("one", "Item", "one"), ("kind", "Kind", "one"), ("pick", "Pick", "one"), ("items", "Item", "rep"), ("kinds", "Kind", "rep"),
                         ("picks", "Pick", "rep"), ("opt", "Item", "one"), ("dflt", "Kind", "one"), ("later", "Pick", "rep")],
                   "C": [("i", "Item", "one"), ("k", "Kind", "one"), ("p", "Pick", "one")]}


def multi_module(v, d):
    """Imported types in every position of an importing module: the generated files must form a valid proto3 file set in
    which every reference resolves (protoc's scoping rules), with the labels of the mapping rule."""
    fe, fi = os.path.join(d, "exporter.asn1"), os.path.join(d, "importer.asn1")
    open(fe, "w").write(EXPORTER)
    open(fi, "w").write(IMPORTER)
    n = 0
    for order in ((fe, fi), (fi, fe)):
        files = protolib.proto_files(list(order))
        n += 1
        try:
            parsed = protolib.parse_proto_set(files)
        except protolib.ProtoInvalid as e:
            v.violation("the generated .proto files of an importing module are not a valid proto3 file set: %s" % e,
                        {"asn1": [EXPORTER, IMPORTER], "proto": files, "why": str(e)}, "multi_%d.json" % n)
            continue
        imp = [p for fn, p in parsed.items() if "T" in p["messages"]]
        if not imp:
            v.violation("no message T in the generated files", {"proto": files}, "multi_%d.json" % n)
            continue
        for msg, want in IMPORTER_FIELDS.items():
            got = {f["name"]: f for f in imp[0]["messages"].get(msg, [])}
            for name, ty, label in want:
                f = got.get(name)
                if f is None or f["type"].split(".")[-1] != ty or f["label"] != label:
                    v.violation("importer message %s field %s: declared %s, the mapping rule says %s %s" % (msg, name, f, label, ty),
                                {"proto": files, "field": name}, "multi_%d_%s_%s.json" % (n, msg, name))
    return n


def run(v):
    d = outdir("C18")
    findings = {f["dev"]: f for f in vlib.known_findings("C18") if f.get("dev")}
    t, zoo, vec, rows, incidents, events, names = protolib.proto_pipeline("C18", v.tier, ("C17", "C18"))
    v.add_tlc("MC_Proto", t)
    # ---- the generated .proto of the zoo module, read by the independent proto3 reader ----
    asn = os.path.join(vlib.OUT, "zoo_proto", "zoo.asn1")
    text = protolib.proto_text(asn)
    open(os.path.join(d, "zoo.proto"), "w").write(text)
    devhits = {}
    parsed = None
    try:
        parsed = protolib.parse_proto(text)
    except protolib.ProtoInvalid as e:
        # which definitions make the file invalid? generate per definition to attribute it
        culprits = invalid_definitions(d, asn)
        unknown = [c for c in culprits if not c[2]]
        for name, why, dev in culprits:
            if dev:
                devhits[dev] = devhits.get(dev, 0) + 1
        for i, (name, why, dev) in enumerate(unknown):
            v.violation("the generated .proto is not valid proto3: %s (definition %s)" % (why, name), {"definition": name, "why": why, "proto": text}, "invalid_%03d.json" % i)
        if not culprits:
            v.violation("the generated .proto is not valid proto3: %s" % e, {"proto": text, "why": str(e)}, "invalid_file.json")
        parsed = parse_without(d, asn, [c[0] for c in culprits])
    # ---- trace: bytes of every vector must decode under the DECLARED schema ----
    tr = os.path.join(d, "proto_trace.ndjson")
    n = 0
    with open(tr, "w") as o:
        for l in open(events):
            e = json.loads(l)
            name = "T%d" % e["ti"]
            if parsed is None or name not in parsed["messages"]:
                continue
            try:
                e["schema"] = protolib.schema_json(parsed, name)
            except (protolib.ProtoInvalid, KeyError):
                continue
            o.write(json.dumps(e) + "\n")
            n += 1
    if n == 0:
        raise ToolError("no protobuf events to validate")
    vlib.lint_trace(tr)
    tt = run_tlc("C18", "Trace_ProtoSchema", "SPECIFICATION Spec\nCONSTANTS\n  W7 = 7\n  W14 = 14\n  N = %d\nPOSTCONDITION Accepted\nCHECK_DEADLOCK FALSE\n" % (3 if v.tier == "quick" else 4),
                 workers=1, env={"TRACE": tr}, deque=True, xss=True, coverage=False, heap="4g")
    lines = open(tr).read().splitlines()
    rejected = 0
    # the trace spec stops at the first unexplained event: report it, drop it, continue with the rest (bounded)
    while (tt.violation or not tt.ok()) and rejected < 10:
        at = tt.depth
        rej = [l for l in tt.out.splitlines() if l.startswith('<<"REJECTED"')]
        e = json.loads(lines[at - 1])
        rejected += 1
        v.violation("bytes do not decode to the value under the schema declared in the generated .proto [T%d ::= %s]" % (e["ti"], names.get("T%d" % e["ti"])),
                    {"event": e, "tlc": (rej or [tt.violation])[0][:3000], "proto": text}, "schema_%03d.json" % rejected)
        lines = lines[:at - 1] + lines[at:]
        open(tr, "w").write("\n".join(lines) + "\n")
        if not lines:
            break
        tt = run_tlc("C18", "Trace_ProtoSchema", "SPECIFICATION Spec\nCONSTANTS\n  W7 = 7\n  W14 = 14\n  N = %d\nPOSTCONDITION Accepted\nCHECK_DEADLOCK FALSE\n" % (3 if v.tier == "quick" else 4),
                     workers=1, env={"TRACE": tr}, deque=True, xss=True, coverage=False, heap="4g")
    v.cov["states"] += tt.distinct
    v.cov["transitions"] += tt.generated
    stats = {}
    nreuse = 0
    for r in rows:
        if r.get("class") == "reuse":
            # the octets of a message must not depend on what the writer wrote before: the first message's octets are the ones
            # validated against the schema above
            nreuse += 1
            if nreuse <= 10:
                ti = r["case"]["ti"]
                v.violation("the octets of a message depend on what its writer wrote before (field numbers of the schema are those of a first "
                            "message): %s [T%d ::= %s]" % (r["why"][:200], ti, names.get("T%d" % ti)), r, "reuse_%03d.json" % nreuse)
        if r.get("summary"):
            for kk, c in r["stats"].items():
                stats[kk] = stats.get(kk, 0) + c
    for kk, c in stats.items():
        if kk.startswith("dev:"):
            devhits[kk[4:]] = devhits.get(kk[4:], 0) + c
    for inc in incidents:
        if inc["case"]["dev"]:
            devhits[inc["case"]["dev"]] = devhits.get(inc["case"]["dev"], 0) + 1
    for dname, cnt in devhits.items():
        f = findings.get(dname)
        if f is None:
            raise ToolError("deviation class %s is not an open finding of C18" % dname)
        v.known(f["id"], "%s: %s (%d items of this run inside the class)" % (f["id"], f["what"], cnt))
    v.cov["traces_validated_against_impl"] += len(lines)
    v.cov["evaluations"] += n
    v.cov["distinct_nontrivial"] = len(lines)
    v.cov["proto_messages"] = len(parsed["messages"]) if parsed else 0
    v.cov["rule"] = ("The generated .proto of the protobuf zoo module is read by an independent proto3 reader (tools/protolib.py: grammar, unique "
                     "field numbers >= 1, enum starts at 0, no 'repeated repeated', no repeated inside oneof, all types resolvable). For every "
                     "vector of MC_Proto (%d) the real writer's bytes + the schema of the message AS DECLARED in the .proto form one trace event; "
                     "Trace_ProtoSchema.tla accepts iff the declared schema matches the mapping rule (ProtoMap!SchemaOf: field number = "
                     "position, oneof alternatives numbered from 1, labels, kinds, nesting) and Proto!DecMsg - a proto3 wire decoder written in "
                     "TLA+ from the encoding specification - decodes the bytes under the declared schema to ProtoMap!ToProto(type, value) up "
                     "to default equivalence. Non-trivial = events validated." % t.nvec)
    v.cov["samples"] = [json.loads(x) for x in lines[:2]]
    v.cov["multi_module_file_sets"] = multi_module(v, d)
    v.cov["checker_cmd"] = "tlc MC_Proto; vzoo proto (events); frontend proto; protolib.parse_proto; tlc Trace_ProtoSchema"
    v.assumptions += ["Proto.tla is my reading of the protobuf encoding specification (varint, zig-zag, keys, length-delimited)",
                      "packed repeated scalars are not accepted because the writer never produces them"]


def single_module(d, asn, keep):
    """The zoo module reduced to the definitions in `keep` (plus the N* helper definitions they reference)."""
    lines = open(asn).read().splitlines()
    defs = [l for l in lines[1:-1]]
    import re
    byname = {l.split(" ::=")[0]: l for l in defs}
    chosen = [l for l in defs if l.split(" ::=")[0] in keep]
    need, todo = set(), list(chosen)
    while todo:                      # helper definitions referenced transitively
        l = todo.pop()
        for n in re.findall(r"\b[NT]\d+\b", l.split("::=", 1)[1]):     # (a nested type equal to a top-level one is printed by its T name)
            if n not in need:
                need.add(n)
                todo.append(byname[n])
    helper = [l for l in defs if l.split(" ::=")[0] in need]
    f = os.path.join(d, "reduced.asn1")
    open(f, "w").write(lines[0] + "\n" + "\n".join(helper + chosen) + "\n" + lines[-1] + "\n")
    return f


def invalid_definitions(d, asn):
    """[(definition, why, dev class or '')] for every top-level definition whose own .proto is invalid."""
    res = []
    tops = [l.split(" ::=")[0] for l in open(asn).read().splitlines()[1:-1] if l.startswith("T")]
    for name in tops:
        text = protolib.proto_text(single_module(d, asn, [name]))
        try:
            protolib.parse_proto(text)
        except protolib.ProtoInvalid as e:
            why = str(e)
            dev = "ProtoNestedList" if "repeated repeated" in why else "ProtoChoiceListAlternative" if "inside a oneof" in why else ""
            if dev and dev not in vlib.dev_set("C18", ["ProtoNestedList", "ProtoChoiceListAlternative"]):
                dev = ""
            res.append((name, why, dev))
    return res


def parse_without(d, asn, bad):
    tops = [l.split(" ::=")[0] for l in open(asn).read().splitlines()[1:-1] if l.startswith("T")]
    keep = [t for t in tops if t not in bad]
    try:
        return protolib.parse_proto(protolib.proto_text(single_module(d, asn, keep)))
    except protolib.ProtoInvalid:
        return None


def replay(path):
    print(json.dumps(json.load(open(path)), indent=1)[:6000])
    return 0
