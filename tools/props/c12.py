"""C12 - value references and imports resolve exactly like the literals they name (DESIGN.md section 7, C12)."""
import json, os
import vlib
from vlib import run_tlc, cargo_build, outdir, ToolError, tla_set
from props import c07

DEVS = ["ImportNameBeforeOid", "DefaultKindNotChecked"]

TEMPLATES = {
    "intRange": ("T ::= INTEGER ({lb}..{ub})", {"lb": 3, "ub": 200}),
    "intRangeExt": ("T ::= INTEGER (-5..{ub},...)", {"ub": 7}),
    "intRangeMin": ("T ::= INTEGER ({lb}..0)", {"lb": -9223372036854775808}),
    "intRangeMax": ("T ::= INTEGER (1..{ub})", {"ub": 9223372036854775807}),
    "octSize": ("T ::= OCTET STRING (SIZE({lb}..{ub}))", {"lb": 2, "ub": 9}),
    "ia5Fixed": ("T ::= IA5String (SIZE({n}))", {"n": 4}),
    "seqOfSizeExt": ("T ::= SEQUENCE (SIZE({lb}..{ub},...)) OF BOOLEAN", {"lb": 1, "ub": 3}),
    "bitsSize": ("T ::= BIT STRING (SIZE({lb}..{ub}))", {"lb": 4, "ub": 12}),
    "seqDefaults": ("T ::= SEQUENCE {{ f1 INTEGER (0..{ub}) DEFAULT {d}, f2 BOOLEAN DEFAULT {b} }}", {"ub": 255, "d": 5, "b": True}),
    "seqStrDefault": ("T ::= SEQUENCE {{ f1 UTF8String DEFAULT {s} }}", {"s": "hi"}),
    "sizeZeroMax": ("T ::= SEQUENCE (SIZE({lb}..MAX)) OF BOOLEAN", {"lb": 0}),
    "intZeroMax": ("T ::= INTEGER ({lb}..MAX)", {"lb": 0}),
    "sizeOneMax": ("T ::= OCTET STRING (SIZE({lb}..MAX))", {"lb": 1}),
    # the value reference is spelled like an enumeration item that is used as DEFAULT next to it: two name spaces
    "seqEnumClash": ("Level ::= ENUMERATED {{ low, medium, high }}\nT ::= SEQUENCE {{ f1 INTEGER (0..{ub}), level Level DEFAULT medium }}", {"ub": 7}),
}
# names of the value references where the default "r<slot>" is not wanted
REF_NAMES = {"seqEnumClash": {"ub": "medium"}}


def lit(v):
    if isinstance(v, bool):
        return "TRUE" if v else "FALSE"
    if isinstance(v, str):
        return '"%s"' % v
    return str(v)


def vref(name, v, neg=None):
    if neg == "wrongKind":
        return "%s BOOLEAN ::= TRUE" % name
    if neg == "wrongKindStr":  # a string whose text is the very number: still not a number
        return '%s UTF8String ::= "%d"' % (name, int(v))
    if neg == "negSize":
        return "%s INTEGER ::= -1" % name
    if isinstance(v, bool):
        return "%s BOOLEAN ::= %s" % (name, lit(v))
    if isinstance(v, str):
        return "%s UTF8String ::= %s" % (name, lit(v))
    return "%s INTEGER ::= %d" % (name, v)


def other(v):
    if isinstance(v, bool):
        return not v
    if isinstance(v, str):
        return "zz"
    return v + 1 if v < 9223372036854775807 else v - 1


def build(case):
    """Module texts by module name for one case."""
    tpl, vals = TEMPLATES[case["tpl"]]
    refs = case["refs"]
    names = {s: REF_NAMES.get(case["tpl"], {}).get(s, "r" + s) for s in refs}
    body = tpl.format(**{s: (names[s] if s in refs else lit(v)) for s, v in vals.items()})
    neg = case["neg"] or None
    defs = [vref(names[s], vals[s], neg) for s in refs] if neg != "missing" else []
    p = case["placement"]
    mods = {}
    if p == "same":
        mods["Main"] = "Main DEFINITIONS AUTOMATIC TAGS ::= BEGIN\n%s\n%s\nEND\n" % ("\n".join(defs), body)
    else:
        imp = ""
        oid = {"sibOid": " { iso(1) lib(5) }", "decoy": " { iso(1) lib(5) }", "kinShort": " { iso(1) lib(5) sub(2) }", "kinLong": " { iso(1) lib(5) }"}.get(p, "")
        if refs and neg != "unimported":
            imp = "IMPORTS %s FROM Lib%s;\n" % (", ".join(names[s] for s in refs), oid)
        mods["Main"] = "Main DEFINITIONS AUTOMATIC TAGS ::= BEGIN\n%s%s\nEND\n" % (imp, body)
        mods["Lib"] = "Lib%s DEFINITIONS AUTOMATIC TAGS ::= BEGIN\n%s\nPad ::= BOOLEAN\nEND\n" % (oid, "\n".join(defs))
        if p in ("kinShort", "kinLong"):
            mods["Kin"] = "Kin%s DEFINITIONS AUTOMATIC TAGS ::= BEGIN\n%s\nPad ::= BOOLEAN\nEND\n" % (
                " { iso(1) lib(5) }" if p == "kinShort" else " { iso(1) lib(5) sub(2) }", "\n".join(vref(names[s], other(vals[s])) for s in refs))
        if neg == "unimported":
            mods["Lib"] = "Lib DEFINITIONS AUTOMATIC TAGS ::= BEGIN\n%s\nPad ::= BOOLEAN\nEND\n" % "\n".join(vref(names[s], vals[s]) for s in refs)
        if p == "rival":
            # a second importer of the same names with other values, resolved in the same run
            rimp = "IMPORTS %s FROM RivalLib;\n" % ", ".join(names[s] for s in refs) if refs else ""
            mods["Rival"] = "Rival DEFINITIONS AUTOMATIC TAGS ::= BEGIN\n%s%s\nEND\n" % (rimp, body)
            mods["RivalLib"] = "RivalLib DEFINITIONS AUTOMATIC TAGS ::= BEGIN\n%s\nPad ::= BOOLEAN\nEND\n" % "\n".join(
                vref(names[s], other(vals[s])) for s in refs)
        if p == "decoy":
            mods["Decoy"] = "Lib { iso(1) lib(9) } DEFINITIONS AUTOMATIC TAGS ::= BEGIN\n%s\nPad ::= BOOLEAN\nEND\n" % "\n".join(
                vref(names[s], other(vals[s])) for s in refs)
    return mods


def literal_module(case):
    tpl, vals = TEMPLATES[case["tpl"]]
    return "Main DEFINITIONS AUTOMATIC TAGS ::= BEGIN\n%s\nEND\n" % tpl.format(**{s: lit(v) for s, v in vals.items()})


def main_defs(rows):
    for m in rows:
        if m.get("name") == "Main":
            return [x for x in m["defs"] if x["name"] == "T"]
    return None


# the files of Converter.tla (Good / bad / missing)
CONVERTER_FILES = {
    "main": """Main DEFINITIONS AUTOMATIC TAGS ::= BEGIN
IMPORTS limit, Shared FROM Lib;
T ::= SEQUENCE { a INTEGER (0..limit), b Shared OPTIONAL, c SEQUENCE (SIZE(1..limit)) OF BOOLEAN }
U ::= CHOICE { x T, y Shared }
END
""",
    "lib": """Lib DEFINITIONS AUTOMATIC TAGS ::= BEGIN
limit INTEGER ::= 12
Shared ::= SEQUENCE { n INTEGER (0..255), s UTF8String }
Other ::= ENUMERATED { red, green, ..., blue }
END
""",
    "solo": """Solo-Two DEFINITIONS AUTOMATIC TAGS ::= BEGIN
top INTEGER ::= 7
S ::= SEQUENCE { v INTEGER (0..top) DEFAULT 3, w BIT STRING (SIZE(4)) }
END
""",
    "orphan": """Orphan DEFINITIONS AUTOMATIC TAGS ::= BEGIN
IMPORTS bound FROM Ghost;
O ::= INTEGER (0..bound)
END
""",
    "bad": """Bad DEFINITIONS AUTOMATIC TAGS ::= BEGIN
B ::= SEQUENCE { a INTEGER (0..7), , b BOOLEAN
END
""",
}


def converter_machine(v, d):
    """Converter.tla: every history of D loads / generates on the real asn1rs::converter::Converter."""
    import shutil
    D = 5 if v.tier == "quick" else 6
    vec = os.path.join(d, "converter.ndjson")
    t = run_tlc("C12", "Converter", "SPECIFICATION Spec\nCONSTANTS\n  D = %d\nINVARIANTS Atomic SetDetermined Emit\nCHECK_DEADLOCK FALSE\n" % D,
                replay_to=vec, coverage=False, heap="4g", timeout=3600)
    if t.violation:
        raise ToolError("Converter.tla: " + t.violation)
    v.add_tlc("Converter", t)
    if not t.nreplay:
        raise ToolError("Converter.tla printed no history")
    fdir = os.path.join(d, "converter_files")
    work = os.path.join(d, "converter_work")
    shutil.rmtree(work, ignore_errors=True)
    os.makedirs(fdir, exist_ok=True)
    files = {}
    for k, text in CONVERTER_FILES.items():
        files[k] = os.path.join(fdir, k + ".asn1")
        open(files[k], "w").write(text)
    files["missing"] = os.path.join(fdir, "no-such-file.asn1")
    if os.path.exists(files["missing"]):
        os.remove(files["missing"])
    spec = os.path.join(d, "converter.json")
    json.dump({"files": files, "cases": vec, "work": work}, open(spec, "w"))
    res = os.path.join(d, "converter.res")
    p = vlib.run_bin("replay", ["converter", spec, res])
    shutil.rmtree(work, ignore_errors=True)
    if p.returncode != 0:
        raise ToolError("replay converter failed: " + p.stderr[-1000:])
    rows = vlib.read_ndjson(res)
    summ = rows[-1]
    if not summ.get("summary") or summ["cases"] != t.nreplay:
        raise ToolError("converter replay incomplete")
    for i, r in enumerate(rows[:-1]):
        v.violation("Converter: %s" % r["why"][:300], {"history": r["case"], "why": r["why"], "files": CONVERTER_FILES}, "converter_%03d.json" % i)
    v.cov["converter_histories"] = summ["cases"]
    v.cov["converter_generates"] = summ["generates"]
    return summ["cases"]


def run(v):
    d = outdir("C12")
    dev = vlib.dev_set("C12", DEVS)
    findings = {f["dev"]: f for f in vlib.known_findings("C12") if f.get("dev")}
    vec = os.path.join(d, "refs.ndjson")
    t = run_tlc("C12", "Refs", "SPECIFICATION Spec\nCONSTANTS\n  Dev = %s\nINVARIANTS OrderOk Emit\nCHECK_DEADLOCK FALSE\n" % tla_set(dev), replay_to=vec, coverage=False, heap="2g")
    if t.violation:
        raise ToolError("Refs.tla: " + t.violation)
    v.add_tlc("Refs", t)
    cases = vlib.read_ndjson(vec)
    if len(cases) != t.nreplay or not cases:
        raise ToolError("no cases")
    cargo_build()
    lit_canon = {}
    nbad = 0
    devhits = {}
    nontriv = 0
    for i, c in enumerate(cases):
        if c["tpl"] not in lit_canon:
            f = os.path.join(d, "lit.asn1")
            open(f, "w").write(literal_module(c))
            rows, err = c07.canon_of([f])
            if err:
                raise ToolError("literal spelling of %s is rejected: %s" % (c["tpl"], err))
            lit_canon[c["tpl"]] = main_defs(rows)
        mods = build(c)
        files = []
        for k, name in enumerate(c["order"]):
            f = os.path.join(d, "m%d_%s.asn1" % (k, name))
            open(f, "w").write(mods[name])
            files.append(f)
        rows, err = c07.canon_of(files)
        if c["refs"]:
            nontriv += 1
        why = None
        if c["expect"] == "same":
            if err:
                why = "resolution fails although every reference is defined: %s" % err[:200]
            else:
                got = main_defs(rows)
                if c07.norm(got) != c07.norm(lit_canon[c["tpl"]]):
                    why = "resolved model differs from the literal spelling"
        else:
            if not err:
                why = "negative variant '%s' is accepted: a bound/default was silently substituted" % c["neg"]
            elif err.startswith("panic") or err.startswith("frontend canon exited"):
                why = "negative variant '%s' crashes the front end instead of a resolve error: %s" % (c["neg"], err[:200])
        if why and c["dev"]:
            devhits[c["dev"]] = devhits.get(c["dev"], 0) + 1
            continue
        if why:
            nbad += 1
            if nbad <= 30:
                v.violation("%s [%s, references %s, placement %s, load order %s]" % (why, c["tpl"], c["refs"], c["placement"], c["order"]),
                            {"case": c, "modules_in_load_order": [mods[n] for n in c["order"]], "literal_module": literal_module(c),
                             "result": rows if rows else err, "literal_canon": lit_canon[c["tpl"]]}, "refs_%03d.json" % nbad)
    for dname, cnt in devhits.items():
        f = findings.get(dname)
        if f is None:
            raise ToolError("deviation class %s is not an open finding" % dname)
        v.known(f["id"], "%s: %s (%d cases of this run inside the class)" % (f["id"], f["what"], cnt))
    nconv = converter_machine(v, d)
    v.cov["traces_validated_against_impl"] += len(cases) + nconv
    v.cov["evaluations"] += len(cases) + nconv
    v.cov["distinct_nontrivial"] = nontriv
    v.cov["exhaustive"] = True
    v.cov["rule"] = ("Refs.tla: 8 base definitions with literal slots (INTEGER range bounds incl. extensible, SIZE bounds of OCTET/BIT/IA5 strings and "
                     "SEQUENCE OF incl. extensible, DEFAULT values of kind integer / boolean / string) x EVERY subset of slots replaced by value "
                     "references x placement {same module, sibling by name, sibling by name+OID, sibling by OID with a same-named decoy module, rival importers, "
                     "sibling by OID next to a module whose OID is a strict prefix / extension of it} "
                     "x EVERY load order, plus negative variants (reference missing, bound to a BOOLEAN, bound to a string that spells the number, negative number as SIZE) per slot: %d "
                     "cases (one TLC state each). Expected: canonical model of the main module identical to the literal spelling, or a resolve "
                     "error for the negatives. Non-trivial = cases with at least one reference. Converter.tla: every history of %d steps "
                     "(load of a good / importing / unresolvable / malformed / missing file, generate) on the real file-level Converter: result "
                     "classes as specified, a failed step changes nothing, and what to_rust / to_protobuf write depends only on the SET of "
                     "loaded files (compared with a fresh converter): %d histories." % (len(cases), 5 if v.tier == "quick" else 6, nconv))
    v.cov["samples"] = [{"case": c, "main_module": build(c)["Main"]} for c in cases[5::max(1, len(cases) // 4)][:4]]
    v.cov["checker_cmd"] = "tlc Refs; tlc Converter + replay converter; harness frontend canon on generated module sets in every load order"
    v.assumptions += ["the literal spelling's model is the reference (metamorphic relation stated by the property)"]


def replay(path):
    print(json.dumps(json.load(open(path)), indent=1)[:6000])
    return 0
