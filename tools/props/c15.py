"""C15 - the Rust type chosen for an INTEGER can hold every permitted value (DESIGN.md section 7, C15)."""
import json, os, re
import vlib, felib
from vlib import run_tlc, cargo_build, outdir, ToolError, tla_set

DEVS = ["MinBoundTreatedAsZero"]


def big(v):
    x = 0
    for i, l in enumerate(v["m"]):
        x += l << (16 * i)
    return -x if v["neg"] else x


def tyname(t):
    return ("i" if t["signed"] else "u") + str(t["w"])


def constraint_text(c):
    lb = str(big(c["lb"])) if c["hasLb"] else "MIN"
    ub = str(big(c["ub"])) if c["hasUb"] else "MAX"
    return "INTEGER (%s..%s%s)" % (lb, ub, ",..." if c["ext"] else "")


def run(v):
    quick = v.tier == "quick"
    d = outdir("C15")
    dev = vlib.dev_set("C15", DEVS)
    findings = {f["dev"]: f for f in vlib.known_findings("C15") if f.get("dev")}
    ks = sorted(set(list(range(0, 11)) + [14, 15, 16, 17, 23, 24, 30, 31, 32, 33, 47, 48, 55, 56, 61, 62])) if quick else list(range(0, 63))
    small = 5 if quick else 20
    vec = os.path.join(d, "intmap.ndjson")
    t = run_tlc("C15", "MC_IntMap", "SPECIFICATION Spec\nCONSTANTS\n  Dev = %s\n  KS = {%s}\n  Small = %d\nINVARIANTS Sound Emit\nCHECK_DEADLOCK FALSE\n" % (
        tla_set(dev), ", ".join(map(str, ks)), small), replay_to=vec, coverage=False, heap="8g", timeout=2 * 3600)
    if t.violation:
        raise ToolError("IntMap.tla violates its own design-level property: " + t.violation)
    v.add_tlc("MC_IntMap", t)
    cases = vlib.read_ndjson(vec)
    if len(cases) != t.nreplay or not cases:
        raise ToolError("no cases")
    cargo_build()
    nbad = 0
    devhits = {}
    checked = 0
    CH = 400
    for lo in range(0, len(cases), CH):
        chunk = cases[lo:lo + CH]
        # every constraint as a top-level type; a sample also as SEQUENCE field, CHOICE alternative and SEQUENCE OF element
        lines = ["T%d ::= %s" % (i + 1, constraint_text(c)) for i, c in enumerate(chunk)]
        wrapped = list(range(0, len(chunk), 9))
        for i in wrapped:
            ct = constraint_text(chunk[i])
            lines.append("S%d ::= SEQUENCE { f1 %s, f2 %s OPTIONAL }" % (i + 1, ct, ct))
            lines.append("C%d ::= CHOICE { a1 %s, a2 BOOLEAN }" % (i + 1, ct))
            lines.append("L%d ::= SEQUENCE OF %s" % (i + 1, ct))
            # ... and as the governing type of a value assignment (the constant takes the type of its governor)
            if not chunk[i]["dev"]:
                val = big(chunk[i]["lb"]) if chunk[i]["hasLb"] else (big(chunk[i]["ub"]) if chunk[i]["hasUb"] else 0)
                lines.append("v%d %s ::= %d" % (i + 1, ct, val))
        asn = "IntMap DEFINITIONS AUTOMATIC TAGS ::= BEGIN\n" + "\n".join(lines) + "\nEND\n"
        rows = felib.pipeline([asn], d, tag="im_%d" % lo)
        if isinstance(rows, dict) or (rows and "error" in rows[0]):
            # which definition is rejected? retry one by one to attribute it
            v.violation("the front end fails on a module of INTEGER definitions: %s" % str(rows)[:400], {"module": asn, "result": rows}, "module_%d.json" % lo)
            nbad += 1
            continue
        by = {r["name"]: r for r in rows}
        consts = dict(re.findall(r"pub const V_?(\d+): (\w+) = ", felib.LAST_CODE))
        for i in wrapped:
            c = chunk[i]
            if c["dev"]:
                continue
            checked += 1
            got_t = consts.get(str(i + 1))
            acceptable = [tyname(x) for x in c["types"]]
            if got_t not in acceptable:
                nbad += 1
                if nbad <= 30:
                    v.violation("v%d %s ::= ..: the constant is generated as %s, specification allows %s" % (i + 1, constraint_text(c), got_t, acceptable),
                                {"asn1": constraint_text(c), "as": "value assignment", "got": got_t, "acceptable": acceptable}, "int_%03d.json" % nbad)
        for i, c in enumerate(chunk):
            names = ["T%d" % (i + 1)] + (["S%d" % (i + 1), "C%d" % (i + 1), "L%d" % (i + 1)] if i in wrapped else [])
            for nm in names:
                r = by.get(nm)
                if r is None:
                    raise ToolError("definition %s missing from the pipeline output" % nm)
                got = extract(nm, r["generated"] + "\n" + r.get("impls", ""))
                checked += 1
                acceptable = [tyname(x) for x in c["types"]]
                why = None
                if got is None:
                    why = "cannot find the integer type in the generated code"
                elif got["type"] not in acceptable:
                    why = "Rust type %s, specification allows %s" % (got["type"], acceptable)
                else:
                    if c["hasLb"] and got.get("min") is not None and got["min"] != big(c["lb"]):
                        why = "min accessor returns %s, declared lower bound is %s" % (got["min"], big(c["lb"]))
                    if c["hasUb"] and got.get("max") is not None and got["max"] != big(c["ub"]):
                        why = "max accessor returns %s, declared upper bound is %s" % (got["max"], big(c["ub"]))
                    if nm[0] == "T" and (got.get("min") is None or got.get("max") is None):
                        why = "min/max accessors missing"
                if c["dev"]:
                    # open finding, modelled exactly: the type the implementation picks today must persist
                    devt = [tyname(x) for x in c["devtypes"]]
                    if got is not None and got["type"] in devt and why:
                        devhits[c["dev"]] = devhits.get(c["dev"], 0) + 1
                        continue
                    if why:
                        why += " (inside the class of open finding %s the implementation is known to choose %s)" % (c["dev"], devt)
                if why:
                    nbad += 1
                    if nbad <= 30:
                        v.violation("%s ::= %s: %s" % (nm, constraint_text(c), why), {"asn1": constraint_text(c), "as": nm, "got": got, "acceptable": acceptable,
                                                                                      "generated": (r["generated"] + "\n" + r.get("impls", ""))[:1500]}, "int_%03d.json" % nbad)
    for dname, cnt in devhits.items():
        f = findings.get(dname)
        if f is None:
            raise ToolError("deviation class %s is not an open finding" % dname)
        v.known(f["id"], "%s: %s (%d definitions of this run inside the class)" % (f["id"], f["what"], cnt))
    v.cov["traces_validated_against_impl"] += checked
    v.cov["evaluations"] += checked
    v.cov["distinct_nontrivial"] = len(cases)
    v.cov["exhaustive"] = True
    v.cov["rule"] = ("IntMap.tla over Big numbers. TLC enumerates ALL ordered pairs lb <= ub from the boundary family {0, +-1, +-2^k, +-2^k+-1 : k in KS} u "
                     "{-%d..%d} u {i64 MIN, i64 MAX} within i64 (KS = %s), each optionally extensible, plus (lb..MAX), (MIN..ub), (MIN..MAX): %d "
                     "constraints (one distinct TLC state each), checks Sound (contains / narrowest / 64-bit rules) and prints the acceptable "
                     "types. Every constraint is compiled to Rust text by the real front end (run time): the type of the transparent wrapper "
                     "and the generated value_min()/value_max() must match; every 9th constraint also as SEQUENCE field (plain and OPTIONAL), "
                     "CHOICE alternative and SEQUENCE OF element." % (small, small, "0..62" if not quick else str(ks), len(cases)))
    v.cov["samples"] = [{"asn1": constraint_text(c), "acceptable": [tyname(x) for x in c["types"]]} for c in cases[3::max(1, len(cases) // 5)][:5]]
    v.cov["checker_cmd"] = "tlc MC_IntMap (Sound, Emit); harness frontend pipeline on generated modules"
    v.assumptions += ["bounds beyond i64 are not accepted by the front end (they are parsed as references) and are outside the family",
                      "unconstrained INTEGER and (MIN..MAX): any 64-bit type is accepted, the property cannot be met exactly by one Rust type"]


def num(s):
    return int(s.replace("_", ""))


def extract(name, gen):
    """Rust integer type and accessor values of definition `name` from the generated code."""
    if name[0] == "T":
        m = re.search(r"pub struct %s\(#\[asn\(.*?\)\] pub (\w+)\);" % name, gen)
        if not m:
            return None
        res = {"type": m.group(1)}
        for which in ("min", "max"):
            mm = re.search(r"fn value_%s\(\) -> (\w+) \{\s*(-?[\d_]+)\s*\}" % which, gen)
            if mm:
                res[which] = num(mm.group(2))
                if mm.group(1) != res["type"]:
                    res["type"] = res["type"] + "/" + mm.group(1)
        return res
    if name[0] == "S":
        m = re.search(r"pub f1: (\w+),", gen)
        m2 = re.search(r"pub f2: Option<(\w+)>,", gen)
        if not m or not m2 or m.group(1) != m2.group(1):
            return None
        res = {"type": m.group(1)}
        for which in ("min", "max"):
            mm = re.search(r"fn f1_%s\(\) -> (\w+) \{\s*(-?[\d_]+)\s*\}" % which, gen)
            if mm:
                res[which] = num(mm.group(2))
        return res
    if name[0] == "C":
        m = re.search(r"A1\((\w+)\)", gen)
        return {"type": m.group(1)} if m else None
    if name[0] == "L":
        m = re.search(r"pub Vec<(\w+)>\);", gen)
        return {"type": m.group(1)} if m else None
    return None


def replay(path):
    print(json.dumps(json.load(open(path)), indent=1)[:5000])
    return 0
