"""C05 - extension additions are forward/backward compatible across schema versions (DESIGN.md section 7, C05)."""
import json, os
import vlib, uperlib
from vlib import run_tlc, tla_set, outdir, ToolError


def run(v):
    quick = v.tier == "quick"
    d = outdir("C05")
    amax = 3 if quick else 5
    sizes = "{1, 63, 64, 127, 128, 300}" if quick else "{1, 62, 63, 64, 126, 127, 128, 300}"
    t, zoo, vec = uperlib.tlc_zoo("C05", v.tier, module="MC_Versions",
                                  extra_consts="  AMax = %d\n  PayloadSizes = %s\n" % (amax, sizes), dev_props=("C05",), no_n=True)
    v.add_tlc("MC_Versions", t)
    exe = uperlib.build_zoo(zoo, v.tier, name="zoo_ver_" + v.tier)
    rows = uperlib.run_zoo(exe, "versions", vec, os.path.join(d, "versions.res"))
    summ = rows[-1]
    if not summ.get("summary") or summ["cases"] != t.nvec:
        raise ToolError("replay incomplete")
    names = uperlib.asn_names(v.tier, name="zoo_ver_" + v.tier)
    findings = {f["dev"]: f for f in vlib.known_findings("C05") if f.get("dev")}
    for i, r in enumerate(rows[:-1]):
        c = r["case"]
        r["writer_schema"] = "T%d ::= %s" % (c["tw"], names.get("T%d" % c["tw"]))
        r["reader_schema"] = "T%d ::= %s" % (c["tr"], names.get("T%d" % c["tr"]))
        if i < 40:
            v.violation("%s: %s [written as %s, read as %s]" % (r["class"], r["why"][:300], r["writer_schema"][:120], r["reader_schema"][:120]),
                        r, "versions_%03d.json" % i)
    st = summ["stats"]
    for k, cnt in st.items():
        if k.startswith("dev:"):
            f = findings.get(k[4:])
            if f is None:
                raise ToolError("deviation class %s is not an open finding" % k)
            v.known(f["id"], "%s: %s (%d cases of this run inside the class; for the flat families the unread bit count is predicted exactly)" % (f["id"], f["what"], cnt))
    # ---- T: the reader's per-call events on every cross-version message are a behaviour of the reader machine with the
    # deviation switches of the open findings (Impl(Dev)): what is skipped, what stays unread, where every call ends
    dev = vlib.dev_set("C05", ["NoSkipUnknownAdditions"])
    uperlib.uper_trace(v, "C05", exe, vec, zoo, names, domain="uptrace_read", module="Trace_UperRead",
                       cfg=uperlib.TRACE_CFG.replace("POSTCONDITION", "  Dev = %s\nPOSTCONDITION" % tla_set(dev)))
    v.cov["replay_stats"] = st
    v.cov["traces_validated_against_impl"] += summ["cases"]
    v.cov["evaluations"] += summ["cases"]
    v.cov["distinct_nontrivial"] = st.get("cross-version-ok", 0) + st.get("unknown-reported", 0) + sum(c for k, c in st.items() if k.startswith("dev:"))
    v.cov["zoo_types"] = len(zoo)
    v.cov["rule"] = ("Families of schema versions (Versions.tla / MC_Versions.tla): flat extensible SEQUENCEs with 1-2 root components and "
                     "0..%d appended additions (OCTET STRING / OPTIONAL / DEFAULT), CHOICE with appended alternatives, ENUMERATED with appended "
                     "items, and the versioned SEQUENCE nested inside an extension addition, inside a CHOICE extension alternative, as a root "
                     "component and as a list element, and wide families (ENUMERATED / CHOICE / SEQUENCE with 62.. additions: versions on both sides of "
                     "addition index 64, where the normally small number changes its form). Every ordered (writer version, reader version) pair x every value of the writer version "
                     "(all presence patterns x addition payloads of %s octets, i.e. every interesting first length octet). Expected value = "
                     "Versions!Conv; a sentinel INTEGER(0..7) written behind the message in the same stream must be read back with nothing "
                     "remaining. Non-trivial = cross-version cases. T: the per-call events of the real reader on every cross-version message "
                     "of <= 400 bits (tracing wrapper) are validated by Trace_UperRead.tla with Dev = the open findings: every call ends at "
                     "the bit position the reader machine predicts (what is skipped, what stays unread)." % (amax, sizes))
    v.cov["samples"] = vlib.sample_ndjson(vec, 4, v.seed, lambda r: r["tw"] != r["tr"] and len(r["bits"]) < 300)
    for s in v.cov["samples"]:
        s["writer_schema"] = names.get("T%d" % s["tw"])
        s["reader_schema"] = names.get("T%d" % s["tr"])
    v.cov["checker_cmd"] = "tlc MC_Versions; tools/zoogen.py; cargo build (zoo_ver); vzoo versions; vzoo uptrace_read + tlc Trace_UperRead"
    v.assumptions += ["k <= %d appended additions per family in this tier" % amax,
                      "the open finding NoSkipUnknownAdditions is modelled exactly for the flat families (value right, predicted number of "
                      "unread bits) and as 'any deviation' where the unread bits corrupt following root components"]


def replay(path):
    print(json.dumps(json.load(open(path)), indent=1)[:5000])
    return 0
