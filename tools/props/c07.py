"""C07 - parsing preserves every declared element of an ASN.1 module (DESIGN.md section 7, C07)."""
import json, os, subprocess
import vlib, asnprint
from vlib import run_tlc, run_bin, cargo_build, outdir, ToolError

PER_MODULE = 60


def grammar_cases(pid, tier="quick"):
    d = outdir(pid)
    vec = os.path.join(d, "grammar.ndjson")
    t = run_tlc(pid, "MC_Grammar", "SPECIFICATION Spec\nCONSTANTS\n  K = %d\nINVARIANTS WellFormed Emit\nCHECK_DEADLOCK FALSE\n" % (1 if tier == "quick" else 6),
                replay_to=vec, coverage=False, heap="8g", timeout=3600)
    if t.violation:
        raise ToolError("Grammar.tla: " + t.violation)
    cases = vlib.read_ndjson(vec)
    if len(cases) != t.nreplay or not cases:
        raise ToolError("no grammar cases")
    cases.sort(key=lambda c: int(c["ast"]["name"][1:]))
    return t, cases


def modules_of(cases, d, prefix):
    """Packs the definitions into modules, writes the files; returns [(file, module name, [cases])]."""
    res = []
    for j in range(0, len(cases), PER_MODULE):
        chunk = cases[j:j + PER_MODULE]
        name = "%s%d" % (prefix, j // PER_MODULE)
        f = os.path.join(d, name + ".asn1")
        open(f, "w").write(asnprint.module(name, [c["ast"] for c in chunk]))
        res.append((f, name, chunk))
    return res


def canon_of(files):
    exe = os.path.join(vlib.bin_dir(), "frontend")
    p = subprocess.run([exe, "canon"] + files, stdout=subprocess.PIPE, stderr=subprocess.PIPE, text=True, timeout=900)
    if p.returncode != 0:
        return None, "frontend canon exited %d: %s" % (p.returncode, p.stderr[-800:])
    rows = [json.loads(l) for l in p.stdout.splitlines() if l.strip()]
    if rows and "error" in rows[0]:
        return None, rows[0]["error"]
    return rows, None


def norm(x):
    return json.dumps(x, sort_keys=True)


def run(v):
    d = outdir("C07")
    t, cases = grammar_cases("C07", v.tier)
    v.add_tlc("MC_Grammar", t)
    cargo_build()
    mods = modules_of(cases, d, "Gm")
    nbad = checked = 0
    for f, name, chunk in mods:
        rows, err = canon_of([f])
        if err:
            # attribute the failure to a definition: retry one by one
            culprit = None
            for c in chunk:
                f1 = os.path.join(d, "single.asn1")
                open(f1, "w").write(asnprint.module("Single", [c["ast"]]))
                r1, e1 = canon_of([f1])
                if e1:
                    culprit = (c, e1)
                    break
            nbad += 1
            txt = asnprint.definition(culprit[0]["ast"]) if culprit else "(whole module)"
            v.violation("the front end rejects a definition of the supported subset: %s -> %s" % (txt, (culprit[1] if culprit else err)[:300]),
                        {"module": open(f).read(), "error": err, "definition": txt}, "reject_%03d.json" % nbad)
            continue
        m = rows[0]
        defs = {x["name"]: x for x in m["defs"]}
        order = [x["name"] for x in m["defs"]]
        want_order = ["D1", "E1"] + [c["ast"]["name"] for c in chunk]
        if order != want_order:
            nbad += 1
            v.violation("definitions dropped or reordered in module %s: %s..." % (name, [a for a, b in zip(order, want_order) if a != b][:5]),
                        {"module": open(f).read(), "got_order": order, "expected_order": want_order}, "order_%03d.json" % nbad)
            continue
        if m["name"] != name:
            nbad += 1
            v.violation("module name %r parsed as %r" % (name, m["name"]), {"module": open(f).read()}, "name_%03d.json" % nbad)
        for c in chunk:
            checked += 1
            got = defs[c["ast"]["name"]]
            if norm(got) != norm(c["canon"]):
                nbad += 1
                if nbad <= 30:
                    v.violation("parsed model differs from the declared definition: %s" % asnprint.definition(c["ast"]),
                                {"asn1": asnprint.definition(c["ast"]), "expected_canon": c["canon"], "parsed_canon": got}, "def_%04d.json" % nbad)
    checked += module_level(v, d)
    checked += module_universe(v, d)
    checked += literal_universe(v, d)
    v.cov["traces_validated_against_impl"] += checked
    v.cov["evaluations"] += checked
    v.cov["distinct_nontrivial"] = len(cases)
    v.cov["exhaustive"] = True
    v.cov["rule"] = ("Grammar.tla: bounded universe of the supported subset - every leaf type with every constraint form (13 INTEGER forms incl. "
                     "MIN/MAX/extensible/named numbers, 5 ENUMERATED forms, 5 string types x 8 SIZE spellings, OCTET/BIT STRING incl. named "
                     "bits), SEQUENCE OF / SET OF incl. nesting, SEQUENCE / SET with 1-3 components drawn from 10 types x 6 tags (none, context, "
                     "APPLICATION, PRIVATE, UNIVERSAL) x {mandatory, OPTIONAL, DEFAULT literal of each kind} with the extension marker at every "
                     "position, CHOICE with 1-3 alternatives, references, definition-level tags: %d definitions (one TLC state each, all "
                     "non-trivial) + module-level forms (OIDs, IMPORTS, value references) + MC_Literals (every hstring <= 4 digits, bstring <= 10 bits "
                     "and patterns around 16 / 24 / 32 / 64 bits as value assignment and DEFAULT). Each is printed to ASN.1 text, parsed and resolved "
                     "by the real front end; a canonical JSON projection of the public model fields must equal Grammar!Canon (definition "
                     "order, names, kinds, ranges, named numbers, sizes + extensibility, tags with class, OPTIONAL/DEFAULT + literals, marker "
                     "position)." % len(cases))
    v.cov["samples"] = [{"asn1": asnprint.definition(c["ast"]), "canon": c["canon"]} for c in cases[7::max(1, len(cases) // 4)][:4]]
    v.cov["checker_cmd"] = "tlc MC_Grammar; tlc MC_Modules; tlc MC_Literals; tools/asnprint.py; harness frontend canon / canon1"
    v.assumptions += ["the printer (tools/asnprint.py) emits exactly one spelling per AST node; layout variation is C13's subject",
                      "subset as parsed by asn1rs (no extension groups, no second marker, marker after at least one component)"]


MODULE_LEVEL = [
    # (text, expected canonical fields) - module header forms, imports, value references
    ("Hdr1 DEFINITIONS AUTOMATIC TAGS ::= BEGIN A ::= BOOLEAN END", {"name": "Hdr1", "oid": [], "imports": [], "ndefs": 1, "values": []}),
    ("Hdr2 { iso(1) standard(0) 42 } DEFINITIONS AUTOMATIC TAGS ::= BEGIN A ::= BOOLEAN END",
     {"name": "Hdr2", "oid": [["both", "iso", 1], ["both", "standard", 0], ["number", "", 42]], "imports": [], "ndefs": 1, "values": []}),
    ("Hdr3 { iso org 3 } DEFINITIONS AUTOMATIC TAGS ::= BEGIN A ::= BOOLEAN END",
     {"name": "Hdr3", "oid": [["name", "iso", 0], ["name", "org", 0], ["number", "", 3]], "imports": [], "ndefs": 1, "values": []}),
    ("Imp1 DEFINITIONS AUTOMATIC TAGS ::= BEGIN IMPORTS X, Y FROM Other Z FROM Third { iso(1) 5 }; A ::= BOOLEAN END",
     {"name": "Imp1", "oid": [], "imports": [{"what": ["X", "Y"], "from": "Other", "oid": []},
                                              {"what": ["Z"], "from": "Third", "oid": [["both", "iso", 1], ["number", "", 5]]}], "ndefs": 1, "values": []}),
    # every order of clauses with and without an object identifier (state must not carry over from clause to clause)
    ("Imp2 DEFINITIONS AUTOMATIC TAGS ::= BEGIN IMPORTS Z FROM Third { iso(1) 5 } X, Y FROM Other W FROM Last { iso 7 } V FROM Plain; A ::= BOOLEAN END",
     {"name": "Imp2", "oid": [], "imports": [{"what": ["Z"], "from": "Third", "oid": [["both", "iso", 1], ["number", "", 5]]},
                                              {"what": ["X", "Y"], "from": "Other", "oid": []},
                                              {"what": ["W"], "from": "Last", "oid": [["name", "iso", 0], ["number", "", 7]]},
                                              {"what": ["V"], "from": "Plain", "oid": []}], "ndefs": 1, "values": []}),
    ("Imp3 { iso(1) 2 } DEFINITIONS AUTOMATIC TAGS ::= BEGIN IMPORTS a, B FROM One { iso(1) 1 } c FROM Two d FROM Three; A ::= BOOLEAN END",
     {"name": "Imp3", "oid": [["both", "iso", 1], ["number", "", 2]],
      "imports": [{"what": ["a", "B"], "from": "One", "oid": [["both", "iso", 1], ["number", "", 1]]},
                  {"what": ["c"], "from": "Two", "oid": []}, {"what": ["d"], "from": "Three", "oid": []}], "ndefs": 1, "values": []}),
    ("Val1 DEFINITIONS AUTOMATIC TAGS ::= BEGIN a INTEGER ::= 5 b INTEGER ::= -7 c BOOLEAN ::= TRUE d UTF8String ::= \"hi\" A ::= INTEGER (a..10) END",
     {"name": "Val1", "oid": [], "imports": [], "ndefs": 1,
      "values": [{"name": "a", "v": {"k": "int", "v": 5}}, {"name": "b", "v": {"k": "int", "v": -7}}, {"name": "c", "v": {"k": "bool", "v": True}},
                 {"name": "d", "v": {"k": "str", "v": [104, 105]}}]}),
]


def oid_text(oid):
    if not oid:
        return ""
    return " { " + " ".join("%s(%d)" % (n, k) if f == "both" else n if f == "name" else str(k) for f, n, k in oid) + " }"


def module_universe(v, d):
    """MC_Modules: every header form x every sequence of <= 3 IMPORTS clauses with / without object identifier."""
    vec = os.path.join(d, "modules.ndjson")
    t = run_tlc("C07", "MC_Modules", "SPECIFICATION Spec\nINVARIANTS Emit\nCHECK_DEADLOCK FALSE\n", replay_to=vec, coverage=False, heap="2g")
    if t.violation:
        raise ToolError("MC_Modules: " + t.violation)
    v.add_tlc("MC_Modules", t)
    mods = vlib.read_ndjson(vec)
    if len(mods) != t.nreplay or not mods:
        raise ToolError("no module cases")
    texts = []
    for i, m in enumerate(mods):
        imp = ""
        if m["imports"]:
            imp = "IMPORTS " + " ".join("%s FROM %s%s" % (", ".join(c["what"]), c["from"], oid_text(c["oid"])) for c in m["imports"]) + "; "
        texts.append("%s%s DEFINITIONS AUTOMATIC TAGS ::= BEGIN %sA ::= BOOLEAN END\n" % (m["name"], oid_text(m["oid"]), imp))
    fin, fout = os.path.join(d, "mu.in"), os.path.join(d, "mu.out")
    with open(fin, "w") as f:
        for tx in texts:
            f.write(json.dumps({"text": tx}) + "\n")
    p = run_bin("frontend", ["canon1", fin, fout])
    if p.returncode != 0:
        raise ToolError("frontend canon1 failed: " + p.stderr[-800:])
    rows = vlib.read_ndjson(fout)
    if len(rows) != len(mods):
        raise ToolError("frontend canon1: %d results for %d modules" % (len(rows), len(mods)))
    nbad = 0
    for i, (m, tx, r) in enumerate(zip(mods, texts, rows)):
        if "error" in r:
            why = "module-level form rejected: %s" % r["error"][:200]
        else:
            got = {"name": r["name"], "oid": r["oid"], "imports": r["imports"]}
            want = {"name": m["name"], "oid": m["oid"], "imports": m["imports"]}
            why = None if norm(got) == norm(want) else "module header / IMPORTS differ from the declared ones"
        if why:
            nbad += 1
            if nbad <= 20:
                v.violation("%s: %s" % (why, tx.strip()[:160]), {"module": tx, "declared": m, "parsed": r}, "modules_%03d.json" % nbad)
    return len(mods)


def literal_text(c):
    if c["kind"] == "str":
        return '"%s"' % "".join(chr(x) for x in c["src"])
    if c["kind"] == "hex":
        digits = "".join("0123456789abcdef"[x] if c["lower"] else "0123456789ABCDEF"[x] for x in c["src"])
        return "'%s'%s" % (digits, "h" if c["lower"] else "H")
    return "'%s'%s" % ("".join(str(x) for x in c["src"]), "b" if c["lower"] else "B")


def literal_universe(v, d):
    """MC_Literals: every short hstring / bstring as value assignment and as DEFAULT of OCTET STRING / BIT STRING components."""
    vec = os.path.join(d, "literals.ndjson")
    t = run_tlc("C07", "MC_Literals", "SPECIFICATION Spec\nINVARIANTS WellFormed Emit\nCHECK_DEADLOCK FALSE\n", replay_to=vec, coverage=False, heap="2g")
    if t.violation:
        raise ToolError("MC_Literals: " + t.violation)
    v.add_tlc("MC_Literals", t)
    cases = vlib.read_ndjson(vec)
    if len(cases) != t.nreplay or not cases:
        raise ToolError("no literal cases")
    texts = []
    for c in cases:
        lit = literal_text(c)
        if c["kind"] == "str":
            texts.append("Lit DEFINITIONS AUTOMATIC TAGS ::= BEGIN v1 UTF8String ::= %s v2 IA5String ::= %s "
                         "S ::= SEQUENCE { a UTF8String DEFAULT %s, b IA5String DEFAULT %s, c BOOLEAN } END\n" % (lit, lit, lit, lit))
            continue
        texts.append("Lit DEFINITIONS AUTOMATIC TAGS ::= BEGIN v1 OCTET STRING ::= %s v2 BIT STRING ::= %s "
                     "S ::= SEQUENCE { a OCTET STRING DEFAULT %s, b BIT STRING DEFAULT %s, c BOOLEAN } END\n" % (lit, lit, lit, lit))
    fin, fout = os.path.join(d, "lit.in"), os.path.join(d, "lit.out")
    with open(fin, "w") as f:
        for tx in texts:
            f.write(json.dumps({"text": tx}) + "\n")
    p = run_bin("frontend", ["canon1", fin, fout])
    if p.returncode != 0:
        raise ToolError("frontend canon1 failed: " + p.stderr[-800:])
    rows = vlib.read_ndjson(fout)
    if len(rows) != len(cases):
        raise ToolError("frontend canon1: %d results for %d modules" % (len(rows), len(cases)))
    nbad = 0
    for c, tx, r in zip(cases, texts, rows):
        want = {"k": "oct", "v": c["octets"]} if c["kind"] != "str" else {"k": "str", "v": c["src"]}
        if "error" in r:
            why = "literal rejected: %s" % r["error"][:200]
        else:
            try:
                got = [r["values"][0]["v"], r["values"][1]["v"], r["defs"][0]["t"]["comps"][0]["dflt"][0], r["defs"][0]["t"]["comps"][1]["dflt"][0]]
            except (KeyError, IndexError):
                got = []
            where = ["OCTET STRING value assignment", "BIT STRING value assignment", "OCTET STRING DEFAULT", "BIT STRING DEFAULT"]
            if c["kind"] == "str":
                where = ["UTF8String value assignment", "IA5String value assignment", "UTF8String DEFAULT", "IA5String DEFAULT"]
            bad = [w for w, g in zip(where, got) if norm(g) != norm(want)] if len(got) == 4 else ["model lacks the value assignments / defaults"]
            why = None if not bad else "literal %s is carried as %s, declared octets %s (%s)" % (
                literal_text(c), [g.get("v") for g in got if isinstance(g, dict)][:1], c["octets"], ", ".join(bad))
        if why:
            nbad += 1
            if nbad <= 20:
                v.violation(why, {"module": tx, "case": c, "parsed": r}, "literal_%03d.json" % nbad)
    return len(cases)


def module_level(v, d):
    n = 0
    for i, (text, want) in enumerate(MODULE_LEVEL):
        f = os.path.join(d, "ml_%d.asn1" % i)
        open(f, "w").write(text + "\n")
        rows, err = canon_of([f])
        n += 1
        if err:
            v.violation("module-level form rejected: %s -> %s" % (text[:80], err[:200]), {"module": text, "error": err}, "ml_%d.json" % i)
            continue
        m = rows[0]
        got = {"name": m["name"], "oid": m["oid"], "imports": m["imports"], "ndefs": len(m["defs"]),
               "values": [{"name": x["name"], "v": x["v"]} for x in m["values"]]}
        if norm(got) != norm(want):
            v.violation("module-level elements differ for: %s" % text[:80], {"module": text, "expected": want, "parsed": got}, "ml_%d.json" % i)
    return n


def replay(path):
    print(json.dumps(json.load(open(path)), indent=1)[:5000])
    return 0
