"""C04, second half: the protobuf reader and the DER reader under the byte-level fault model (ByteFaults.tla)."""
import json, os, resource, subprocess
import vlib, uperlib
from vlib import run_tlc, outdir, ToolError, log

SEEDCAP = 100000


def byte_faults(pid, tier, tag, max_pos, raw_len, sim=None):
    d = outdir(pid)
    vec = os.path.join(d, "bytefaults_%s.ndjson" % tag)
    cfg = ("SPECIFICATION Spec\nCONSTANTS\n  MaxPos = %d\n  MaxFaults = %d\n  RawLen = %d\nINVARIANTS WellFormed %s\nCHECK_DEADLOCK FALSE\n"
           % (max_pos, 1 if sim is None else sim[0], raw_len, "Emit" if sim is None else "EmitFull"))
    if sim is None:
        t = run_tlc(pid, "MC_ByteFaults", cfg, tag="bytefaults_" + tag, replay_to=vec, coverage=False, heap="8g", timeout=3600)
    else:
        # fault sequences by seeded simulation: every behaviour grows one sequence to MaxFaults faults
        t = run_tlc(pid, "MC_ByteFaults", cfg, tag="bytefaults_" + tag, replay_to=vec, coverage=False, heap="8g", timeout=3600, workers=1,
                    simulate="num=%d" % sim[1], extra=["-depth", str(sim[0]), "-seed", str(sim[2])])
    if t.violation:
        raise ToolError("MC_ByteFaults: " + t.violation)
    if t.nreplay == 0:
        raise ToolError("MC_ByteFaults printed nothing")
    if sim is not None:
        # the simulator prints every prefix; keep the tables line (added below) and the complete sequences, once each
        rows = vlib.read_ndjson(vec)
        seen, keep = set(), []
        for r in rows:
            if r["k"] == "seq" and len(r["fs"]) == sim[0]:
                key = json.dumps(r, sort_keys=True)
                if key not in seen:
                    seen.add(key)
                    keep.append(r)
        if len(keep) > 4000:
            import random
            keep = random.Random(sim[2]).sample(keep, 4000)      # (seeded) the simulator hands out every successor of the last step
        first = os.path.join(d, "bytefaults_%s.ndjson" % tag.split("_sim")[0])
        tables = [r for r in vlib.read_ndjson(first) if r["k"] == "tables"]
        with open(vec, "w") as o:
            for r in tables + keep:
                o.write(json.dumps(r) + "\n")
        t.nreplay = len(keep) + 1
    return t, vec


def run_restartable(args_of, res, progress, limit_s=3, mem=2 << 30):
    """Runs a sandboxed replay, restarting behind every case that hangs / aborts. Returns (rows, incidents)."""
    incidents, allrows, start = [], [], 0
    for attempt in range(60):
        def lim():
            resource.setrlimit(resource.RLIMIT_AS, (mem, mem))
            resource.setrlimit(resource.RLIMIT_CORE, (0, 0))
        e = dict(os.environ)
        e["RUST_BACKTRACE"] = "0"
        p = subprocess.run(args_of(start), stdout=subprocess.PIPE, stderr=subprocess.PIPE, text=True, env=e, preexec_fn=lim, timeout=4 * 3600)
        rows = vlib.read_ndjson(res) if os.path.exists(res) else []
        if p.returncode == 0:
            return allrows + rows, incidents
        try:
            idx = int(open(progress).read().strip())
        except Exception:
            raise ToolError("replay died without progress information: " + p.stderr[-500:])
        kind = "hang (no result within %d s)" % limit_s if p.returncode == 3 else "abort (exit %d, e.g. allocation beyond the %d MiB address-space limit): %s" % (
            p.returncode, mem >> 20, p.stderr.strip().splitlines()[-1][:200] if p.stderr.strip() else "")
        incidents.append({"index": idx, "kind": kind})
        allrows += [r for r in rows if not r.get("summary")]
        start = idx + 1
    # so many incidents are the answer: every one of them is a violation, the rest was not replayed
    return allrows, incidents


def run(v):
    quick = v.tier == "quick"
    d = outdir("C04")
    findings = {f["dev"]: f for f in vlib.known_findings("C04") if f.get("dev")}
    # ---------------------------------------------------------------- protobuf reader
    t, fvec = byte_faults("C04", v.tier, "p", 40 if quick else 60, 1)
    v.add_tlc("MC_ByteFaults", t)
    fsets = [(fvec, t.nreplay, 2 if quick else 3)]       # (every 3rd of the thorough tier's three times larger seed set)
    if not quick:
        t2, fvec2 = byte_faults("C04", v.tier, "p_sim2", 60, 0, sim=(2, 120, v.seed))
        t3, fvec3 = byte_faults("C04", v.tier, "p_sim3", 60, 0, sim=(3, 60, v.seed + 1))
        v.add_tlc("MC_ByteFaults_sim2", t2)
        v.add_tlc("MC_ByteFaults_sim3", t3)
        fsets += [(fvec2, t2.nreplay, 3), (fvec3, t3.nreplay, 3)]
    devs = ["ProtoNestedList", "ProtoChoiceListAlternative"]
    tz, zoo, pvec = uperlib.tlc_zoo("C04", v.tier, module="MC_Proto", dev_props=("C17",), all_devs=devs)
    v.add_tlc("MC_Proto", tz)
    exe = uperlib.build_zoo(zoo, v.tier, name="zoo_proto")
    names = uperlib.asn_names(v.tier, name="zoo_proto")
    stats, ncases, k = {}, 0, 0
    for fi, (fv, ndesc, stride) in enumerate(fsets):
        res, progress = os.path.join(d, "pdecode_%d.res" % fi), os.path.join(d, "pdecode_%d.progress" % fi)
        rows, incidents = run_restartable(
            lambda start: [exe, "pdecode", fv, res, "start=%d" % start, "progress=" + progress, "seeds=" + pvec, "seedstride=%d" % stride,
                           "exclude=" + ",".join(sorted(findings))], res, progress)
        descs = None
        for inc in incidents:
            if descs is None:
                descs = [r for r in vlib.read_ndjson(fv) if r["k"] != "tables"]
            inc["fault"] = descs[inc["index"] // SEEDCAP]
            inc["seed_index"] = inc["index"] % SEEDCAP
            k += 1
            v.violation("protobuf reader did not return: %s (fault %s on seed %d)" % (inc["kind"], json.dumps(inc["fault"])[:120], inc["seed_index"]),
                        inc, "pdecode_incident_%03d.json" % k)
        for r in rows:
            if r.get("summary"):
                ncases += r["cases"]
                for kk, c in r["stats"].items():
                    stats[kk] = stats.get(kk, 0) + c
                v.cov["protobuf_seeds"] = r["seeds"]
                for ti, dname in r.get("devtypes", {}).items():
                    f = findings[dname]
                    v.known(f["id"], "%s: %s (T%s ::= %s is not a decode target)" % (f["id"], f["what"], ti, names.get("T%s" % ti)))
                continue
            k += 1
            r["asn1"] = "T%d ::= %s" % (r["type"], names.get("T%d" % r["type"]))
            if k <= 40:
                v.violation("protobuf reader %s: %s [%s, input %s]" % (r["class"], r["why"][:200], r["asn1"][:100], r["hex"][:60]), r, "pdecode_%03d.json" % k)
    v.cov["protobuf_replay_stats"] = stats
    v.cov["traces_validated_against_impl"] += ncases
    v.cov["evaluations"] += ncases
    # ---------------------------------------------------------------- DER reader
    from props import c20
    td, dvec = c20.der_vectors("C04", v.tier)
    v.add_tlc("MC_Der", td)
    cargo = vlib.cargo_build()
    res = os.path.join(d, "derfault.res")
    progress = os.path.join(d, "derfault.progress")
    exe2 = os.path.join(vlib.bin_dir(), "replay")
    dstats, dcases = {}, 0
    for fi, (fv, ndesc, stride) in enumerate(fsets):
        rows, incidents = run_restartable(
            lambda start: [exe2, "derfault", fv, res, "start=%d" % start, "progress=" + progress, "seeds=" + dvec, "seedstride=%d" % (stride * 4)], res, progress)
        for inc in incidents:
            k += 1
            v.violation("DER reader did not return: %s" % inc["kind"], inc, "derfault_incident_%03d.json" % k)
        for r in rows:
            if r.get("summary"):
                dcases += r["cases"]
                for kk, c in r["stats"].items():
                    dstats[kk] = dstats.get(kk, 0) + c
                v.cov["der_seeds"] = r["seeds"]
                continue
            k += 1
            if k <= 60:
                v.violation("DER reader %s: %s [%s on input %s]" % (r["class"], r["why"][:200], r["op"], r["hex"][:60]), r, "derfault_%03d.json" % k)
    v.cov["der_replay_stats"] = dstats
    v.cov["traces_validated_against_impl"] += dcases
    v.cov["evaluations"] += dcases
    v.cov["rule"] += (" Byte-oriented decoders: ByteFaults.tla / MC_ByteFaults.tla enumerate every single fault (bit flip, truncation, deletion, "
                      "insertion / overwrite with each of 22 interesting octets, splice of each of 37 crafted hostile fields) at every position <= %d, "
                      "every raw input of <= %d octets (all values) and all strings of %d interesting octets%s; each is applied to every distinct "
                      "encoding the real ProtobufWriter produces for the protobuf zoo (%s seeds, decoded as the seed's type and as the next type) "
                      "and to the DER vectors of MC_Der (%s seeds: read_identifier, read_length, read_boolean, read_integer_i64/u64 and the "
                      "BasicReader number / boolean / enumerated readers): %d protobuf and %d DER decodes under watchdog, address-space limit and "
                      "counting allocator." % (40 if quick else 140, 1 if quick else 2, 2 if quick else 3,
                                               "" if quick else "; plus 4000 + 4000 seeded fault sequences of 2 / 3 faults (TLC -simulate, sampled)",
                                               v.cov.get("protobuf_seeds"), v.cov.get("der_seeds"), ncases, dcases))
    v.cov["checker_cmd"] += "; tlc MC_ByteFaults; vzoo pdecode; replay derfault"
