#!/usr/bin/env python3
"""Transcribes third-party UPER expectations that are already in the repository's tests (the '// from playground' hex
fixtures, produced with https://asn1.io/asn1playground, i.e. by an independent PER implementation) into the type/value
encoding of X691.tla.  Output: spec/fixtures.ndjson (committed).  Trace_Fixtures.tla must reproduce every one of them:
the specification is validated before it is allowed to judge the implementation."""
import json, os

NOCON = {"c": "none", "lb": 0, "ub": 0, "ext": False}
def rng(lb, ub, ext=False): return {"c": "rng", "lb": lb, "ub": ub, "ext": ext}
NOSZ = {"c": "none", "lb": 0, "ub": 0, "ext": False}
def sz(lb, ub, ext=False): return {"c": "sz", "lb": lb, "ub": ub, "ext": ext}
INT = {"k": "int", "con": NOCON}
NULL = {"k": "null"}
def tstr(cs, s=NOSZ): return {"k": "str", "cs": cs, "sz": s}
def tbits(s=NOSZ): return {"k": "bits", "sz": s}
def seqof(of, s=NOSZ): return {"k": "seqof", "of": of, "sz": s}
def comp(t, mode="man", dflt=None): return {"t": t, "mode": mode, "dflt": [] if dflt is None else [dflt]}
def seq(comps, nroot=None, ext=False, ord=None, set=False):
    return {"k": "seq", "set": set, "comps": comps, "nroot": len(comps) if nroot is None else nroot, "ext": ext,
            "ord": ord or list(range(1, len(comps) + 1))}
def choice(alts, nroot=None, ext=False): return {"k": "choice", "alts": alts, "nroot": len(alts) if nroot is None else nroot, "ext": ext}
def s(text): return [ord(c) for c in text]
def bits(bytes_, n): return [(bytes_[i // 8] >> (7 - i % 8)) & 1 for i in range(n)]

F = []
def fx(name, t, v, nbits, hexbytes):
    F.append({"name": name, "t": t, "v": v, "bits": bits(hexbytes, nbits)})

U = seqof(INT)
fx("sequence_of/unconstrained", U, [1, 2, 3, 4, 5], 88, [0x05, 0x01, 0x01, 0x01, 0x02, 0x01, 0x03, 0x01, 0x04, 0x01, 0x05])
fx("set_of/unconstrained_rev", U, [5, 4, 3, 2, 1], 88, [0x05, 0x01, 0x05, 0x01, 0x04, 0x01, 0x03, 0x01, 0x02, 0x01, 0x01])
fx("sequence_of/fixed", seqof(INT, sz(3, 3)), [1, 2, 3], 48, [0x01, 0x01, 0x01, 0x02, 0x01, 0x03])
fx("sequence_of/small_min", seqof(INT, sz(2, 3)), [1, 2], 33, [0x00, 0x80, 0x80, 0x81, 0x00])
fx("sequence_of/small_max", seqof(INT, sz(2, 3)), [1, 2, 3], 49, [0x80, 0x80, 0x80, 0x81, 0x00, 0x81, 0x80])
fx("sequence_of/ext_small", seqof(INT, sz(2, 3, True)), [1, 2, 3], 50, [0x40, 0x40, 0x40, 0x40, 0x80, 0x40, 0xC0])
fx("sequence_of/ext_extended", seqof(INT, sz(2, 3, True)), [1, 2, 3, 4, 5], 89,
   [0x82, 0x80, 0x80, 0x80, 0x81, 0x00, 0x81, 0x80, 0x82, 0x00, 0x82, 0x80])
fx("set_of/ext_extended", seqof(INT, sz(2, 3, True)), [1, 2, 3, 5, 6], 89,
   [0x82, 0x80, 0x80, 0x80, 0x81, 0x00, 0x81, 0x80, 0x82, 0x80, 0x83, 0x00])

def one(t): return seq([comp(t)])
fx("ia5/unconstrained", one(tstr("ia5")), [[s("unconstrained")]], 99, [0x0D, 0xEB, 0xBB, 0x1E, 0xFD, 0xDC, 0xFA, 0x72, 0xC3, 0xA7, 0x76, 0x5C, 0x80])
fx("ia5/fixed", one(tstr("ia5", sz(8, 8))), [[s("exactly8")]], 56, [0xCB, 0xE3, 0x0E, 0x3E, 0x9B, 0x3C, 0xB8])
fx("ia5/small_min", one(tstr("ia5", sz(4, 6))), [[s("four")]], 30, [0x33, 0x6F, 0xEB, 0xC8])
fx("ia5/small_max", one(tstr("ia5", sz(4, 6))), [[s("s-i-x!")]], 44, [0xB9, 0xAD, 0xD2, 0xB7, 0xC2, 0x10])
fx("ia5/ext_small", one(tstr("ia5", sz(4, 6, True))), [[s("four")]], 31, [0x19, 0xB7, 0xF5, 0xE4])
fx("ia5/ext_extended", one(tstr("ia5", sz(4, 6, True))), [[s("seven!!")]], 58, [0x83, 0xF3, 0xCB, 0xDB, 0x2E, 0xE4, 0x28, 0x40])
fx("numeric/unconstrained", one(tstr("num")), [[s(" 0123456789")]], 52, [0x0B, 0x01, 0x23, 0x45, 0x67, 0x89, 0xA0])
fx("numeric/fixed", one(tstr("num", sz(8, 8))), [[s("12345678")]], 32, [0x23, 0x45, 0x67, 0x89])
fx("numeric/small_min", one(tstr("num", sz(4, 6))), [[s("1234")]], 18, [0x08, 0xD1, 0x40])
fx("numeric/small_max", one(tstr("num", sz(4, 6))), [[s("123456")]], 26, [0x88, 0xD1, 0x59, 0xC0])
fx("numeric/ext_small", one(tstr("num", sz(4, 6, True))), [[s("1234")]], 19, [0x04, 0x68, 0xA0])
fx("numeric/ext_extended", one(tstr("num", sz(4, 6, True))), [[s("1234567")]], 37, [0x83, 0x91, 0xA2, 0xB3, 0xC0])
for cs in ("prt", "vis"):
    fx(cs + "/fixed", one(tstr(cs, sz(8, 8))), [[s("12345678")]], 56, [0x62, 0xC9, 0x9B, 0x46, 0xAD, 0x9B, 0xB8])
    fx(cs + "/small_min", one(tstr(cs, sz(4, 6))), [[s("1234")]], 30, [0x18, 0xB2, 0x66, 0xD0])
    fx(cs + "/small_max", one(tstr(cs, sz(4, 6))), [[s("123456")]], 44, [0x98, 0xB2, 0x66, 0xD1, 0xAB, 0x60])
    fx(cs + "/ext_small", one(tstr(cs, sz(4, 6, True))), [[s("1234")]], 31, [0x0C, 0x59, 0x33, 0x68])
    fx(cs + "/ext_extended", one(tstr(cs, sz(4, 6, True))), [[s("1234567")]], 58, [0x83, 0xB1, 0x64, 0xCD, 0xA3, 0x56, 0xCD, 0xC0])
fx("utf8/unconstrained", one(tstr("utf8")), [[s("unconstrained")]], 112, [0x0D] + s("unconstrained"))
fx("utf8/fixed", one(tstr("utf8", sz(8, 8))), [[s("exactly8")]], 72, [0x08] + s("exactly8"))
fx("utf8/fixed_ext_smaller", one(tstr("utf8", sz(8, 8, True))), [[s("lt8")]], 32, [0x03] + s("lt8"))
fx("utf8/fixed_ext_greater", one(tstr("utf8", sz(8, 8, True))), [[s("exactly_9")]], 80, [0x09] + s("exactly_9"))
fx("utf8/small", one(tstr("utf8", sz(4, 6))), [[s("s-i-x!")]], 56, [0x06] + s("s-i-x!"))
fx("utf8/ext_extended", one(tstr("utf8", sz(4, 6, True))), [[s("seven!!")]], 64, [0x07] + s("seven!!"))
fx("bitstring/unconstrained_6", one(tbits()), [[bits([0b10101100], 6)]], 14, [0x06, 0xAC])
fx("bitstring/unconstrained_5_bytes", one(tbits()), [[bits([0x12, 0x34, 0x56, 0x78, 0x90], 40)]], 48, [0x28, 0x12, 0x34, 0x56, 0x78, 0x90])
fx("bitstring/fixed", one(tbits(sz(8, 8))), [[bits([0x12], 8)]], 8, [0x12])
fx("bitstring/small_max", one(tbits(sz(4, 6))), [[bits([0xFF], 6)]], 8, [0xBF])
fx("bitstring/ext_small", one(tbits(sz(4, 6, True))), [[bits([0xAF], 6)]], 9, [0x55, 0x80])
fx("bitstring/ext_extended_1", one(tbits(sz(4, 6, True))), [[bits([0b10101100], 7)]], 16, [0x83, 0xD6])
fx("bitstring/ext_extended_7", one(tbits(sz(4, 6, True))), [[bits([0b10101101, 0b01011000], 14)]], 23, [0x87, 0x56, 0xAC])
fx("bitstring/fixed_2_flag", one(tbits(sz(2, 2))), [[[1, 0]]], 2, [0x80])

basic = seq([comp(tstr("utf8")), comp(INT)])
fx("sequence/basic", basic, [[s("hello world")], [778]], 120,
   [0x0B, 0x68, 0x65, 0x6C, 0x6C, 0x6F, 0x20, 0x77, 0x6F, 0x72, 0x6C, 0x64, 0x02, 0x03, 0x0A])
ext = seq([comp(tstr("utf8")), comp(INT), comp(tstr("utf8"))], nroot=2, ext=True)
fx("sequence/extensible", ext, [[s("bye bye")], [774], [s("great extension")]], 8 * 29 + 1,
   [0x83, 0xB1, 0x3C, 0xB2, 0x90, 0x31, 0x3C, 0xB2, 0x81, 0x01, 0x83, 0x00, 0x88, 0x07, 0xB3, 0xB9, 0x32, 0xB0, 0xBA, 0x10, 0x32, 0xBC,
    0x3A, 0x32, 0xB7, 0x39, 0xB4, 0xB7, 0xB7, 0x00])
# SET { abc [APPLICATION 7] UTF8String, def INTEGER (UNIVERSAL 2) }: canonical order def, abc
bset = seq([comp(tstr("utf8")), comp(INT)], ord=[2, 1], set=True)
fx("set/basic", bset, [[s("hello world")], [778]], 120,
   [0x02, 0x03, 0x0A, 0x0B, 0x68, 0x65, 0x6C, 0x6C, 0x6F, 0x20, 0x77, 0x6F, 0x72, 0x6C, 0x64])
eset = seq([comp(tstr("utf8")), comp(INT), comp(tstr("utf8")), comp(tstr("utf8"))], nroot=2, ext=True, ord=[2, 1, 3, 4], set=True)
fx("set/extensible_none", eset, [[s("bye bye")], [774], [], []], 89, [0x01, 0x01, 0x83, 0x03, 0xB1, 0x3C, 0xB2, 0x90, 0x31, 0x3C, 0xB2, 0x80])
fx("set/extensible_jkl", eset, [[s("bye bye")], [774], [s("jkl")], []], 8 * 17 + 2,
   [0x81, 0x01, 0x83, 0x03, 0xB1, 0x3C, 0xB2, 0x90, 0x31, 0x3C, 0xB2, 0x81, 0x81, 0x00, 0xDA, 0x9A, 0xDB, 0x00])
nullseq = seq([comp(tstr("utf8")), comp(NULL), comp(NULL)])
fx("null/sequence", nullseq, [[s("abc")], [0], [0]], 32, [0x03, 0x61, 0x62, 0x63])
nullch = choice([tstr("utf8"), NULL, NULL])
fx("null/choice_abc", nullch, {"i": 0, "v": s("abc")}, 34, [0x00, 0xD8, 0x58, 0x98, 0xC0])
fx("null/choice_def", nullch, {"i": 1, "v": 0}, 2, [0x40])
fx("null/choice_ghi", nullch, {"i": 2, "v": 0}, 2, [0x80])
cb = choice([tstr("utf8"), tstr("utf8"), INT])
ce = choice([tstr("utf8"), INT, INT, cb, tstr("utf8")], nroot=2, ext=True)
fx("choice/ext_abc_empty", ce, {"i": 0, "v": []}, 10, [0x00, 0x00])
fx("choice/ext_abc_hello", ce, {"i": 0, "v": s("Hello World!")}, 106, [0x03, 0x12, 0x19, 0x5b, 0x1b, 0x1b, 0xc8, 0x15, 0xdb, 0xdc, 0x9b, 0x19, 0x08, 0x40])
fx("choice/ext_def_0", ce, {"i": 1, "v": 0}, 18, [0x40, 0x40, 0x00])
fx("choice/ext_def_1337", ce, {"i": 1, "v": 1337}, 26, [0x40, 0x81, 0x4e, 0x40])
fx("choice/ext_ghi_0", ce, {"i": 2, "v": 0}, 32, [0x80, 0x02, 0x01, 0x00])
big = choice([tstr("utf8")] + [INT] * 130, nroot=1, ext=True)
fx("choice/more_than_63_e69_0", big, {"i": 70, "v": 0}, 42, [0xC0, 0x51, 0x40, 0x80, 0x40, 0x00])
fx("choice/more_than_63_e69_22", big, {"i": 70, "v": 22}, 42, [0xC0, 0x51, 0x40, 0x80, 0x45, 0x80])

out = os.path.join(os.path.dirname(os.path.dirname(os.path.abspath(__file__))), "spec", "fixtures.ndjson")
with open(out, "w") as f:
    for x in F:
        f.write(json.dumps(x) + "\n")
print(len(F), "fixtures ->", out)
