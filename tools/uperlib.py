"""Shared pipeline of the type-level codec checks: TLC (MC_Uper) -> zoo + vectors -> zoogen -> cargo -> replay."""
import json, os, re, shutil, subprocess, time
import vlib, zoogen
from vlib import run_tlc, tla_set, outdir, ToolError, log

DEVS = ["CountNotFragmented", "BitStringFragmentation", "LenDetUbGe64K", "NoSkipUnknownAdditions", "EnumIndexByDeclaration", "ChoiceIndexByDeclaration", "IntegerMaxAsBound", "NamedBitsTrailingZeros", "UnsignedAboveI64Max"]
PREFIXES = ('<<"REPLAY", ', '<<"ZOO", ')


def tlc_zoo(pid, tier, module="MC_Uper", extra_consts="", dev_props=("C01", "C02", "C10"), no_n=False, all_devs=None):
    """Runs the zoo instance; returns (tlc result, zoo dict, vector file)."""
    d = outdir(pid)
    devs = sorted({x for p in dev_props for x in vlib.dev_set(p, all_devs or DEVS)})
    N = 3 if tier == "quick" else 4
    raw = os.path.join(d, module + ".raw")
    cfg = ("SPECIFICATION Spec\nCONSTANTS\n  Dev = %s\n  W7 = 7\n  W14 = 14\n%s%sINVARIANTS RefOk %sEmit\nCHECK_DEADLOCK FALSE\n"
           % (tla_set(devs), "" if no_n else "  N = %d\n" % N, extra_consts, "Refines " if module == "MC_Uper" else ""))
    t = run_tlc(pid, module, cfg, replay_to=raw, coverage=False, heap="12g", timeout=2 * 3600, prefixes=PREFIXES)
    if t.violation:
        raise ToolError(module + " (reference level): " + t.violation)
    zoo = {}
    vec = os.path.join(d, module + ".ndjson")
    nvec = 0
    with open(vec, "w") as o:
        for l in open(raw):
            r = json.loads(l)
            if "t" in r and "v" not in r:
                zoo[r["ti"]] = r["t"]
            else:
                o.write(l)
                nvec += 1
    os.remove(raw)
    if not zoo or nvec == 0:
        raise ToolError("no zoo / vectors from " + module)
    if nvec + len(zoo) != t.distinct:
        raise ToolError("lines printed (%d) do not match TLC's distinct states (%d)" % (nvec + len(zoo), t.distinct))
    t.nvec = nvec
    return t, zoo, vec


def build_zoo(zoo, tier, features=(), name=None):
    """Generates and compiles the zoo crate against /repo's current tree; returns the path of the binary."""
    name = name or ("zoo_" + tier)
    zd = os.path.join(vlib.OUT, name)
    zoogen.generate(zoo, zd, features)
    lock = os.path.join(zd, "Cargo.lock")
    if not os.path.exists(lock):
        shutil.copy("/repo/Cargo.lock", lock)
    e = dict(os.environ)
    e["CARGO_NET_OFFLINE"] = "true"
    tdir = os.path.join(vlib.HARNESS, "target", name)
    e["CARGO_TARGET_DIR"] = tdir
    t0 = time.time()
    p = subprocess.run(["cargo", "build", "--offline", "--quiet"], cwd=zd, env=e, stdout=subprocess.PIPE, stderr=subprocess.STDOUT, text=True)
    if p.returncode != 0:
        errs = "\n".join(p.stdout.splitlines()[-40:])
        # the generated zoo no longer compiles against the current tree: a verdict for C09-like properties, a tool error here
        raise ToolError("zoo build failed:\n" + errs)
    log("  zoo build (%d types) %.1fs" % (len(zoo), time.time() - t0))
    return os.path.join(tdir, "debug", "vzoo")


def run_zoo(exe, domain, vec, res, timeout=3600, mem=8 << 30):
    import resource
    def lim():
        resource.setrlimit(resource.RLIMIT_AS, (mem, mem))
        resource.setrlimit(resource.RLIMIT_CORE, (0, 0))
    e = dict(os.environ)
    e["RUST_BACKTRACE"] = "0"
    try:
        p = subprocess.run([exe, domain, vec, res], stdout=subprocess.PIPE, stderr=subprocess.PIPE, text=True, timeout=timeout, env=e, preexec_fn=lim)
    except subprocess.TimeoutExpired:
        raise ToolError("zoo replay %s: timeout" % domain)
    if p.returncode != 0:
        raise ToolError("zoo replay %s failed (exit %d): %s" % (domain, p.returncode, p.stderr[-1500:]))
    return vlib.read_ndjson(res)


def asn_names(tier, name=None):
    """ASN.1 text of every zoo definition, for readable reports."""
    name = name or ("zoo_" + tier)
    res = {}
    for l in open(os.path.join(vlib.OUT, name, "zoo.asn1")):
        if "::=" in l and not l.startswith("Zoo "):
            n, t = l.split("::=", 1)
            res[n.strip()] = t.strip()
    return res


TRACE_CFG = "SPECIFICATION Spec\nCONSTANTS\n  W7 = 7\n  W14 = 14\nPOSTCONDITION Accepted\nCHECK_DEADLOCK FALSE\n"


def uper_trace(v, pid, exe, vec, zoo, names, domain="uptrace", module="Trace_Uper", chunk=20000, cfg=None):
    """T direction: per-call events of the real writer (tracing wrapper) validated as a behaviour of UperSM."""
    d = outdir(pid)
    tr = os.path.join(d, domain + ".ndjson")
    rows = run_zoo(exe, domain, vec, tr)
    summ = rows[-1]
    if summ.get("ev") != "summary":
        raise ToolError("trace recording incomplete")
    for r in rows:
        if r.get("ev") == "panic":
            v.violation("%s: panic while recording T%d: %s" % (domain, r["ti"], r["why"][:200]), r, "%s_panic_%d.json" % (domain, r["line"]))
    lines = [l for l in open(tr).read().splitlines() if '"ev":"panic"' not in l.replace(" ", "")]
    # chunks end at message boundaries; every chunk starts with a reset event and ends with a summary event
    starts = [i for i, l in enumerate(lines) if '"ev":"reset"' in l.replace(" ", "")]
    chunks, cur = [], 0
    for s0 in starts + [len(lines) - 1]:
        if s0 - cur >= chunk:
            chunks.append((cur, s0))
            cur = s0
    chunks.append((cur, len(lines) - 1))
    accepted = events = 0
    for ci, (a, b) in enumerate(chunks):
        if b <= a:
            continue
        part = os.path.join(d, "%s_%d.ndjson" % (domain, ci))
        open(part, "w").write("\n".join(lines[a:b] + [lines[-1]]) + "\n")
        vlib.lint_trace(part)
        tt = run_tlc(pid, module, cfg or TRACE_CFG, tag="%s_%d" % (domain, ci), workers=1, env={"TRACE": part}, deque=True, xss=True, coverage=False, heap="8g",
                     timeout=3600)
        if tt.violation or not tt.ok():
            at = tt.depth                       # 1-based index of the first event that is not a step of the specification
            part_lines = lines[a:b] + [lines[-1]]
            start = max(i for i in range(min(at, len(part_lines))) if '"ev":"reset"' in part_lines[i].replace(" ", ""))
            reset = json.loads(part_lines[start])
            ti = reset.get("ti")
            rej = [l for l in tt.out.splitlines() if l.startswith('<<"REJECTED"')]
            v.violation("%s: event %d of the recorded calls for T%s ::= %s is not a step of UperSM (%s)"
                        % (module, at - start, ti, names.get("T%s" % ti), (rej or [tt.violation or "no postcondition verdict"])[0][:200]),
                        {"type": zoo.get(ti), "asn1": names.get("T%s" % ti), "vector_line": reset.get("line"), "rejected_event_index": at - start,
                         "events": [json.loads(x) for x in part_lines[start:at]]}, "%s_%d.json" % (domain, ci))
            break
        accepted += sum(1 for l in lines[a:b] if '"ev":"reset"' in l.replace(" ", ""))
        events += b - a
        v.cov["states"] += tt.distinct
        v.cov["transitions"] += tt.generated
        os.remove(part)
    v.cov["traces_validated_against_impl"] += accepted
    v.cov["evaluations"] += events
    v.cov[domain] = {"messages_traced": summ["traced"], "events": summ["events"], "messages_accepted": accepted, "module": module}
    return summ


def uper_check(v, pid, classes, only_kind=None, with_stream=False, text="", with_trace=False, extra=None):
    """Common body of C01/C02/C03/C06: replay the zoo vectors, report the classes that concern this property."""
    t, zoo, vec = tlc_zoo(pid, v.tier)
    v.add_tlc("MC_Uper", t)
    exe = build_zoo(zoo, v.tier)
    rows = run_zoo(exe, "uper", vec, os.path.join(outdir(pid), "uper.res"))
    summ = [r for r in rows if r.get("summary")][0]
    ssum = [r for r in rows if r.get("summary_stream")][0]
    if summ["cases"] != t.nvec:
        raise ToolError("replay incomplete")
    names = asn_names(v.tier)
    findings = {f["dev"]: f for f in vlib.known_findings() if f.get("dev")}
    nviol = 0
    for r in rows:
        if r.get("summary") or r.get("summary_stream"):
            continue
        cls = r["class"]
        if cls not in classes and not (extra and cls != "stream" and extra(r, zoo)):
            continue
        if cls == "stream":
            if not with_stream:
                continue
            r["types"] = [names.get("T%d" % h["ti"]) for h in r["history"]]
        else:
            ti = r["case"]["ti"]
            if only_kind and zoo[ti]["k"] != only_kind:
                continue
            r["asn1"] = "T%d ::= %s" % (ti, names.get("T%d" % ti))
        nviol += 1
        if nviol <= 40:
            v.violation("%s: %s [%s]" % (cls, r["why"], r.get("asn1", r.get("types"))), r, "%s_%03d.json" % (cls, nviol))
    stats = summ["stats"]
    for k, cnt in stats.items():
        if k.startswith("dev:"):
            f = findings.get(k[4:])
            if f is None:
                raise ToolError("deviation class %s is not an open finding" % k)
            if pid in f["properties"]:
                v.known(f["id"], "%s: %s (%d vectors of this run inside the class)" % (f["id"], f["what"], cnt))
    v.cov["replay_stats"] = stats
    v.cov["traces_validated_against_impl"] += summ["cases"] + (ssum["histories"] if with_stream else 0)
    v.cov["evaluations"] += summ["cases"] + (ssum["histories"] if with_stream else 0)
    v.cov["zoo_types"] = len(zoo)
    if with_stream:
        v.cov["stream_histories"] = ssum["histories"]
    if with_trace:
        uper_trace(v, pid, exe, vec, zoo, names)
        uper_trace(v, pid, exe, vec, zoo, names, domain="uptrace_read", module="Trace_UperRead",
                   cfg=TRACE_CFG.replace("POSTCONDITION", "  Dev = {}\nPOSTCONDITION"))
    return t, zoo, vec, summ, ssum
