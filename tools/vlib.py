"""Shared machinery of /verif/tools/check (Python 3, stdlib only)."""
import json, os, re, shutil, subprocess, sys, time, random, resource

ROOT = os.path.dirname(os.path.dirname(os.path.abspath(__file__)))
SPEC = os.path.join(ROOT, "spec")
HARNESS = os.path.join(ROOT, "harness")
OUT = os.path.join(ROOT, "out")
EVID = os.path.join(ROOT, "evidence")
KNOWN = os.path.join(ROOT, "known_findings.jsonl")
TLA_JAR = "/opt/veriftools/tla/tla2tools.jar:/opt/veriftools/tla/CommunityModules-deps.jar"


class ToolError(Exception):
    """Anything that is not a verdict about the code under test (exit 2)."""


def log(*a):
    print(*a, file=sys.stderr, flush=True)


def outdir(pid, sub=None):
    d = os.path.join(OUT, pid) if sub is None else os.path.join(OUT, pid, sub)
    os.makedirs(d, exist_ok=True)
    return d


def clean_dir(d):
    shutil.rmtree(d, ignore_errors=True)
    os.makedirs(d, exist_ok=True)
    return d


# --------------------------------------------------------------------------- known findings
def known_findings(pid=None):
    """Open findings (status=open) of known_findings.jsonl, optionally for one property."""
    res = []
    if os.path.exists(KNOWN):
        for l in open(KNOWN):
            l = l.strip()
            if not l or l.startswith("#"):
                continue
            r = json.loads(l)
            if r.get("status") == "open" and (pid is None or pid in r.get("properties", [r.get("property")])):
                res.append(r)
    return res


def dev_set(pid, universe=None):
    """Deviation switches (names) of the open findings that concern property pid."""
    s = sorted({r["dev"] for r in known_findings(pid) if r.get("dev")})
    if universe is not None:
        s = [d for d in s if d in universe]
    return s


def tla_set(names):
    return "{" + ", ".join('"%s"' % n for n in names) + "}"


# --------------------------------------------------------------------------- TLC
class Tlc:
    def __init__(self):
        self.generated = 0
        self.distinct = 0
        self.depth = 0
        self.exit = None
        self.replay = []        # parsed REPLAY records
        self.out = ""
        self.wall = 0.0
        self.violation = None   # text of the first invariant/property violation
        self.actions = {}       # action name -> (distinct, generated) from -coverage

    def ok(self):
        return self.exit == 0


REPLAY_PREFIX = '<<"REPLAY", '


def run_tlc(pid, module, cfg_text, tag=None, workers=None, simulate=None, env=None, timeout=3600,
            deque=False, xss=False, heap="8g", coverage=True, replay_to=None, keep_out=True, prefixes=None, extra=None):
    """Runs TLC on spec/<module>.tla with a generated cfg. REPLAY lines are parsed (and streamed to
    replay_to if given). Raises ToolError on anything that is neither success nor a violation."""
    tag = tag or module
    work = clean_dir(os.path.join(outdir(pid), "tlc_" + tag))
    cfg = os.path.join(work, module + ".cfg")
    open(cfg, "w").write(cfg_text)
    tmp = os.path.join(work, "tmp")
    os.makedirs(tmp)
    jopts = ["-XX:+UseParallelGC", "-Xmx" + heap, "-Djava.io.tmpdir=" + tmp]
    if xss:
        jopts.append("-Xss1g")
    if deque:
        jopts.append("-Dtlc2.tool.queue.IStateQueue=StateDeque")
    cmd = ["java"] + jopts + ["-cp", TLA_JAR, "tlc2.TLC", "-metadir", os.path.join(work, "meta"), "-cleanup",
                              "-noGenerateSpecTE", "-config", cfg]
    if workers is None:
        workers = min(16, os.cpu_count() or 4)
    cmd += ["-workers", str(workers)]
    if coverage:
        cmd += ["-coverage", "1"]
    if simulate:
        cmd += ["-simulate", simulate]
    if extra:
        cmd += list(extra)
    cmd.append(os.path.join(SPEC, module + ".tla"))
    e = dict(os.environ)
    e.pop("JAVA_TOOL_OPTIONS", None)
    if env:
        e.update(env)
    t = Tlc()
    t0 = time.time()
    logf = os.path.join(work, "tlc.log")
    rp = open(replay_to, "w") if replay_to else None
    nrep = 0
    with open(logf, "w") as lf:
        p = subprocess.Popen(cmd, cwd=SPEC, env=e, stdout=subprocess.PIPE, stderr=subprocess.STDOUT, text=True,
                             errors="replace")
        try:
            keep = []
            for line in p.stdout:
                pre = next((x for x in (prefixes or (REPLAY_PREFIX,)) if line.startswith(x)), None)
                if pre:
                    try:
                        js = json.loads(line.rstrip()[len(pre):-2])
                    except Exception:
                        raise ToolError("garbled REPLAY line from TLC: " + line[:200])
                    nrep += 1
                    if rp:
                        rp.write(js + "\n")
                    else:
                        t.replay.append(json.loads(js))
                    continue
                lf.write(line)
                if len(keep) < 20000:
                    keep.append(line)
                if time.time() - t0 > timeout:
                    p.kill()
                    raise ToolError("TLC timeout after %ds (%s)" % (timeout, tag))
            p.wait()
        finally:
            if p.poll() is None:
                p.kill()
            if rp:
                rp.close()
    t.wall = time.time() - t0
    t.exit = p.returncode
    t.out = "".join(keep)
    t.nreplay = nrep
    m = re.search(r"(\d+) states generated, (\d+) distinct states found", t.out)
    if m:
        t.generated, t.distinct = int(m.group(1)), int(m.group(2))
    m = re.search(r"depth of the complete state graph search is (\d+)", t.out)
    if m:
        t.depth = int(m.group(1))
    for m in re.finditer(r"^<(\w+) line \d+, col \d+ to line \d+, col \d+ of module \w+(?: \([\d ]+\))?>: (\d+):(\d+)", t.out, re.M):
        d, g = int(m.group(2)), int(m.group(3))
        a = t.actions.get(m.group(1), (0, 0))
        t.actions[m.group(1)] = (a[0] + d, a[1] + g)
    m = re.search(r"Error: (Invariant \S+ is violated|Action property \S+ is violated|Temporal properties were violated|"
                  r"Deadlock reached|Postcondition \S+ .* is false|Evaluating .* failed)[^\n]*", t.out)
    if m:
        t.violation = m.group(0)
    shutil.rmtree(tmp, ignore_errors=True)
    shutil.rmtree(os.path.join(work, "meta"), ignore_errors=True)
    if t.exit != 0 and t.violation is None:
        tail = "\n".join(t.out.splitlines()[-25:])
        raise ToolError("TLC failed (exit %s) on %s:\n%s" % (t.exit, tag, tail))
    return t


def sany(module):
    p = subprocess.run(["java", "-cp", TLA_JAR, "tla2sany.SANY", os.path.join(SPEC, module + ".tla")], cwd=SPEC,
                       stdout=subprocess.PIPE, stderr=subprocess.STDOUT, text=True)
    return p.returncode == 0 and "Semantic errors" not in p.stdout and "Parsing or semantic analysis failed" not in p.stdout, p.stdout


# --------------------------------------------------------------------------- harness
_built = set()


def cargo_build(features=(), target_sub=None, bins=None):
    """Builds the harness against /repo's current working tree (cargo's own change detection)."""
    key = (tuple(features), target_sub)
    if key in _built:
        return _bin_dir(target_sub)
    cmd = ["cargo", "build", "--offline", "--quiet"]
    if features:
        cmd += ["--features", ",".join(features)]
    e = dict(os.environ)
    e["CARGO_NET_OFFLINE"] = "true"
    if target_sub:
        e["CARGO_TARGET_DIR"] = os.path.join(HARNESS, "target", target_sub)
    if not os.path.exists(os.path.join(HARNESS, "Cargo.lock")):
        shutil.copy("/repo/Cargo.lock", os.path.join(HARNESS, "Cargo.lock"))
    t0 = time.time()
    p = subprocess.run(cmd, cwd=HARNESS, env=e, stdout=subprocess.PIPE, stderr=subprocess.STDOUT, text=True)
    if p.returncode != 0:
        # the code under test no longer builds with the harness: not a verdict
        raise ToolError("harness build failed:\n" + "\n".join(p.stdout.splitlines()[-40:]))
    log("  harness build %.1fs" % (time.time() - t0))
    _built.add(key)
    return _bin_dir(target_sub)


def _bin_dir(target_sub=None):
    base = os.path.join(HARNESS, "target", target_sub) if target_sub else os.path.join(HARNESS, "target")
    return os.path.join(base, "debug")


def bin_dir(target_sub=None):
    """Directory of the harness binaries - never stale: they are (re)built from /repo's current tree first (once per run)."""
    if not any(k[1] == target_sub for k in _built):
        cargo_build(target_sub=target_sub)
    return _bin_dir(target_sub)


def _limits(mem_bytes):
    def f():
        if mem_bytes:
            resource.setrlimit(resource.RLIMIT_AS, (mem_bytes, mem_bytes))
        resource.setrlimit(resource.RLIMIT_CORE, (0, 0))
    return f


def run_bin(name, args, timeout=1800, target_sub=None, mem=None, env=None, stdin=None):
    exe = os.path.join(bin_dir(target_sub), name)
    e = dict(os.environ)
    e["RUST_BACKTRACE"] = "0"
    if env:
        e.update(env)
    try:
        p = subprocess.run([exe] + list(args), stdout=subprocess.PIPE, stderr=subprocess.PIPE, text=True, timeout=timeout,
                           env=e, preexec_fn=_limits(mem), input=stdin)
    except subprocess.TimeoutExpired:
        raise ToolError("%s %s: timeout after %ds" % (name, " ".join(args), timeout))
    return p


def read_ndjson(path):
    res = []
    for l in open(path):
        l = l.strip()
        if l:
            res.append(json.loads(l))
    return res


def read_ndjson_head(path, n):
    res = []
    with open(path) as f:
        for l in f:
            if l.strip():
                res.append(json.loads(l))
            if len(res) >= n:
                break
    return res


def sample_ndjson(path, k, seed=1, pred=None):
    """k lines spread over the file (deterministic for a seed), optionally only those satisfying pred."""
    size = os.path.getsize(path)
    rnd = random.Random(seed)
    res = []
    with open(path, "rb") as f:
        for _ in range(k * 20):
            f.seek(rnd.randrange(max(1, size)))
            f.readline()
            l = f.readline()
            if not l.strip():
                continue
            r = json.loads(l)
            if pred is None or pred(r):
                res.append(r)
            if len(res) >= k:
                break
    return res


# --------------------------------------------------------------------------- trace lint (TLC's JSON reader is lossy)
def recorder_failed(v, p, trace, what):
    """A recorder that ends with a Rust panic (exit 101) has shown a panic of the code under test: that is data, a violation
    with the recorded prefix as artefact. Anything else is a tool error."""
    if p.returncode != 101:
        raise ToolError("%s failed (exit %d): %s" % (what, p.returncode, p.stderr[-2000:]))
    tail = []
    if os.path.exists(trace):
        tail = open(trace, errors="replace").read().splitlines()[-25:]
    v.violation("%s: the code under test panicked while the recorder drove it (%s)" % (what, (p.stderr.strip().splitlines() or ["no message"])[-1][:200]),
                {"recorder": what, "stderr": p.stderr[-2000:], "last_recorded_events": tail}, "recorder_panic_%s.json" % re.sub(r"\W+", "_", what))


def lint_trace(path):
    """Every number within +-(2^31-1), no floats, no null, ASCII only. Violations are tool errors."""
    def chk(v, where):
        if v is None:
            raise ToolError("null in trace at " + where)
        if isinstance(v, bool):
            return
        if isinstance(v, float):
            raise ToolError("float in trace at " + where)
        if isinstance(v, int):
            if abs(v) > 2147483647:
                raise ToolError("integer beyond 31 bits in trace at " + where)
        elif isinstance(v, str):
            if not v.isascii():
                raise ToolError("non-ASCII string in trace at " + where)
        elif isinstance(v, list):
            for x in v:
                chk(x, where)
        elif isinstance(v, dict):
            for k, x in v.items():
                chk(x, where + "." + k)
    n = 0
    for i, l in enumerate(open(path)):
        if l.strip():
            chk(json.loads(l), "line %d" % (i + 1))
            n += 1
    return n


# --------------------------------------------------------------------------- verdict / evidence
class Verdict:
    def __init__(self, pid, tier, seed):
        self.pid, self.tier, self.seed = pid, tier, seed
        self.t0 = time.time()
        self.violations = []     # (text, replay path)
        self.known_hits = {}     # finding id -> text
        self.cov = {"states": 0, "transitions": 0, "traces_validated_against_impl": 0, "evaluations": 0,
                    "distinct_nontrivial": 0, "samples": [], "rule": "", "checker_cmd": "", "engines": {}}
        self.assumptions = []
        self.level = "model_checking"

    def add_tlc(self, name, t):
        self.cov["states"] += t.distinct
        self.cov["transitions"] += t.generated
        self.cov["engines"][name] = {"distinct_states": t.distinct, "states_generated": t.generated, "depth": t.depth,
                                     "wall_s": round(t.wall, 1), "replay_lines": getattr(t, "nreplay", 0),
                                     "actions": {k: list(v) for k, v in t.actions.items()}}

    def violation(self, text, replay_obj, name):
        d = outdir(self.pid, "violations")
        path = os.path.join(d, name)
        with open(path, "w") as f:
            if isinstance(replay_obj, (dict, list)):
                json.dump(replay_obj, f, indent=1)
            else:
                f.write(str(replay_obj))
        self.violations.append((text, path))

    def known(self, fid, text):
        self.known_hits[fid] = text

    def finish(self):
        wall = time.time() - self.t0
        cov = self.cov
        cov["known_findings_hit"] = sorted(self.known_hits)
        ev = {"property_id": self.pid, "tier": self.tier, "seed": self.seed, "level": self.level, "coverage": cov,
              "assumptions": self.assumptions, "wall_s": round(wall, 1), "violations": len(self.violations)}
        os.makedirs(EVID, exist_ok=True)
        with open(os.path.join(EVID, self.pid + ".json"), "w") as f:
            json.dump(ev, f, indent=1)
            f.write("\n")
        for fid in sorted(self.known_hits):
            print("KNOWN-FINDING: property=%s %s" % (self.pid, self.known_hits[fid]))
        if self.violations:
            for text, path in self.violations[:20]:
                print("VIOLATION property=%s replay=%s" % (self.pid, path))
                print("  " + text)
            return 1
        print("OK property=%s tier=%s seed=%d wall=%.0fs states=%d traces=%d evaluations=%d" % (
            self.pid, self.tier, self.seed, wall, cov["states"], cov["traces_validated_against_impl"], cov["evaluations"]))
        return 0
