"""Run-time use of the real front end (harness bin `frontend pipeline`): ASN.1 text -> per-definition JSON."""
import json, os, re, subprocess
import vlib, zoogen
from vlib import ToolError


LAST_CODE = ""


def pipeline(texts, workdir, tag="m"):
    """texts: list of module texts resolved together. Returns list of per-definition dicts (or raises ToolError)."""
    files = []
    for i, t in enumerate(texts):
        f = os.path.join(workdir, "%s_%d.asn1" % (tag, i))
        open(f, "w").write(t)
        files.append(f)
    vlib.cargo_build()        # the front end binary is built from /repo's current tree (memoised per run)
    exe = os.path.join(vlib.bin_dir(), "frontend")
    p = subprocess.run([exe, "pipeline"] + files, stdout=subprocess.PIPE, stderr=subprocess.PIPE, text=True, timeout=600)
    if p.returncode != 0:
        return {"crash": p.stderr[-1500:], "exit": p.returncode}
    rows = [json.loads(l) for l in p.stdout.splitlines() if l.strip()]
    files = [r for r in rows if "file" in r]
    rows = [r for r in rows if "file" not in r]
    code = "\n".join(f["code"] for f in files)
    global LAST_CODE
    LAST_CODE = code          # the complete generated file(s): value assignments live there, not in a definition
    # all impl blocks per definition from the complete generated file (accessors live there)
    impls = {}
    for m in re.finditer(r"^impl (\w+) \{.*?^\}", code, re.S | re.M):
        impls.setdefault(m.group(1), []).append(m.group(0))
    for r in rows:
        if "name" in r:
            r["impls"] = "\n".join(impls.get(r["name"], []))
    return rows


def seq_consts(expanded):
    """Constants and field order of a SEQUENCE/SET from the text the attribute macro expands to."""
    w = re.search(r"fn write_seq.*?\{(.*?)Ok \(\(\)\)", expanded, re.S)
    rd = re.search(r"fn read_seq.*?Ok \(Self \{(.*?)\}\)", expanded, re.S)
    so = re.search(r"STD_OPTIONAL_FIELDS : u64 = (\d+)", expanded)
    fc = re.search(r"FIELD_COUNT : u64 = (\d+)", expanded)
    ea = re.search(r"EXTENDED_AFTER_FIELD : Option < u64 > = (None|Some \((\d+)\))", expanded)
    if not (w and rd and so and fc and ea):
        return None
    return {"write_order": [int(x) for x in re.findall(r"& self \. f(\d+)", w.group(1))],
            "read_order": [int(x) for x in re.findall(r"f(\d+) : AsnDef", rd.group(1))],
            "stdOptionalFields": int(so.group(1)), "fieldCount": int(fc.group(1)),
            "extendedAfterField": -1 if ea.group(1) == "None" else int(ea.group(2))}


def module_of(types, prefix="T"):
    """types: list of type json -> (module text, Gen) with definitions <prefix>1.."""
    g = zoogen.Gen()
    for i, t in enumerate(types):
        g.top("%s%d" % (prefix, i + 1), t)
    asn = "Zoo DEFINITIONS AUTOMATIC TAGS ::= BEGIN\n" + "".join("%s ::= %s\n" % d for d in g.defs) + "END\n"
    return asn, g
