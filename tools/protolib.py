"""Independent reader of proto3 schema text (the generated .proto), with validity checks, and the protobuf replay pipeline."""
import json, os, re, subprocess, resource
import vlib, uperlib
from vlib import ToolError

SCALARS = {"uint32", "uint64", "sint32", "sint64", "int32", "int64", "bool", "string", "bytes", "fixed32", "fixed64", "sfixed32", "sfixed64", "float", "double"}


class ProtoInvalid(Exception):
    pass


def parse_proto(text, resolve=True):
    """Returns {'messages': {name: [field]}, 'enums': {name: [(name, number)]}}; raises ProtoInvalid for text that is not valid proto3."""
    toks = re.findall(r"[A-Za-z_][A-Za-z0-9_.]*|\d+|'[^']*'|\"[^\"]*\"|[{}=;]", text)
    pos = 0

    def peek():
        return toks[pos] if pos < len(toks) else None

    def take(expect=None):
        nonlocal pos
        if pos >= len(toks):
            raise ProtoInvalid("unexpected end of file")
        t = toks[pos]
        pos += 1
        if expect is not None and t != expect:
            raise ProtoInvalid("expected %r, found %r" % (expect, t))
        return t

    if take() != "syntax":
        raise ProtoInvalid("file does not start with a syntax statement")
    take("=")
    if take().strip("'\"") != "proto3":
        raise ProtoInvalid("syntax is not proto3")
    take(";")
    messages, enums = {}, {}
    package, imports = "", []

    def field(in_oneof):
        label = "one"
        t = take()
        if t == "repeated":
            if in_oneof:
                raise ProtoInvalid("'repeated' inside a oneof")
            label = "rep"
            t = take()
            if t == "repeated":
                raise ProtoInvalid("'repeated repeated' is not proto3")
        elif t in ("optional", "required"):
            t = take()
        name = take()
        take("=")
        num = take()
        if not num.isdigit() or int(num) < 1:
            raise ProtoInvalid("field number %r of %s" % (num, name))
        take(";")
        return {"type": t, "name": name, "num": int(num), "label": label, "oneof": in_oneof}

    while peek() is not None:
        t = take()
        if t == "package":
            package = take()
            take(";")
        elif t == "import":
            imports.append(take().strip("'\""))
            take(";")
        elif t == "enum":
            name = take()
            take("{")
            vals = []
            while peek() != "}":
                n = take()
                take("=")
                v = take()
                take(";")
                vals.append((n, int(v)))
            take("}")
            if not vals or vals[0][1] != 0:
                raise ProtoInvalid("enum %s: the first value must be 0" % name)
            if len({n for n, _ in vals}) != len(vals):
                raise ProtoInvalid("enum %s: duplicate value names" % name)
            enums[name] = vals
        elif t == "message":
            name = take()
            take("{")
            fields = []
            while peek() != "}":
                if peek() == "oneof":
                    take()
                    take()
                    take("{")
                    while peek() != "}":
                        fields.append(field(True))
                    take("}")
                    if peek() == ";":
                        take()
                else:
                    fields.append(field(False))
            take("}")
            nums = [f["num"] for f in fields]
            if len(set(nums)) != len(nums):
                raise ProtoInvalid("message %s: duplicate field numbers %s" % (name, nums))
            if len({f["name"] for f in fields}) != len(fields):
                raise ProtoInvalid("message %s: duplicate field names" % name)
            messages[name] = fields
        elif t == ";":
            pass
        else:
            raise ProtoInvalid("unexpected token %r at top level" % t)
    if resolve:
        for m, fs in messages.items():
            for f in fs:
                if f["type"] not in SCALARS and f["type"] not in messages and f["type"] not in enums:
                    raise ProtoInvalid("message %s field %s: unknown type %s" % (m, f["name"], f["type"]))
    return {"messages": messages, "enums": enums, "package": package, "imports": imports}


def parse_proto_set(files):
    """files: {file name: text}. Parses every file and resolves every field type the way protoc does: relative to the
    package of the using file (innermost scope first), among the definitions of the file itself and of the files it imports.
    Returns {file: parsed}; raises ProtoInvalid for an unresolvable reference or a missing import."""
    parsed = {fn: parse_proto(tx, resolve=False) for fn, tx in files.items()}
    for fn, p in parsed.items():
        visible = [fn]
        for imp in p["imports"]:
            if imp not in parsed:
                raise ProtoInvalid("%s imports %s which was not generated" % (fn, imp))
            visible.append(imp)
        defined = set()
        for v in visible:
            q = parsed[v]["package"]
            for n in list(parsed[v]["messages"]) + list(parsed[v]["enums"]):
                defined.add((q + "." if q else "") + n)
        scope = p["package"].split(".") if p["package"] else []
        for m, fs in p["messages"].items():
            for f in fs:
                t = f["type"]
                if t in SCALARS:
                    continue
                cands = [".".join(scope[:k] + [t]) for k in range(len(scope), -1, -1)]
                if not any(c in defined for c in cands):
                    raise ProtoInvalid("%s: message %s field %s: \"%s\" is not defined (tried %s)" % (fn, m, f["name"], t, ", ".join(cands)))
    return parsed


def schema_json(parsed, name, depth=0):
    """Inlined schema of message `name` in the shape Proto.tla expects."""
    if depth > 12:
        raise ProtoInvalid("message nesting too deep / recursive")
    res = []
    for f in parsed["messages"][name]:
        t = f["type"]
        if t in parsed["messages"]:
            kind, sub = "msg", schema_json(parsed, t, depth + 1)
        elif t in parsed["enums"]:
            kind, sub = "enum", []
        else:
            kind, sub = t, []
        res.append({"num": f["num"], "label": f["label"], "kind": kind, "sub": sub, "oneof": f["oneof"]})
    return res


def proto_files(asn_files):
    """{generated file name: .proto text} for modules resolved together."""
    vlib.cargo_build()
    exe = os.path.join(vlib.bin_dir(), "frontend")
    p = subprocess.run([exe, "proto"] + list(asn_files), stdout=subprocess.PIPE, stderr=subprocess.PIPE, text=True, timeout=300)
    rows = [json.loads(l) for l in p.stdout.splitlines() if l.strip()]
    if p.returncode != 0 or not rows or "error" in rows[0]:
        raise ToolError("frontend proto failed: %s %s" % (p.stderr[-500:], rows[:1]))
    return {r["file"]: r["proto"] for r in rows}


def proto_text(asn_file):
    vlib.cargo_build()        # the front end binary is built from /repo's current tree (memoised per run)
    exe = os.path.join(vlib.bin_dir(), "frontend")
    p = subprocess.run([exe, "proto", asn_file], stdout=subprocess.PIPE, stderr=subprocess.PIPE, text=True, timeout=300)
    rows = [json.loads(l) for l in p.stdout.splitlines() if l.strip()]
    if p.returncode != 0 or not rows or "error" in rows[0]:
        raise ToolError("frontend proto failed: %s %s" % (p.stderr[-500:], rows[:1]))
    return rows[0]["proto"]


def proto_pipeline(pid, tier, dev_props):
    """TLC (MC_Proto) -> zoo -> build -> vzoo proto with restart after hangs. Returns (tlc, zoo, vec, rows, incidents, events path, names)."""
    d = vlib.outdir(pid)
    devs = ["ProtoNestedList", "ProtoChoiceListAlternative"]
    t, zoo, vec = uperlib.tlc_zoo(pid, tier, module="MC_Proto", dev_props=dev_props, all_devs=devs)
    exe = uperlib.build_zoo(zoo, tier, name="zoo_proto")
    res = os.path.join(d, "proto.res")
    progress = os.path.join(d, "proto.progress")
    events = os.path.join(d, "proto.events")
    if os.path.exists(events):
        os.remove(events)
    incidents, allrows, start = [], [], 0
    lines = open(vec).read().splitlines()
    for attempt in range(100):
        def lim():
            resource.setrlimit(resource.RLIMIT_AS, (2 << 30, 2 << 30))
            resource.setrlimit(resource.RLIMIT_CORE, (0, 0))
        e = dict(os.environ)
        e["RUST_BACKTRACE"] = "0"
        p = subprocess.run([exe, "proto", vec, res, "start=%d" % start, "progress=" + progress, "events=" + events], stdout=subprocess.PIPE,
                           stderr=subprocess.PIPE, text=True, env=e, preexec_fn=lim, timeout=3600)
        rows = vlib.read_ndjson(res) if os.path.exists(res) else []
        if p.returncode == 0:
            allrows += rows
            break
        try:
            idx = int(open(progress).read().strip())
        except Exception:
            raise ToolError("proto replay died without progress information: " + p.stderr[-500:])
        incidents.append({"line": idx, "case": json.loads(lines[idx]),
                          "kind": "hang (watchdog 3 s)" if p.returncode == 3 else "abort (exit %d, e.g. allocation beyond 2 GiB)" % p.returncode})
        allrows += [r for r in rows if not r.get("summary")]
        start = idx + 1
    else:
        raise ToolError("too many hangs/aborts")
    # cases inside the class of an open finding that showed a deviation: one flushed line each (every process segment counts)
    devhits = {}
    for r in allrows:
        if "devhit" in r:
            devhits["dev:" + r["devhit"]] = devhits.get("dev:" + r["devhit"], 0) + 1
    allrows = [r for r in allrows if "devhit" not in r] + [{"summary": True, "cases": 0, "stats": devhits}]
    names = uperlib.asn_names(tier, name="zoo_proto")
    return t, zoo, vec, allrows, incidents, events, names
