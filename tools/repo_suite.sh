#!/bin/sh
# Runs the repository's own test suite (guard off) and prints a summary: passed / failed / failing names.
# Expected on the pinned tree and after every fix:/hook commit: only the 3 always-failing walker tests fail.
cd "${1:-/repo}" || exit 2
cargo test --workspace --no-fail-fast --offline 2>&1 | awk '
/^test result:/ { p += $4; f += $6 }
/^test .* \.\.\. FAILED/ { print "FAILED: " $2 }
END { print "passed=" p " failed=" f }'
