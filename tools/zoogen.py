"""Turns the type list printed by the TLA+ zoo (JSON) into (a) the ASN.1 module that is compiled by the real
asn_to_rust! macro and (b) Rust glue that converts the spec's JSON values to/from the generated Rust types."""
import json, os

CS = {"utf8": "UTF8String", "ia5": "IA5String", "vis": "VisibleString", "prt": "PrintableString", "num": "NumericString"}
CLS = {0: "UNIVERSAL", 1: "APPLICATION", 2: "", 3: "PRIVATE"}


SZ_MAX = (1 << 30) - 1   # X691!SzMAX


class Gen:
    def __init__(self, prefix="T"):
        self.defs = []          # (name, asn1 text)
        self.glue = []          # rust functions
        self.named = {}         # canonical json -> name
        self.prefix = prefix
        self.n = 0

    # ------------------------------------------------------------------ ASN.1 text
    def size(self, sz):
        if sz["c"] == "none":
            return ""
        rng = str(sz["lb"]) if sz["lb"] == sz["ub"] else "%d..%s" % (sz["lb"], "MAX" if sz["ub"] == SZ_MAX else sz["ub"])
        return "(SIZE(%s%s))" % (rng, ",..." if sz["ext"] else "")

    def lit(self, t, v):
        k = t["k"]
        if k == "bool":
            return "TRUE" if v else "FALSE"
        if k == "int":
            return str(v)
        if k == "enum":
            return "v%d" % v
        if k == "str":
            return '"%s"' % "".join(chr(c) for c in v)
        raise ValueError("no literal for " + k)

    def tagtext(self, tg):
        if not tg:
            return ""
        cls = CLS[tg[0]]
        return "[%s%d] " % (cls + " " if cls else "", tg[1])

    def tag(self, c):
        return self.tagtext(c.get("tag") or [])

    def ref(self, t):
        """text usable where a type is expected inside another type"""
        k = t["k"]
        if k == "bool":
            return "BOOLEAN"
        if k == "null":
            return "NULL"
        if k == "int":
            c = t["con"]
            if c["c"] == "semi":
                return "INTEGER (%d..MAX)" % c["lb"]
            return "INTEGER" if c["c"] == "none" else "INTEGER (%d..%s%s)" % (c["lb"], c.get("ubText", c["ub"]), ",..." if c["ext"] else "")
        if k == "str":
            s = self.size(t["sz"])
            return CS[t["cs"]] + (" " + s if s else "")
        if k == "oct":
            s = self.size(t["sz"])
            return "OCTET STRING" + (" " + s if s else "")
        if k == "bits":
            s = self.size(t["sz"])
            return "BIT STRING" + (" { first(0), third(2), sixth(5) }" if t.get("named") else "") + (" " + s if s else "")
        if k == "seqof":
            s = self.size(t["sz"])
            return "SEQUENCE %sOF %s" % (s + " " if s else "", self.ref(t["of"]))
        return self.name_of(t)

    def body(self, t):
        """text of a structured type's definition"""
        k = t["k"]
        if k == "enum":
            num = (lambda i: "(%d)" % t["nums"][i]) if "nums" in t else (lambda i: "")
            items = ["v%d%s" % (i, num(i)) for i in range(t["nroot"])]
            if t["ext"]:
                items.append("...")
            items += ["v%d%s" % (i, num(i)) for i in range(t["nroot"], t["nroot"] + t["nadd"])]
            return "ENUMERATED { %s }" % ", ".join(items)
        if k == "choice":
            items = []
            for i, a in enumerate(t["alts"]):
                if t["ext"] and i == t["nroot"]:
                    items.append("...")
                items.append("a%d %s%s" % (i, self.tagtext((t.get("atags") or [[]] * len(t["alts"]))[i]), self.ref(a)))
            if t["ext"] and len(t["alts"]) == t["nroot"]:
                items.append("...")
            return "CHOICE { %s }" % ", ".join(items)
        if k == "seq":
            items = []
            for i, c in enumerate(t["comps"]):
                if t["ext"] and i == t["nroot"]:
                    items.append("...")
                s = "f%d %s%s" % (i + 1, self.tag(c), self.ref(c["t"]))
                if c["mode"] == "opt":
                    s += " OPTIONAL"
                elif c["mode"] == "def":
                    s += " DEFAULT " + self.lit(c["t"], c["dflt"][0])
                items.append(s)
            if t["ext"] and len(t["comps"]) == t["nroot"]:
                items.append("...")
            return "%s%s { %s }" % (self.tagtext(t.get("ttag") or []), "SET" if t.get("set") else "SEQUENCE", ", ".join(items))
        return self.ref(t)

    def name_of(self, t):
        key = json.dumps(t, sort_keys=True)
        if key not in self.named:
            self.n += 1
            name = "N%d" % self.n
            self.named[key] = name
            self.define(name, t)
        return self.named[key]

    def define(self, name, t):
        # components first so that their definitions exist
        text = self.body(t)
        self.defs.append((name, text))
        self.glue.append(self.glue_for(name, t))

    def top(self, name, t):
        key = json.dumps(t, sort_keys=True)
        if t["k"] in ("seq", "choice", "enum") and key not in self.named:
            self.named[key] = name
        self.define(name, t)

    # ------------------------------------------------------------------ Rust glue
    def rust_type_structured(self, t):
        return t["k"] in ("seq", "choice", "enum")

    def frm(self, t, v):
        """Rust expression of type Option<X> building the Rust value of type t from the &Value expression v"""
        k = t["k"]
        if k == "bool":
            return "%s.as_bool()" % v
        if k == "null":
            return "Some(Null)"
        if k == "int":
            return ("bignum(%s)" if t.get("big") else "num(%s)") % v
        if k == "str":
            return "string(%s)" % v
        if k == "oct":
            return "bytes(%s)" % v
        if k == "bits":
            return "bitvec(%s)" % v
        if k == "seqof":
            return "(|| -> Option<Vec<_>> { %s.as_array()?.iter().map(|e| %s).collect() })()" % (v, self.frm(t["of"], "e"))
        return "from_%s(%s)" % (self.name_of(t), v)

    def to(self, t, x):
        """Rust expression of type Value from the reference expression x"""
        k = t["k"]
        if k == "bool":
            return "json!(*%s)" % x
        if k == "null":
            return "null_json(%s)" % x
        if k == "int":
            return ("big_json(*%s)" if t.get("big") else "json!(*%s as i64)") % x
        if k == "str":
            return "json!(%s.chars().map(|c| c as u32).collect::<Vec<_>>())" % x
        if k == "oct":
            return "json!(%s)" % x
        if k == "bits":
            return "json!((0..%s.bit_len()).map(|i| %s.is_bit_set(i) as u8).collect::<Vec<_>>())" % (x, x)
        if k == "seqof":
            return "Value::Array(%s.iter().map(|e| %s).collect())" % (x, self.to(t["of"], "e"))
        return "to_%s(%s)" % (self.name_of(t), x)

    def glue_for(self, name, t):
        k = t["k"]
        if k == "enum":
            n = t["nroot"] + t["nadd"]
            return ("pub fn from_%s(v: &Value) -> Option<%s> { %s::variant(v.as_u64()? as usize) }\n"
                    "pub fn to_%s(x: &%s) -> Value { json!(x.value_index()) }\n") % (name, name, name, name, name)
        if k == "choice":
            arms_f = "".join("            %d => %s::A%d(%s?),\n" % (i, name, i, self.frm(a, '(&v["v"])')) for i, a in enumerate(t["alts"]))
            arms_t = "".join('        %s::A%d(x) => json!({"i": %d, "v": %s}),\n' % (name, i, i, self.to(a, "x")) for i, a in enumerate(t["alts"]))
            return ("pub fn from_%s(v: &Value) -> Option<%s> {\n    Some(match v[\"i\"].as_u64()? {\n%s            _ => return None,\n    })\n}\n"
                    "pub fn to_%s(x: &%s) -> Value {\n    match x {\n%s    }\n}\n") % (name, name, arms_f, name, name, arms_t)
        if k == "seq":
            ff, tt = [], []
            for i, c in enumerate(t["comps"]):
                f = "f%d" % (i + 1)
                root = i < t["nroot"]
                optional = c["mode"] == "opt" or (not root and c["mode"] == "man")
                if optional:
                    ff.append("        %s: { let c = a.get(%d)?.as_array()?; if c.is_empty() { None } else { Some(%s?) } },\n" % (f, i, self.frm(c["t"], "(&c[0])")))
                    tt.append("        match &x.%s { None => json!([]), Some(y) => Value::Array(vec![%s]) },\n" % (f, self.to(c["t"], "y")))
                else:
                    ff.append("        %s: { let c = a.get(%d)?.as_array()?; %s? },\n" % (f, i, self.frm(c["t"], "c.get(0)?")))
                    tt.append("        Value::Array(vec![%s]),\n" % self.to(c["t"], "(&x.%s)" % f))
            return ("pub fn from_%s(v: &Value) -> Option<%s> {\n    let a = v.as_array()?;\n    Some(%s {\n%s    })\n}\n"
                    "pub fn to_%s(x: &%s) -> Value {\n    Value::Array(vec![\n%s    ])\n}\n") % (name, name, name, "".join(ff), name, name, "".join(tt))
        # transparent wrapper of a builtin type
        return ("pub fn from_%s(v: &Value) -> Option<%s> { Some(%s(%s?)) }\n"
                "pub fn to_%s(x: &%s) -> Value { %s }\n") % (name, name, name, self.frm(t, "v"), name, name, self.to(t, "(&x.0)"))


def generate(zoo, outdir, features=()):
    """zoo: dict index -> type json. Writes a cargo package into outdir."""
    g = Gen()
    idx = sorted(zoo)
    for i in idx:
        g.top("T%d" % i, zoo[i])
    asn = "Zoo DEFINITIONS AUTOMATIC TAGS ::= BEGIN\n" + "".join("%s ::= %s\n" % d for d in g.defs) + "END\n"
    os.makedirs(os.path.join(outdir, "src"), exist_ok=True)
    w_arms = "".join("        %d => from_T%d(v).map(|x| w.write(&x)),\n" % (i, i) for i in idx)
    r_arms = "".join("        %d => r.read::<T%d>().map(|x| to_T%d(&x)),\n" % (i, i, i) for i in idx)
    tw_arms = "".join("        %d => from_T%d(v).map(|x| w.write(&x)),\n" % (i, i) for i in idx)
    tr_arms = "".join("        %d => r.read::<T%d>().map(|x| to_T%d(&x)),\n" % (i, i, i) for i in idx)
    pw_arms = "".join("        %d => from_T%d(v).map(|x| w.write(&x)),\n" % (i, i) for i in idx)
    pc_arms = "".join("        %d => r.read::<T%d>().map(|_| ()),\n" % (i, i) for i in idx)
    pr_arms = "".join("        %d => r.read::<T%d>().map(|x| to_T%d(&x)),\n" % (i, i, i) for i in idx)
    rs = ("// @generated by tools/zoogen.py from the TLA+ zoo - do not edit\n#![allow(unused, clippy::all)]\n"
          "use asn1rs::prelude::*;\nuse asn1rs::descriptor::bitstring::BitVec;\nuse serde_json::{json, Value};\nuse vharness::glue::*;\n\n"
          "asn_to_rust!(\n    r#\"" + asn + "\"#\n);\n\n" + "\n".join(g.glue) +
          "\npub fn write(ti: usize, v: &Value, w: &mut UperWriter) -> Option<Result<(), asn1rs::protocol::per::Error>> {\n    match ti {\n" + w_arms +
          "        _ => panic!(\"no such zoo type\"),\n    }\n}\n\n"
          "pub fn read(ti: usize, r: &mut UperReader<Bits<'_>>) -> Result<Value, asn1rs::protocol::per::Error> {\n    match ti {\n" + r_arms +
          "        _ => panic!(\"no such zoo type\"),\n    }\n}\n\n"
          "pub fn twrite(ti: usize, v: &Value, w: &mut vharness::uptrace::Tw) -> Option<Result<(), asn1rs::protocol::per::Error>> {\n    match ti {\n" + tw_arms +
          "        _ => panic!(\"no such zoo type\"),\n    }\n}\n\n"
          "pub fn tread(ti: usize, r: &mut vharness::uptrace_read::Tr<'_>) -> Result<Value, asn1rs::protocol::per::Error> {\n    match ti {\n" + tr_arms +
          "        _ => panic!(\"no such zoo type\"),\n    }\n}\n\n"
          "pub fn pwrite(ti: usize, v: &Value, w: &mut ProtobufWriter<'_>) -> Option<Result<(), asn1rs::protocol::protobuf::Error>> {\n    match ti {\n" + pw_arms +
          "        _ => panic!(\"no such zoo type\"),\n    }\n}\n\n"
          "pub fn pread(ti: usize, r: &mut ProtobufReader<'_>) -> Result<Value, asn1rs::protocol::protobuf::Error> {\n    match ti {\n" + pr_arms +
          "        _ => panic!(\"no such zoo type\"),\n    }\n}\n\n"
          "pub fn pcheck(ti: usize, r: &mut ProtobufReader<'_>) -> Result<(), asn1rs::protocol::protobuf::Error> {\n    match ti {\n" + pc_arms +
          "        _ => panic!(\"no such zoo type\"),\n    }\n}\n\n"
          "pub const TYPES: &[usize] = &[" + ", ".join(str(i) for i in idx) + "];\n\n"
          "fn main() {\n    vharness::zoo::main(vharness::zoo::Api { write, read, twrite, tread, pwrite, pread, pcheck, types: TYPES });\n}\n")
    main = os.path.join(outdir, "src", "main.rs")
    old = open(main).read() if os.path.exists(main) else None
    if old != rs:
        open(main, "w").write(rs)
    open(os.path.join(outdir, "zoo.asn1"), "w").write(asn)
    feats = ", ".join('"%s"' % f for f in features)
    toml = ('[package]\nname = "vzoo"\nversion = "0.1.0"\nedition = "2021"\npublish = false\n\n[workspace]\n\n[dependencies]\n'
            'asn1rs = { path = "/repo", default-features = false, features = ["macros", "model", "protobuf"%s] }\n'
            'vharness = { path = "%s"%s }\nserde_json = "1"\n\n'
            '[profile.dev]\nopt-level = 0\ndebug = 0\ndebug-assertions = true\noverflow-checks = true\nincremental = false\n\n'
            '[profile.dev.package."*"]\nopt-level = 1\n') % (
        "".join(', "%s"' % f for f in features if f == "protobuf"), os.path.join(os.path.dirname(os.path.dirname(os.path.abspath(__file__))), "harness"),
        (', features = [%s]' % feats) if features else "")
    tp = os.path.join(outdir, "Cargo.toml")
    if not os.path.exists(tp) or open(tp).read() != toml:
        open(tp, "w").write(toml)
    os.makedirs(os.path.join(outdir, ".cargo"), exist_ok=True)
    open(os.path.join(outdir, ".cargo", "config.toml"), "w").write("[net]\noffline = true\n")
    return asn
