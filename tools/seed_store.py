#!/usr/bin/env python3
"""Stores a confirmed seeded change under /verif/seeded/<name>/ : seed_store.py <name> <outdir>"""
import json, os, shutil, sys
name, src = sys.argv[1], sys.argv[2]
dst = os.path.join("/verif/seeded", name)
os.makedirs(dst, exist_ok=True)
meta = json.load(open(os.path.join(src, "meta.json")))
ver = json.load(open(os.path.join(src, "verify.json")))
assert ver["demo_without_patch_exit"] == 0 and ver["demo_with_patch_exit"] != 0 and "passed=317 failed=3" in ver["suite_with_patch"], ver
shutil.copy(os.path.join(src, "patch_on_head.diff"), os.path.join(dst, "patch.diff"))
shutil.copy(os.path.join(src, "demo.rs"), os.path.join(dst, "demo.rs"))
out = {"property": meta["property"], "summary": meta.get("summary"), "needs": meta.get("needs"), "demo_location": meta.get("demo_location"),
       "author": "independent sub-agent given only the property text and a scratch worktree",
       "confirmed_by_me": {"repo_head": ver["head"], "how": "tools/seed_verify.sh in a scratch worktree of /repo HEAD: demo passes without the patch, "
                           "fails with it; with the patch the unedited suite shows 317 passed and only the 3 always-failing walker tests",
                           "demo_without_patch_exit": ver["demo_without_patch_exit"], "demo_with_patch_exit": ver["demo_with_patch_exit"],
                           "suite_with_patch": ver["suite_with_patch"].strip()},
       "detected_by": None}
json.dump(out, open(os.path.join(dst, "meta.json"), "w"), indent=1)
print("stored", dst)
