"""The reference encoder X691.tla must reproduce the repository's third-party fixtures before it judges the code."""
import os
import vlib
from vlib import run_tlc, ToolError


def check(v):
    tr = os.path.join(vlib.SPEC, "fixtures.ndjson")
    n = vlib.lint_trace(tr)
    t = run_tlc(v.pid, "Trace_Fixtures", "SPECIFICATION Spec\nCONSTANTS\n  W7 = 7\n  W14 = 14\nPOSTCONDITION Accepted\nCHECK_DEADLOCK FALSE\n",
                workers=1, env={"TRACE": tr}, deque=True, xss=True, coverage=False, heap="2g")
    if t.violation or not t.ok() or t.distinct != n + 1:
        rej = [l for l in t.out.splitlines() if l.startswith('<<"REJECTED"')]
        raise ToolError("X691.tla does not reproduce the third-party fixtures: %s" % (rej or [t.violation])[0][:500])
    v.cov["fixtures_reproduced_by_spec"] = n
    v.cov["states"] += t.distinct
    v.cov["transitions"] += t.generated
