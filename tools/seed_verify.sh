#!/bin/bash
# Confirms a seeded change independently: usage seed_verify.sh <name> <outdir with patch.diff demo.rs meta.json>
# In a scratch worktree of /repo HEAD: (1) demo passes without the patch, (2) with the patch the tree compiles, the
# suite shows only the 3 known failures, and the demo fails. Result is written to <outdir>/verify.json.
set -u
name=$1; src=$2; extra=${3:-}
wt=${SEED_WT:-/tmp/seed/verify-wt}
if [ ! -d $wt ]; then git -C /repo worktree add -q --detach $wt HEAD || exit 2; fi
cd $wt && git checkout -q --detach $(git -C /repo rev-parse HEAD) && git checkout -q -- . && git clean -fdq -e target
loc=$(python3 -c "import json,sys; print(json.load(open('$src/meta.json')).get('demo_location','tests/seeded_demo.rs'))")
case "$loc" in asn1rs-model/*) pkg="-p asn1rs-model";; *) pkg="-p asn1rs";; esac
tname=$(basename $loc .rs)
mkdir -p $(dirname $loc) && cp $src/demo.rs $loc
cargo test --offline $pkg $extra --test $tname > $src/verify_demo_without.log 2>&1; without=$?
if ! git apply --3way $src/patch.diff 2> $src/verify_apply.log; then echo "{\"name\":\"$name\",\"error\":\"patch does not apply\"}" > $src/verify.json; cat $src/verify.json; exit 1; fi
git reset -q
cargo test --offline $pkg $extra --test $tname > $src/verify_demo_with.log 2>&1; with=$?
rm -f $loc
suite=$(/verif/tools/repo_suite.sh $wt | tr '\n' ' ')
git diff > $src/patch_on_head.diff
git checkout -q -- .
echo "{\"name\":\"$name\",\"head\":\"$(git -C /repo rev-parse --short HEAD)\",\"demo_without_patch_exit\":$without,\"demo_with_patch_exit\":$with,\"suite_with_patch\":\"$suite\"}" > $src/verify.json
cat $src/verify.json
