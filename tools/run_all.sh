#!/bin/bash
# usage: tools/run_all.sh <tier> [ids...]   - runs the checks one after the other, one summary line each (development helper)
cd "$(dirname "$0")/.."
tier=${1:-quick}; shift
ids=${@:-C01 C02 C03 C04 C05 C06 C07 C08 C09 C10 C11 C12 C13 C14 C15 C16 C17 C18 C19 C20}
mkdir -p out/logs
for id in $ids; do
  s=$(date +%s)
  timeout 7200 ./tools/check $id --tier $tier > out/logs/$id.$tier.log 2>&1
  rc=$?
  echo "$id tier=$tier exit=$rc wall=$(( $(date +%s) - s ))s $(grep -c '^VIOLATION' out/logs/$id.$tier.log) violations, $(grep -c '^KNOWN-FINDING' out/logs/$id.$tier.log) known"
done
