#!/bin/bash
# Applies a stored seeded change to /repo, runs one check, undoes the change: seed_run.sh <seed-name> <PID> [tier]
name=$1; pid=$2; tier=${3:-quick}
cd /verif || exit 2
[ -z "$(git -C /repo status --porcelain --untracked-files=no)" ] || { echo "/repo not clean"; exit 2; }
git -C /repo apply /verif/seeded/$name/patch.diff || exit 2
./tools/check $pid --tier $tier > out/seed_$name.$pid.log 2>&1; rc=$?
git -C /repo checkout -- .
nv=$(grep -c '^VIOLATION' out/seed_$name.$pid.log)
echo "seed=$name check=$pid tier=$tier exit=$rc violations=$nv"
grep -m2 -A1 '^VIOLATION\|^TOOL-ERROR' out/seed_$name.$pid.log | cut -c1-240
python3 - "$name" "$pid" "$tier" "$rc" <<'PY'
import json,sys
name,pid,tier,rc=sys.argv[1:5]
p='/verif/seeded/%s/meta.json'%name
m=json.load(open(p))
d=m.get('detected_by') or {}
d['%s/%s'%(pid,tier)]={'exit':int(rc),'detected':int(rc)==1}
m['detected_by']=d
json.dump(m,open(p,'w'),indent=1)
PY
