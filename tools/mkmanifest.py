#!/usr/bin/env python3
"""Regenerates MANIFEST.json from the table below (kept next to the checks so the two cannot drift)."""
import json, os, subprocess

ROOT = os.path.dirname(os.path.dirname(os.path.abspath(__file__)))

CHECKS = {
    "C11": dict(
        category="model_checking",
        text="BitOps.tla (naive bit-vector model) decides C11 three ways: TLC explores all operation sequences of the growable-buffer "
             "machine (exactness, zero padding, frame, FIFO content); TLC enumerates EVERY single copy (src offset, dst position, "
             "length) on 3-byte (quick) / 5-byte (thorough) buffers for all back ends and method variants and the real code must "
             "produce exactly the specified memory image, cursor and ok/err outcome; seeded histories of mixed calls recorded from "
             "the real BitBuffer/slices/Bits are validated event by event by Trace_BitBuffer.tla. Bounded-exhaustive plus sampled.",
        design_ref="DESIGN.md section 7, C11",
        note="Trusted: the naive model BitOps.tla; TLC; the harness' observation of a BitBuffer's private read cursor through "
             "follow-up public reads. Exhaustive only within the stated buffer sizes; larger buffers are sampled by traces.",
        technique="TLA+ functional model + TLC case enumeration replayed into the real code + trace validation"),
    "C10": dict(
        category="model_checking",
        text="X691Prim.tla transcribes X.691 clause 11 (and the length/fragmentation parts of 16/17/20) over Big numbers. TLC (a) proves on "
             "a design-level machine with shrunken thresholds that the fragmentation loops refine the functional plan, invert each other and "
             "terminate; (b) enumerates argument tuples of every public primitive - exhaustive small ranges, all pairs of 2^k boundary bounds "
             "up to the i64/u64 extremes, all length thresholds +-1 and fragment classes up to 200000, inadmissible tuples included - and "
             "the real PackedWrite must produce exactly the reference bits (or refuse), PackedRead must return the value and stop exactly "
             "at the end; (c) validates recorded histories of primitive calls on one buffer against the same operators.",
        design_ref="DESIGN.md section 7, C10",
        note="Trusted: X691Prim.tla as a reading of X.691 (cross-checked against the repository's third-party fixtures in C02), TLC, Big.tla. "
             "Inside the input classes of the two open findings only the persistence of the deviation is checked.",
        technique="TLA+ reference encoder + TLC case enumeration replayed into the real code + trace validation + design-level model checking"),
    "C01": dict(
        category="model_checking",
        text="Zoo.tla/X691.tla define a bounded universe of schemas and values; TLC (MC_Uper) enumerates every (type, value) and computes the "
             "reference stream. The zoo is compiled from ASN.1 text by the real asn_to_rust! macro; every vector and every history of 3 "
             "mixed values in one writer/one reader is executed: the reader must return the written values, consume exactly the written "
             "bits (sentinel after each message) and end with 0 bits remaining, and the stream must equal the concatenated reference "
             "encodings. Large lengths cover every fragment-count class.",
        design_ref="DESIGN.md section 7, C01",
        note="Bounded universe (Zoo.tla); oracle = X691.tla (validated against 60 third-party fixtures). Open findings limit the >= 16K "
             "classes of SEQUENCE OF / known-multiplier strings / BIT STRING to 'deviation persists'.",
        technique="TLA+ reference model + TLC enumeration of schemas/values replayed into macro-generated code"),
    "C02": dict(
        category="model_checking",
        text="X691.tla is the independent reference encoder written from the standard, itself validated by Trace_Fixtures.tla against 60 "
             "third-party (asn1.io playground) expectations found in the repository. For every type of the zoo inside the conformance "
             "profile and every value of its family the real writer's bits must equal Enc(t, v) and the real reader, fed the reference "
             "bits, must return v and stop exactly at their end. The reference includes the rules the implementation does not follow "
             "(14.1 enumeration index by value, 23.2 choice index by canonical tag order, 13.2.3 semi-constrained INTEGER (lb..MAX), "
             "16.2 named bit strings): each is an open finding whose input class carries the exact prediction of what the code does.",
        design_ref="DESIGN.md sections 4 and 7, C02; 11.3, 11.7",
        note="Trusted: my reading of X.691 as far as it is not pinned by the fixtures; TLC; zoogen's printing of the types as ASN.1 text. "
             "Inside the class of an open finding the writer's bits must equal the predicted deviation and everything else must hold.",
        technique="TLA+ reference encoder validated on third-party fixtures + TLC enumeration replayed into macro-generated code"),
    "C03": dict(
        category="model_checking",
        text="Bounded-exhaustive exactly as quantified: all SEQUENCE shapes with <= 3 (quick) / 4 (thorough) components x modes x marker "
             "positions x all presence patterns (plus leaf-class variations). TLC checks the preamble property on the reference bits "
             "(RefOk) and the real generated code must produce exactly these bits, decode them to the same pattern, and refuse exactly "
             "the inconsistent patterns with ExtensionFieldsInconsistent.",
        design_ref="DESIGN.md section 7, C03",
        note="Leaf type INTEGER(0..7); thorough tier is N = 4 (1 155 shapes) instead of the 5 named in the quantifier because compiling "
             "the N = 5 zoo (2 004 more types) exceeds a sensible check time; stated in DESIGN.md.",
        technique="TLC bounded-exhaustive shape/pattern enumeration replayed into macro-generated code"),
    "C06": dict(
        category="model_checking",
        text="X691!Enc is partial: values outside a non-extensible constraint have no encoding. TLC enumerates for every constrained zoo "
             "type the just-outside / far-outside values, sizes and illegal characters; the real writer must return Err for each (an Ok "
             "is decoded and reported), and out-of-root values of extensible constraints must round-trip in the extension form.",
        design_ref="DESIGN.md section 7, C06",
        note="Values that cannot be constructed in the generated Rust type are counted, not judged.",
        technique="TLC enumeration of out-of-constraint values replayed into macro-generated code"),
    "C05": dict(
        category="model_checking",
        text="Versions.tla defines schema evolution (Conv: what a reader of version tr must obtain from a value of version tw). MC_Versions "
             "enumerates families of versions (flat SEQUENCEs, CHOICE, ENUMERATED, and the versioned SEQUENCE nested in an extension "
             "addition / CHOICE extension alternative / root component / list), every ordered (writer, reader) pair, all presence "
             "patterns and payload sizes that exercise every first length octet; the compiled real types must decode to Conv and a "
             "sentinel written behind the message in the same stream must be read back with nothing remaining.",
        design_ref="DESIGN.md section 7, C05",
        note="k <= 3 (quick) / 5 (thorough) appended additions instead of 8; open finding NoSkipUnknownAdditions is modelled exactly (value "
             "and number of unread bits) for flat families and as 'any deviation' where it corrupts following root components.",
        technique="TLA+ version/projection model + TLC enumeration of version pairs replayed into macro-generated code"),
    "C16": dict(
        category="model_checking",
        text="Tags.tla defines the X.680 8.6 canonical order and the tag rules; TLC checks WireOrder is a root-first, per-group sorted "
             "permutation (SEQUENCE: identity) for ALL ordered selections of 3 (quick) / 4 (thorough) components from a pool of 11 tag "
             "situations x marker positions. For every one of them the order of write_seq/read_seq and the constants produced by the real "
             "macro pipeline (run time) must equal the specification; a compiled sample is encoded and compared bit for bit with X691!Enc "
             "in wire order. MC_SetsImport.tla adds the rule across modules (the tag of an untagged reference is decided in the module "
             "that defines the referenced type): 7 488 SET / SEQUENCE definitions over imported aliases, an imported untagged CHOICE and "
             "local types of the same names with other tags, both load orders.",
        design_ref="DESIGN.md section 7, C16; 11.6 (fifth round)",
        note="Automatic tagging inside an untagged CHOICE used as SET component is outside the pool (asn1rs and X.680 differ there in ways the "
             "property does not pin down).",
        technique="TLA+ tag-order model + TLC permutation enumeration checked against the real macro expansion and compiled code"),
    "C04": dict(
        category="fault_enumeration",
        text="The input space 'every byte string, declared length and type' is generated by a TLA+ fault model (Faults.tla / MC_Decode): all "
             "short bit strings, every single fault of every valid encoding of the zoo, and crafted extreme PER fields spliced in at every "
             "position; TLC enumerates them exhaustively within the bounds. Each input is executed against the real readers of the "
             "compiled zoo under an address-space limit, a per-case watchdog and a counting allocator; panic, hang, abort, unbounded "
             "allocation, over-read and failing accessors are violations. The specification contributes the inputs and the bound on "
             "consumption, not an expected value.",
        design_ref="DESIGN.md section 7, C04",
        note="'No hang / bounded allocation' is observed under limits, not proved. Inputs are exhaustive only up to the stated lengths; 1..3 "
             "fault sequences beyond one fault are sampled in the thorough tier.",
        technique="TLA+ fault model enumerated by TLC, executed in a sandboxed replay of the real decoders"),
    "C19": dict(
        category="model_checking",
        text="The specification's decoding outcome is a function of (type, bits, declared length) only. The C04 input space plus all valid "
             "encodings of the zoo are decoded by two builds of the same generated code (feature off / on); every outcome line (Ok value "
             "or error kind, bits consumed) must be identical.",
        design_ref="DESIGN.md section 7, C19",
        note="Compares the two builds with each other on TLC-enumerated inputs; agreement with the specification on valid inputs is C02.",
        technique="TLC-enumerated inputs replayed into two builds, outcome comparison"),
    "C13": dict(
        category="model_checking",
        text="Lexer.tla holds a functional definition of X.680 clause 12 tokenization (LexSpec: positions, comment marking, grouping) and a "
             "machine shaped like Tokenizer::parse (TokImpl). TLC checks for ALL strings up to length 4 (quick) / 6 (thorough) over an "
             "11-symbol lexical alphabet plus all separator forms between all short contexts that both agree (tokens, order, line/column) "
             "and that inserting any separator at any item boundary leaves the token sequence unchanged; a sharpness run with the fixed "
             "defect re-enabled must fail. The real Tokenizer is replayed on every string. At module level TLC's simulation of the "
             "printer machine draws layout plans applied to 38+ real modules: tokens, resolved model and token locations must be stable.",
        design_ref="DESIGN.md section 7, C13",
        note="'--' comments end at end of line (only that form is in the property's quantifier).",
        technique="TLA+ lexer machine vs functional spec (TLC exhaustive over strings) + replay into the real tokenizer + simulated relayout plans"),
    "C15": dict(
        category="model_checking",
        text="IntMap.tla over Big numbers defines the acceptable Rust integer types; TLC enumerates all ordered pairs of bounds of the 2^k "
             "boundary family within i64 (x extensible, MIN/MAX forms), checks the design-level meaning (contains / narrowest / 64-bit) and "
             "every constraint is pushed through the real front end at run time: wrapper type and value_min/value_max must match, a sample "
             "also as SEQUENCE field, OPTIONAL field, CHOICE alternative and SEQUENCE OF element.",
        design_ref="DESIGN.md section 7, C15",
        note="Exhaustive over the stated family (quick: 27 exponents, thorough: all 63). Open finding (MIN lower bound) is modelled exactly.",
        technique="TLA+ type-selection model enumerated by TLC, compared with the real generator output"),
    "C07": dict(
        category="model_checking",
        text="Grammar.tla defines the abstract syntax of the supported subset, a bounded generator of definitions (every constructor x every "
             "constraint form x tags of the four classes x OPTIONAL/DEFAULT with literals x marker positions x nesting; 3 000 definitions) "
             "and Canon, the canonical projection a faithful parser must deliver (X.680 equivalences applied). TLC enumerates the universe "
             "and checks well-formedness; every definition is printed to ASN.1 text, parsed and resolved by the real front end, and a "
             "canonical JSON projection of the model's public fields must equal Canon - order, names, kinds, ranges, named numbers, sizes "
             "with extensibility, tags with class, OPTIONAL/DEFAULT and literals, marker positions; plus MC_Modules.tla (every header form x "
             "every sequence of <= 3 IMPORTS clauses with / without object identifier) and MC_Literals.tla (every short hstring, bstring and "
             "character string as value assignment and as DEFAULT).",
        design_ref="DESIGN.md section 7, C07",
        note="One spelling per AST node (layout variation is C13); the projection code in harness/src/canon.rs is trusted.",
        technique="TLA+ abstract-syntax universe with canonical projection, TLC-enumerated, compared with the real parser's model"),
    "C09": dict(
        category="exploration",
        text="Names.tla specifies the generator's identifier automata (field / module, constant, variant / type name, the generator's second "
             "variant automaton and both keyword escapes); TLC checks on every valid ASN.1 identifier up to the length bound plus every Rust "
             "keyword and spelling variants that the outputs are legal non-keyword Rust identifiers, and computes the collision classes; the "
             "real functions are replayed on every identifier. rustc (cargo check of a generated crate with one asn_to_rust! per module) then "
             "decides compilability for: every keyword as field / variant / value / type name, one module per predicted collision class, every "
             "value-reference and DEFAULT kind x sign, named numbers and bits, inline-type naming, prelude-like names, and a stride sample of the "
             "Grammar.tla universe. Accepted = Tokenizer, Model::try_from, try_resolve, to_rust and the generator succeed.",
        design_ref="DESIGN.md section 7, C09",
        note="rustc is the oracle for compilability; the specification enumerates the name space and predicts collisions. Modules inside an "
             "open finding's class must fail with that finding's rustc error codes only.",
        technique="TLA+ name-mangling automata checked with TLC and replayed against the real functions; TLC-enumerated modules compiled by rustc"),
    "C08": dict(
        category="model_checking",
        text="The same TLC-enumerated universe plus the repository's own test modules go through the real generator and attribute parser at run "
             "time: the re-parsed Rust model must equal the generator's model per definition (modulo the derived tag of an untagged CHOICE), "
             "and the constants in the macro expansion (MIN/MAX/EXTENSIBLE of every constrained position incl. nested lists, DEFAULT values, "
             "STD_OPTIONAL_FIELDS/FIELD_COUNT/EXTENDED_AFTER_FIELD, VARIANT counts) must equal Grammar!Consts computed from the SOURCE syntax.",
        design_ref="DESIGN.md section 7, C08",
        note="Model equality is Debug-text equality; open findings are delimited exactly (only the named field may differ).",
        technique="TLC-enumerated universe through the real codegen/attribute-parser round trip; constants compared with a TLA+ operator"),
    "C12": dict(
        category="model_checking",
        text="Refs.tla enumerates, for 11 base definitions with literal slots, EVERY subset of slots replaced by value references x placement "
             "(same module, sibling by name, sibling by name+OID, OID with a same-named decoy module) x EVERY load order, plus negative "
             "variants per slot; the real resolver must deliver the canonical model of the literal spelling, or a resolve error for the "
             "negatives - never a silently substituted bound. Converter.tla: the file-level load / generate machine of src/converter.rs; every "
             "history of 5 (6) steps is replayed on the real Converter: result classes, a failed step changes nothing, and what is written "
             "depends only on the set of loaded files (file contents compared with a fresh converter).",
        design_ref="DESIGN.md section 7, C12; 11.7",
        note="Metamorphic relation of the property (literal spelling = reference); one open finding (kind of a referenced DEFAULT value).",
        technique="TLA+ enumeration of reference subsets / placements / load orders replayed into the real resolver"),
    "C14": dict(
        category="fault_enumeration",
        text="MC_TokenFaults.tla generates the input space as fault descriptors over lexical items and characters (every single deletion, "
             "swap, truncation, insertion of 48 vocabulary items / 18 characters at every position), all token soups up to length 2 (3 "
             "thorough) and simulated 1..4-fault behaviours; each is applied to every seed module and run through the whole front end under "
             "a watchdog. Only Ok/Err is allowed, the sole sanctioned panic is the documented one - sanctioned for exactly the inputs that "
             "Lexer!Unterminated calls unterminated; parse errors must carry a token that is at its reported location in the input.",
        design_ref="DESIGN.md section 7, C14",
        note="The specification supplies inputs and fault histories, not the expected Ok/Err; termination is observed under a watchdog.",
        technique="TLA+ fault machine enumerated / simulated by TLC, replayed into the real front end in a sandbox"),
    "C17": dict(
        category="model_checking",
        text="ProtoZoo.tla / MC_Proto: TLC enumerates message types covering every field kind and, per type, all presence patterns, the "
             "all-zero value and a boundary sweep through every component (varint length classes, zig-zag bit 31, i32 extremes, length "
             "octets). TLC checks that the expected decoded form is consistent with the schema rule (ProtoMap). The compiled real types "
             "are written with both writer back ends (identical bytes required) and read back; the result must equal the original up to "
             "proto3 default equivalence; every case runs under a watchdog and an allocation limit.",
        design_ref="DESIGN.md section 7, C17",
        note="64-bit values enter through Big.tla numbers (one message of uint64 / sint64 fields over every 2^k boundary; the wire primitives "
             "in MC_ProtoPrim); the fixed-slice back end is also run on slices of every capacity 0..48 (success with other octets is the "
             "violation), every message also as second message of a writer. Two open findings (lists nested in lists, list alternatives of a CHOICE).",
        technique="TLC-enumerated schemas/values replayed into the real protobuf writer/reader (sandboxed)"),
    "C18": dict(
        category="model_checking",
        text="Proto.tla is a proto3 wire decoder written in TLA+ from the encoding specification; ProtoMap.tla states the schema mapping rule. "
             "The generated .proto is parsed by an independent proto3 reader (validity checks) and, per vector, the real writer's bytes "
             "plus the schema AS DECLARED form a trace event that Trace_ProtoSchema.tla accepts iff the declared schema matches the rule "
             "and the bytes decode under it to the value (up to default equivalence).",
        design_ref="DESIGN.md section 7, C18",
        note="Trusted: my reading of the protobuf encoding spec; tools/protolib.py as proto3 schema reader.",
        technique="trace validation: real bytes + declared schema against a TLA+ proto3 decoder"),
    "C20": dict(
        category="model_checking",
        text="Der.tla over Big numbers; TLC enumerates lengths at every 7/8-bit octet boundary up to u64::MAX, all 124 tags, the i64/u64 "
             "boundary families, every boolean octet and enumerated indices, checks the specification's own round trip, and the real DER "
             "writer/reader must emit exactly these octets, return the value and consume exactly the written bytes; recorded streams of "
             "primitives are validated by Trace_Der.tla.",
        design_ref="DESIGN.md section 7, C20",
        note="INTEGER contents are specified as the writer emits them (the property asks for the round trip, not for minimal X.690 form).",
        technique="TLA+ model + TLC enumeration replayed into the real code + trace validation"),
}

NOT_APPLICABLE = {}

PENDING = "check under construction in this round (specification module exists or is planned in DESIGN.md section 7); not yet claimed"


def main():
    props = [json.loads(l) for l in open(os.path.join(ROOT, "properties.jsonl"))]
    fixes = subprocess.run(["git", "-C", "/repo", "log", "--format=%h %s"], stdout=subprocess.PIPE, text=True).stdout.splitlines()
    hooks = [l.split()[0] for l in fixes if l.split(" ", 1)[1].startswith("verif-hook:")]
    m = {
        "version": 1,
        "setup_cmd": "./tools/setup",
        "hooks": {
            "guard": "asn1rs_verif",
            "enable": "none needed so far: all observation goes through the public API (RUSTFLAGS='--cfg asn1rs_verif' is reserved)",
            "baseline_off_cmd": "cd /repo && cargo test --workspace --no-fail-fast --offline",
            "source_commits": hooks,
            "add_only": True,
        },
        "engines": [
            {"name": "tlc", "path": "spec/", "serves_properties": sorted(CHECKS),
             "kind_free_text": "TLA+ specifications checked with TLC 1.8: MC_* instances (model checking + replay-vector emission), Trace_* instances (trace validation)"},
            {"name": "harness", "path": "harness/", "serves_properties": sorted(CHECKS),
             "kind_free_text": "Rust crate with a path dependency on /repo: replay (spec->impl vectors), record (impl->spec traces)"},
        ],
        "checks": [],
        "notes": "Every check: ./tools/check <ID> --tier quick|thorough; exit 0 held, 1 VIOLATION, 2 tool error. Known findings: known_findings.jsonl.",
        "not_applicable": [],
    }
    for p in props:
        pid = p["id"]
        if pid in CHECKS:
            c = CHECKS[pid]
            m["checks"].append({
                "property_id": pid,
                "quick_cmd": "./tools/check %s --tier quick" % pid,
                "thorough_cmd": "./tools/check %s --tier thorough" % pid,
                "evidence_file": "/verif/evidence/%s.json" % pid,
                "replay_cmd_template": "./tools/check %s --replay {path}" % pid,
                "engine": "tlc+harness",
                "level_claimed": {"category": c["category"], "text": c["text"], "design_ref": c["design_ref"]},
                "level_note": c["note"],
                "technique": c["technique"],
            })
        else:
            m["not_applicable"].append({"property_id": pid, "reason": NOT_APPLICABLE.get(pid, PENDING)})
    with open(os.path.join(ROOT, "MANIFEST.json"), "w") as f:
        json.dump(m, f, indent=1)
        f.write("\n")


if __name__ == "__main__":
    main()
